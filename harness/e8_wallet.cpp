// E8 `walletsim` engines:
//   wallet_balance (C44)  histories of receives / sends / double-spends / maturation / reorgs; after every step the wallet's balances and
//                         spendable-coin list are compared with the shadow ledger.
//   wallet_create  (C41)  random CreateTransaction requests on an evolving wallet; request, model coin facts, result and the node's
//                         test-accept verdict are logged for the offline oracle (checks/C41.py).
// Parameters (--p): steps / ops (per case), tiny=1 (directed 64-byte-transaction corner, off), aps_sffo=1 (do not steer away from the
// avoid-partial-spends retry of subtract-fee requests for the whole balance; off while Assume() is fatal in this build).
//   wallet_bump    (C56)  fee bumps (feebumper::CreateRateBumpTransaction + SignTransaction + CommitTransaction) of wallet transactions,
//                         incl. refusal scenarios with before/after wallet dumps; logged for checks/C56.py.
#include <common/vh.h>
#include <sim_wallet.h>

#include <chain.h>
#include <consensus/validation.h>
#include <core_io.h>
#include <key_io.h>
#include <policy/policy.h>
#include <script/sign.h>
#include <script/signingprovider.h>
#include <script/solver.h>
#include <test/util/setup_common.h>
#include <txmempool.h>
#include <util/rbf.h>
#include <util/translation.h>
#include <wallet/coincontrol.h>
#include <wallet/feebumper.h>
#include <wallet/receive.h>
#include <wallet/spend.h>
#include <wallet/wallet.h>

#include <algorithm>
#include <map>
#include <set>
#include <string>
#include <vector>

namespace {
using namespace simw;
using wallet::CCoinControl;
using wallet::CRecipient;
using wallet::CWallet;

const OutputType OTYPES[4] = {OutputType::LEGACY, OutputType::P2SH_SEGWIT, OutputType::BECH32, OutputType::BECH32M};
const char* OTYPE_NAME[4] = {"legacy", "p2sh-segwit", "bech32", "bech32m"};
const char* FK_NAME[] = {"p2pkh", "p2sh", "p2wpkh", "p2wsh", "p2tr", "p2pk", "witunknown", "nonstandard"};

std::string JNum(int64_t v) { return std::to_string(v); }
std::string JOp(const COutPoint& op) { return vh::JStr(OutpointStr(op)); }
const char* ClassName(CoinClass c)
{
    switch (c) {
    case CoinClass::SPENT: return "spent";
    case CoinClass::IMMATURE: return "immature";
    case CoinClass::TRUSTED: return "trusted";
    case CoinClass::UNTRUSTED_PENDING: return "pending";
    }
    return "?";
}
const char* StatusName(TxStatus s)
{
    switch (s) {
    case TxStatus::UNKNOWN: return "unknown";
    case TxStatus::CHAIN: return "chain";
    case TxStatus::MEMPOOL: return "mempool";
    case TxStatus::CONFLICTED: return "conflicted";
    case TxStatus::LIMBO: return "limbo";
    }
    return "?";
}

//! State shared by the three workloads: the fixture plus what the generator remembers about it.
struct World {
    WalletSim sim;
    vh::Rng& rng;
    std::vector<CTxDestination> recv; //!< receive addresses handed out by the wallet
    std::vector<int> recv_type;
    //! --p aps_sffo=1: allow grouped (avoid-partial-spends) selection for subtract-fee requests close to the whole balance. Off by default: in that
    //! shape the avoid-partial-spends retry of CreateTransaction can fail and trip `Assume(!m_subtract_fee_outputs)` (spend.cpp, error path of
    //! CreateTransactionInternal), which this build makes fatal; the assumption is false but harmless in release builds (see the C41 report).
    bool aps_sffo{false};
    explicit World(const Options& o, vh::Rng& r) : sim(o), rng(r) {}

    CTxDestination WalletDest(int* type_out = nullptr, uint32_t reuse_pct = 25)
    {
        if (!recv.empty() && rng.chance(reuse_pct, 100)) {
            const size_t i = rng.below(recv.size());
            if (type_out) *type_out = recv_type[i];
            return recv[i];
        }
        const int t = static_cast<int>(rng.below(4));
        CTxDestination d = sim.NewDest(OTYPES[t], rng.chance(1, 4) ? "lbl" + std::to_string(recv.size()) : "");
        recv.push_back(d);
        recv_type.push_back(t);
        if (type_out) *type_out = t;
        return d;
    }
    CScript WalletScript() { return GetScriptForDestination(WalletDest()); }

    //! faucet -> wallet payment with 1..3 wallet outputs (plus sometimes a foreign one); not submitted
    CTransactionRef MakeFaucetPay(CAmount lo, CAmount hi, bool confirmed_only = false)
    {
        std::vector<CTxOut> outs;
        const int n = 1 + static_cast<int>(rng.below(3));
        for (int i = 0; i < n; ++i) outs.emplace_back(rng.range(lo, hi), WalletScript());
        if (rng.chance(1, 5)) outs.emplace_back(rng.range(10000, 1000000), GetScriptForDestination(WalletSim::ForeignDest(rng, ForeignKind::P2WPKH)));
        rng.shuffle(outs);
        return sim.FaucetTx(outs, rng.range(2000, 30000), /*signal_rbf=*/rng.chance(3, 4), {}, confirmed_only);
    }
};

// =========================================================================================================================================
// C44
// =========================================================================================================================================

struct BalStats {
    int64_t compares{0}, reorgs{0}, max_reorg_depth{0}, conflicts_tip{0}, conflicts_branch{0}, maturations{0}, dematurations{0}, receives{0}, sends{0},
        ambiguous_steps{0}, unconfirm{0}, reconfirm{0}, mempool_conflicts{0}, flipbacks{0}, reorg_failed{0};
};

//! Compare the wallet's answers with the model. Returns false when a violation was recorded.
bool CompareWallet(World& w, uint64_t c, int step, const std::string& op, BalStats& st, std::map<COutPoint, CoinClass>& prev_cb_class)
{
    WalletSim& sim = w.sim;
    sim.Sync();
    const ShadowLedger& L = sim.Ledger();
    const Balances mb = L.GetBalances();
    const wallet::Balance wb = wallet::GetBalance(sim.W());
    std::map<COutPoint, CAmount> avail_w;
    {
        LOCK(sim.W().cs_wallet);
        CCoinControl cc;
        for (const auto& o : wallet::AvailableCoins(sim.W(), &cc).All()) avail_w[o.outpoint] = o.txout.nValue;
    }
    std::vector<std::string> missing, extra, wrong_amount;
    CAmount avail_m_sum = 0, avail_w_sum = 0;
    int64_t avail_m_n = 0, n_amb = 0;
    for (const auto& [op_, coin] : L.Coins()) {
        const CoinClass cls = L.Classify(coin);
        if (coin.coinbase && coin.height >= 0) {
            auto it = prev_cb_class.find(op_);
            if (it != prev_cb_class.end()) {
                if (it->second == CoinClass::IMMATURE && cls == CoinClass::TRUSTED) ++st.maturations;
                if (it->second == CoinClass::TRUSTED && cls == CoinClass::IMMATURE) ++st.dematurations;
            }
            prev_cb_class[op_] = cls;
        }
        const bool amb = L.Ambiguous(coin);
        if (amb) ++n_amb;
        if (amb && getenv("VH_E8_DEBUG")) {
            for (const auto& t : coin.limbo_spenders) {
                fprintf(stderr, "step %d op %s: coin %s (h=%d) limbo-spent by %s:", step, op.c_str(), OutpointStr(op_).c_str(), coin.height, t.ToString().c_str());
                for (const auto& in : L.KnownTxs().at(t)->vin) {
                    const SCoin* pc = L.Find(in.prevout);
                    fprintf(stderr, " in=%s[%s,%s]", OutpointStr(in.prevout).substr(0, 12).c_str(), pc ? "exists" : "absent", StatusName(L.Status(in.prevout.hash)));
                }
                fprintf(stderr, "\n");
            }
        }
        const bool expect = cls == CoinClass::TRUSTED && !sim.Locked().count(op_);
        auto it = avail_w.find(op_);
        if (expect && !amb) {
            ++avail_m_n;
            avail_m_sum += coin.out.nValue;
            if (it == avail_w.end()) missing.push_back(JOp(op_));
            else if (it->second != coin.out.nValue) wrong_amount.push_back(JOp(op_));
        } else if (!(expect && amb)) {
            if (it != avail_w.end()) extra.push_back(JOp(op_));
        }
    }
    for (const auto& [op_, v] : avail_w) {
        avail_w_sum += v;
        if (!L.Find(op_)) extra.push_back(JOp(op_));
    }
    if (n_amb) ++st.ambiguous_steps;
    ++st.compares;
    vh::J j;
    j.u("case", c).i("step", step).str("op", op).i("tip", L.TipHeight())
        .raw("w", "[" + JNum(wb.m_mine_trusted) + "," + JNum(wb.m_mine_untrusted_pending) + "," + JNum(wb.m_mine_immature) + "]")
        .raw("m", "[" + JNum(mb.trusted) + "," + JNum(mb.untrusted_pending) + "," + JNum(mb.immature) + "]")
        .raw("amb", "[" + JNum(mb.amb_trusted) + "," + JNum(mb.amb_untrusted_pending) + "," + JNum(mb.amb_immature) + "]")
        .i("avail_w", avail_w.size()).i("avail_w_sum", avail_w_sum).i("avail_m", avail_m_n).i("avail_m_sum", avail_m_sum)
        .raw("missing", vh::JArr(missing)).raw("extra", vh::JArr(extra)).raw("wrong_amount", vh::JArr(wrong_amount))
        .i("ncoins", L.Coins().size()).i("pool", L.MempoolTxs().size()).i("locked", sim.Locked().size());
    vh::log().rec(j);
    bool ok = true;
    auto within = [](CAmount x, CAmount lo, CAmount amb) { return x >= lo && x <= lo + amb; };
    if (!within(wb.m_mine_trusted, mb.trusted, mb.amb_trusted)) {
        vh::log().violation("balance-trusted-mismatch", "GetBalance().m_mine_trusted differs from the model", vh::J().i("step", step).str("op", op).i("wallet", wb.m_mine_trusted).i("model", mb.trusted).i("ambiguous", mb.amb_trusted));
        ok = false;
    }
    if (!within(wb.m_mine_untrusted_pending, mb.untrusted_pending, mb.amb_untrusted_pending)) {
        vh::log().violation("balance-pending-mismatch", "GetBalance().m_mine_untrusted_pending differs from the model", vh::J().i("step", step).str("op", op).i("wallet", wb.m_mine_untrusted_pending).i("model", mb.untrusted_pending).i("ambiguous", mb.amb_untrusted_pending));
        ok = false;
    }
    if (!within(wb.m_mine_immature, mb.immature, mb.amb_immature)) {
        vh::log().violation("balance-immature-mismatch", "GetBalance().m_mine_immature differs from the model", vh::J().i("step", step).str("op", op).i("wallet", wb.m_mine_immature).i("model", mb.immature).i("ambiguous", mb.amb_immature));
        ok = false;
    }
    if (!missing.empty() || !extra.empty() || !wrong_amount.empty()) {
        vh::log().violation(!missing.empty() ? "available-coin-missing" : (!extra.empty() ? "available-coin-extra" : "available-coin-amount"),
                            "AvailableCoins differs from the model's spendable set",
                            vh::J().i("step", step).str("op", op).raw("missing", vh::JArr(missing)).raw("extra", vh::JArr(extra)).raw("wrong_amount", vh::JArr(wrong_amount)));
        ok = false;
    }
    return ok;
}

//! A wallet-made transaction spending exactly `op` (a double-spend of whatever wallet transaction spends it). Not committed.
CTransactionRef WalletDoubleSpend(World& w, const COutPoint& op, CAmount value, int64_t feerate_kvb)
{
    if (value < 20000) return nullptr;
    CCoinControl cc;
    cc.Select(op);
    cc.m_allow_other_inputs = false;
    cc.m_feerate = CFeeRate(feerate_kvb);
    cc.fOverrideFeeRate = true;
    std::vector<CRecipient> rec;
    const bool sffo = w.rng.chance(1, 3);
    rec.push_back({WalletSim::ForeignDest(w.rng, ForeignKind::P2WPKH), sffo ? value : value * static_cast<CAmount>(w.rng.range(20, 60)) / 100, sffo});
    std::string err;
    const CAmount saved_aps = w.sim.W().m_max_aps_fee;
    if (sffo && !w.aps_sffo) w.sim.W().m_max_aps_fee = -1;
    auto r = w.sim.Create(rec, std::nullopt, cc, true, &err);
    w.sim.W().m_max_aps_fee = saved_aps;
    if (!r) {
        vh::log().obs("c44_doublespend_create_failed");
        return nullptr;
    }
    return r->tx;
}

void RunBalanceHistory(uint64_t c, vh::Rng& rng, int steps, bool aps_sffo)
{
    Options o;
    o.keypool = 30;
    World w(o, rng);
    w.aps_sffo = aps_sffo;
    WalletSim& sim = w.sim;
    BalStats st;
    std::map<COutPoint, CoinClass> prev_cb;
    std::string opseq;
    bool bad = false;
    auto compare = [&](int step, const std::string& op) {
        if (!CompareWallet(w, c, step, op, st, prev_cb)) bad = true;
    };
    sim.Sync();
    // ---- prelude: wallet coinbases at scattered heights, a few confirmed receives, then blocks until the first coinbase is about to mature
    const int n_cb = static_cast<int>(rng.range(2, 5));
    int first_cb_height = -1;
    for (int i = 0; i < n_cb; ++i) {
        std::vector<CTransactionRef> txs;
        if (rng.chance(1, 2)) {
            if (auto t = w.MakeFaucetPay(100000, 3 * COIN, true)) {
                txs.push_back(t);
                ++st.receives;
            }
        }
        sim.MineOn(nullptr, txs, w.WalletScript());
        if (first_cb_height < 0) first_cb_height = sim.TipHeight();
        sim.Sync();
        const int gap = static_cast<int>(rng.range(0, 12));
        sim.MineEmpty(gap);
        sim.Sync();
    }
    compare(-2, "prelude");
    {
        // wallet-mature at depth 101 <=> tip = h + 100
        const int target = first_cb_height + 100 - static_cast<int>(rng.range(1, 6));
        while (sim.TipHeight() < target) sim.MineEmpty(1);
    }
    compare(-1, "bulk");
    struct ReorgRec {
        uint256 old_first, new_first;
        int fork{0};
    };
    std::optional<ReorgRec> last_reorg;
    bool branch_invalidated = false;
    const std::vector<uint32_t> weights{14, 6, 22, 14, 8, 8, 11, 7, 4, 3, 5};
    const char* OPN[] = {"recv_pool", "recv_block", "send", "mine", "mine_empty", "dspend_tip", "reorg", "flip", "lock", "spend_cb100", "rbf_self"};
    for (int step = 0; step < steps && !bad; ++step) {
        const size_t op = rng.weighted(weights);
        std::string tag = OPN[op];
        const ShadowLedger& L = sim.Ledger();
        // what the wallet's periodic rebroadcast would do: offer transactions that fell out of the mempool (non-final or premature after a
        // reorg) to the mempool again. Done by the harness so that the "limbo" state the property does not pin down stays short-lived.
        if (rng.chance(1, 2)) {
            bool any = false;
            for (const Txid& txid : L.KnownOrder()) {
                if (L.Status(txid) != TxStatus::LIMBO) continue;
                if (sim.Submit(L.KnownTxs().at(txid)).ok) any = true;
            }
            if (any) {
                vh::log().obs("c44_limbo_resubmitted");
                sim.Sync();
            }
        }
        switch (op) {
        case 0: { // faucet pays the wallet through the mempool
            if (auto t = w.MakeFaucetPay(50000, 2 * COIN)) {
                auto a = sim.Submit(t);
                if (a.ok) ++st.receives; else tag += ":rej";
            }
            break;
        }
        case 1: { // faucet pays the wallet directly in a block
            if (auto t = w.MakeFaucetPay(50000, 2 * COIN, true)) {
                sim.MineOn(nullptr, {t}, WalletSim::BurnScript());
                ++st.receives;
            }
            break;
        }
        case 2: { // wallet sends
            const Balances b = L.GetBalances();
            CAmount avail = b.trusted;
            CCoinControl cc;
            cc.m_include_unsafe_inputs = rng.chance(1, 5);
            if (cc.m_include_unsafe_inputs) avail += b.untrusted_pending;
            if (avail < 50000) {
                tag += ":poor";
                break;
            }
            cc.m_feerate = CFeeRate(rng.range(1000, 40000));
            std::vector<CRecipient> rec;
            const int n = 1 + static_cast<int>(rng.below(3));
            const bool big = rng.chance(1, 8);
            for (int i = 0; i < n; ++i) {
                const bool self = rng.chance(1, 4);
                CTxDestination d = self ? w.WalletDest() : WalletSim::ForeignDest(rng, static_cast<ForeignKind>(rng.below(6)));
                CAmount amt = big ? avail / n : rng.range(10000, std::max<CAmount>(20000, avail / (4 * n)));
                rec.push_back({d, amt, big && i == 0});
            }
            std::string err;
            if (getenv("VH_E8_DEBUG")) {
                fprintf(stderr, "step %d send: avail=%lld unsafe=%d feerate=%lld big=%d", step, (long long)avail, cc.m_include_unsafe_inputs, (long long)cc.m_feerate->GetFeePerK(), big);
                for (const auto& r_ : rec) fprintf(stderr, " [%lld sffo=%d]", (long long)r_.nAmount, r_.fSubtractFeeFromAmount);
                fprintf(stderr, "\n");
                for (const auto& [op_, coin] : L.Coins()) {
                    if (coin.Unspent()) fprintf(stderr, "   coin %s v=%lld h=%d cls=%s\n", OutpointStr(op_).substr(0, 14).c_str(), (long long)coin.out.nValue, coin.height, ClassName(L.Classify(coin)));
                }
            }
            // subtract-fee request for (nearly) the whole balance: no avoid-partial-spends retry unless --p aps_sffo=1 (see World::aps_sffo)
            const CAmount saved_aps = sim.W().m_max_aps_fee;
            if (big && !w.aps_sffo) sim.W().m_max_aps_fee = -1;
            auto r = sim.Create(rec, std::nullopt, cc, true, &err);
            sim.W().m_max_aps_fee = saved_aps;
            if (r) {
                sim.Commit(r->tx);
                ++st.sends;
            } else {
                tag += ":fail";
            }
            break;
        }
        case 3: { // mine the mempool
            sim.MineMempool(rng.chance(3, 10) ? w.WalletScript() : WalletSim::BurnScript());
            break;
        }
        case 4: {
            sim.MineEmpty(static_cast<int>(rng.range(1, 3)));
            break;
        }
        case 5:   // double-spend of an in-mempool transaction, confirmed directly on the tip
        case 10: { // ... or submitted to the mempool as a replacement (wallet transactions only)
            std::vector<CTransactionRef> cands;
            for (const auto& t : L.MempoolTxs()) {
                if (L.Status(t->GetHash()) == TxStatus::MEMPOOL) cands.push_back(t);
            }
            if (cands.empty()) {
                tag += ":none";
                break;
            }
            const CTransactionRef victim = cands[rng.below(cands.size())];
            CTransactionRef ds;
            const COutPoint in0 = victim->vin[rng.below(victim->vin.size())].prevout;
            if (const SCoin* fc = sim.FaucetLedger().Find(in0)) {
                if (op == 10) {
                    tag += ":faucet";
                    break;
                }
                std::vector<CTxOut> outs;
                outs.emplace_back(rng.range(50000, COIN), rng.chance(1, 2) ? w.WalletScript() : GetScriptForDestination(WalletSim::ForeignDest(rng, ForeignKind::P2WPKH)));
                ds = sim.FaucetTx(outs, rng.range(3000, 20000), true, {fc->op}, true);
            } else if (const SCoin* wc = L.Find(in0)) {
                ds = WalletDoubleSpend(w, wc->op, wc->out.nValue, op == 10 ? rng.range(60000, 200000) : rng.range(1000, 30000));
            }
            if (!ds) {
                tag += ":nods";
                break;
            }
            if (op == 5) {
                sim.MineOn(nullptr, {ds}, WalletSim::BurnScript());
                sim.Sync();
                if (sim.Ledger().Status(victim->GetHash()) == TxStatus::CONFLICTED) ++st.conflicts_tip;
            } else {
                auto a = sim.Submit(ds);
                if (a.ok) ++st.mempool_conflicts; else tag += ":rej";
            }
            break;
        }
        case 6: { // reorg onto a competing branch
            const int tip = L.TipHeight();
            const int d = static_cast<int>(rng.range(1, 5));
            const int fork = tip - d;
            if (fork < 101) break;
            std::vector<std::vector<CTransactionRef>> blk(d + 1); // transactions of the branch blocks
            std::set<Txid> dropped; // omitted or replaced by a conflicting transaction
            int n_conf = 0, n_keep = 0, n_omit = 0;
            for (int h = fork + 1; h <= tip; ++h) {
                const auto& vtx = L.BlockTxs(h);
                for (size_t i = 1; i < vtx.size(); ++i) {
                    const CTransactionRef& t = vtx[i];
                    bool dep = false;
                    for (const auto& in : t->vin) {
                        if (dropped.count(in.prevout.hash)) dep = true;
                        // inputs created by coinbases of the disconnected blocks do not exist on the new branch
                        for (int hh = fork + 1; hh <= tip; ++hh) {
                            if (L.BlockTxs(hh)[0]->GetHash() == in.prevout.hash) dep = true;
                        }
                    }
                    const uint64_t choice = rng.below(100);
                    if (dep || choice < 25) {
                        dropped.insert(t->GetHash());
                        ++n_omit;
                        continue;
                    }
                    if (choice < 50 && L.Status(t->GetHash()) == TxStatus::CHAIN) {
                        // conflict: same first-eligible input, different transaction
                        CTransactionRef ds;
                        for (const auto& in : t->vin) {
                            if (const SCoin* fc = sim.FaucetLedger().Find(in.prevout)) {
                                if (fc->height >= 0 && fc->height <= fork && (!fc->coinbase || fork + 1 - fc->height >= COINBASE_MATURITY)) {
                                    std::vector<CTxOut> outs;
                                    outs.emplace_back(rng.range(50000, COIN), rng.chance(1, 2) ? w.WalletScript() : GetScriptForDestination(WalletSim::ForeignDest(rng, ForeignKind::P2WPKH)));
                                    // only this coin: other faucet coins might not exist below the fork
                                    if (fc->out.nValue > outs[0].nValue + 50000) {
                                        CMutableTransaction m;
                                        m.version = 2;
                                        m.vin.emplace_back(fc->op, CScript{}, MAX_BIP125_RBF_SEQUENCE);
                                        m.vout = outs;
                                        m.vout.emplace_back(fc->out.nValue - outs[0].nValue - rng.range(3000, 20000), sim.FaucetScript());
                                        sim.FaucetSign(m, {{fc->op, fc->out}});
                                        ds = MakeTransactionRef(std::move(m));
                                    }
                                    break;
                                }
                            } else if (const SCoin* wc = L.Find(in.prevout)) {
                                if (wc->height >= 0 && wc->height <= fork && (!wc->coinbase || fork + 1 - wc->height >= COINBASE_MATURITY)) {
                                    ds = WalletDoubleSpend(w, wc->op, wc->out.nValue, rng.range(1000, 30000));
                                    break;
                                }
                            }
                        }
                        if (ds) {
                            dropped.insert(t->GetHash());
                            blk[d].push_back(ds); // wallet-made transactions carry nLockTime = current height: final only above the old tip
                            ++n_conf;
                            continue;
                        }
                    }
                    blk[h - fork - 1].push_back(t); // not below its old height (nLockTime)
                    ++n_keep;
                }
            }
            uint256 parent = L.BlockHash(fork);
            const uint256 old_first = L.BlockHash(fork + 1);
            uint256 new_first;
            for (int i = 0; i < d + 1; ++i) {
                const uint256 h = sim.MineOn(&parent, blk[i], rng.chance(1, 4) ? w.WalletScript() : WalletSim::BurnScript());
                if (i == 0) new_first = h;
                parent = h;
            }
            sim.Sync();
            if (sim.TipHash() == parent) {
                ++st.reorgs;
                st.max_reorg_depth = std::max<int64_t>(st.max_reorg_depth, d);
                st.conflicts_branch += n_conf;
                st.reconfirm += n_keep;
                st.unconfirm += n_omit;
                last_reorg = ReorgRec{old_first, new_first, fork};
                branch_invalidated = false;
                tag += ":d" + std::to_string(d) + ":c" + std::to_string(n_conf);
            } else {
                ++st.reorg_failed;
                tag += ":failed";
            }
            break;
        }
        case 7: { // flip between the two branches of the last reorg
            if (!last_reorg) break;
            const int depth = L.TipHeight() - last_reorg->fork;
            if (depth > 5) {
                last_reorg.reset();
                break;
            }
            if (!branch_invalidated) {
                if (!sim.OnActiveChain(last_reorg->new_first)) break;
                if (sim.Invalidate(last_reorg->new_first)) {
                    branch_invalidated = true;
                    ++st.flipbacks;
                    ++st.reorgs;
                    st.max_reorg_depth = std::max<int64_t>(st.max_reorg_depth, depth);
                    tag += ":back:d" + std::to_string(depth);
                }
            } else {
                sim.Reconsider(last_reorg->new_first);
                branch_invalidated = false;
                sim.Sync();
                if (sim.OnActiveChain(last_reorg->new_first)) {
                    ++st.flipbacks;
                    ++st.reorgs;
                    tag += ":again";
                }
            }
            break;
        }
        case 8: { // lock / unlock
            if (!sim.Locked().empty() && rng.chance(1, 2)) {
                auto it = sim.Locked().begin();
                std::advance(it, rng.below(sim.Locked().size()));
                sim.Unlock(*it);
                tag += ":unlock";
            } else {
                std::vector<COutPoint> cands;
                for (const auto& [op_, coin] : L.Coins()) {
                    if (coin.Unspent()) cands.push_back(op_);
                }
                if (!cands.empty()) sim.Lock(cands[rng.below(cands.size())], rng.chance(1, 3));
            }
            break;
        }
        case 9: { // a coinbase output at depth exactly 100 is spendable by consensus though the wallet calls it immature: spend it as a preset input
            const SCoin* pick = nullptr;
            for (const auto& [op_, coin] : L.Coins()) {
                if (coin.coinbase && coin.Unspent() && L.Depth(coin) == COINBASE_MATURITY) pick = &coin;
            }
            if (!pick) {
                tag += ":none";
                break;
            }
            if (auto t = WalletDoubleSpend(w, pick->op, pick->out.nValue, rng.range(1000, 20000))) {
                auto a = sim.Submit(t);
                tag += a.ok ? ":ok" : ":rej";
                if (a.ok) vh::log().obs("c44_spend_at_depth_100");
            }
            break;
        }
        }
        opseq += tag + ";";
        compare(step, tag);
    }
    vh::J j;
    const bool nt = st.conflicts_branch > 0 && st.reorgs > 0 && st.maturations > 0;
    j.u("case", c).b("hist", true).b("nt", nt).str("sig", opseq.substr(0, 4000)).i("compares", st.compares).i("reorgs", st.reorgs).i("max_depth", st.max_reorg_depth)
        .i("conflicts_branch", st.conflicts_branch).i("conflicts_tip", st.conflicts_tip).i("maturations", st.maturations).i("dematurations", st.dematurations)
        .i("receives", st.receives).i("sends", st.sends).i("ambiguous_steps", st.ambiguous_steps).i("unconfirm", st.unconfirm).i("reconfirm", st.reconfirm)
        .i("mempool_conflicts", st.mempool_conflicts).i("flipbacks", st.flipbacks).i("reorg_failed", st.reorg_failed).i("final_tip", sim.TipHeight());
    vh::log().rec(j);
}


// =========================================================================================================================================
// C41 — request generator (also the source of "original" transactions for C56)
// =========================================================================================================================================

struct RecipInfo {
    std::string kind;
    bool standard{true};
    bool own{false};
};

struct Request {
    std::vector<CRecipient> recips;
    std::vector<RecipInfo> info;
    std::optional<unsigned> change_pos;
    CCoinControl cc;
    bool sign{true};
    int64_t feerate_kvb{0};
    CAmount max_tx_fee{wallet::DEFAULT_TRANSACTION_MAXFEE};
    std::vector<COutPoint> presets;
    std::map<COutPoint, CTxOut> external; //!< preset inputs that are not the wallet's (faucet coins)
    std::string amount_mode, fee_mode, preset_mode;
    int change_type{-1};
    bool dest_change{false};
    bool no_aps{false}; //!< run with the wallet's avoid-partial-spends retry disabled (m_max_aps_fee = -1)
};

struct GenOpts {
    bool tame{false};      //!< C56 originals: requests that normally succeed and are accepted (no exotic presets, sane feerates)
    bool allow_tiny{false}; //!< allow 2-byte witness programs as recipients (see the report: 64-byte transactions)
};

CAmount SpendableTotal(const WalletSim& sim, bool include_unsafe)
{
    const ShadowLedger& L = sim.Ledger();
    CAmount s = 0;
    for (const auto& [op, c] : L.Coins()) {
        const CoinClass cls = L.Classify(c);
        if ((cls == CoinClass::TRUSTED || (include_unsafe && cls == CoinClass::UNTRUSTED_PENDING)) && !sim.Locked().count(op) && !L.Ambiguous(c)) s += c.out.nValue;
    }
    return s;
}

Request GenRequest(World& w, const GenOpts& go)
{
    vh::Rng& rng = w.rng;
    WalletSim& sim = w.sim;
    const ShadowLedger& L = sim.Ledger();
    Request rq;
    CCoinControl& cc = rq.cc;
    // --- fee rate
    {
        const size_t m = go.tame ? rng.weighted({30, 70, 0, 0, 0}) : rng.weighted({15, 50, 12, 13, 10});
        switch (m) {
        case 0: rq.feerate_kvb = 1000; rq.fee_mode = "min"; break;
        case 1: rq.feerate_kvb = rng.range(1000, rng.chance(1, 3) ? 150000 : 20000); rq.fee_mode = "normal"; break;
        case 2: rq.feerate_kvb = rng.range(0, 999); cc.fOverrideFeeRate = true; rq.fee_mode = "low_override"; break;
        case 3: rq.feerate_kvb = rng.range(200000, 3000000); rq.fee_mode = "high"; break;
        case 4: rq.feerate_kvb = rng.chance(1, 2) ? 100 : rng.range(100, 1000); cc.fOverrideFeeRate = rng.chance(4, 5); rq.fee_mode = "relay_min"; break;
        }
        cc.m_feerate = CFeeRate(rq.feerate_kvb);
    }
    if (!go.tame && rng.chance(3, 10)) rq.max_tx_fee = rng.range(1500, 60000);
    // --- coin control
    cc.m_include_unsafe_inputs = rng.chance(1, 4);
    if (!go.tame) {
        const size_t d = rng.weighted({70, 18, 12});
        cc.m_min_depth = d == 0 ? 0 : (d == 1 ? 1 : static_cast<int>(rng.range(2, 8)));
        if (rng.chance(1, 12)) cc.m_max_depth = static_cast<int>(rng.range(cc.m_min_depth, 60));
        cc.m_avoid_partial_spends = rng.chance(1, 7);
        cc.m_avoid_address_reuse = rng.chance(1, 2);
    }
    if (rng.chance(1, 2)) cc.m_signal_bip125_rbf = go.tame ? true : rng.coin();
    if (rng.chance(2, 5)) {
        rq.change_type = static_cast<int>(rng.below(4));
        cc.m_change_type = OTYPES[rq.change_type];
    }
    if (!go.tame && rng.chance(1, 10)) {
        cc.destChange = sim.NewChangeDest(OTYPES[rng.below(4)]);
        rq.dest_change = true;
    }
    const CAmount S = SpendableTotal(sim, cc.m_include_unsafe_inputs);
    if (go.allow_tiny && rng.chance(1, 2)) {
        // directed corner (only with --p tiny=1): send one native-segwit coin entirely (subtract-fee, no change) to a 4-byte witness-program script.
        // The result is a 1-in-1-out transaction of 64 non-witness bytes, below the mempool's minimum standard size of 65.
        std::vector<const SCoin*> sp;
        for (const auto& [op, c] : L.Coins()) {
            int wv;
            std::vector<unsigned char> wp;
            if (L.Classify(c) == CoinClass::TRUSTED && !sim.Locked().count(op) && !L.Ambiguous(c) && c.out.scriptPubKey.IsWitnessProgram(wv, wp) && c.out.nValue > 20000) sp.push_back(&c);
        }
        if (!sp.empty()) {
            const SCoin* c = sp[rng.below(sp.size())];
            Request t;
            t.feerate_kvb = rng.range(1000, 20000);
            t.cc.m_feerate = CFeeRate(t.feerate_kvb);
            t.fee_mode = "normal";
            t.amount_mode = "tiny_tx";
            t.preset_mode = "spendable";
            t.cc.Select(c->op);
            t.cc.m_allow_other_inputs = false;
            t.presets.push_back(c->op);
            t.recips.push_back({WitnessUnknown(static_cast<int>(rng.range(2, 16)), rng.bytes(2)), c->out.nValue, true});
            t.info.push_back({"witunknown", true, false});
            return t;
        }
    }
    // --- preset inputs
    std::vector<const SCoin*> spendable, locked, immature, pending, spent;
    for (const auto& [op, c] : L.Coins()) {
        const CoinClass cls = L.Classify(c);
        if (sim.Locked().count(op) && cls != CoinClass::SPENT) locked.push_back(&c);
        else if (cls == CoinClass::TRUSTED) spendable.push_back(&c);
        else if (cls == CoinClass::IMMATURE) immature.push_back(&c);
        else if (cls == CoinClass::UNTRUSTED_PENDING) pending.push_back(&c);
        else spent.push_back(&c);
    }
    CAmount preset_value = 0;
    const SCoin* dust_change_coin = nullptr;
    if (rng.chance(go.tame ? 15 : 35, 100) && !spendable.empty()) {
        const int np = static_cast<int>(rng.range(1, 3));
        rq.preset_mode = "spendable";
        for (int i = 0; i < np; ++i) {
            const SCoin* c = spendable[rng.below(spendable.size())];
            if (!go.tame) {
                const size_t k = rng.weighted({70, 8, 8, 7, 7});
                if (k == 1 && !locked.empty()) { c = locked[rng.below(locked.size())]; rq.preset_mode = "locked"; }
                if (k == 2 && !immature.empty()) { c = immature[rng.below(immature.size())]; rq.preset_mode = "immature"; }
                if (k == 3 && !pending.empty()) { c = pending[rng.below(pending.size())]; rq.preset_mode = "pending"; }
                if (k == 4 && !spent.empty()) { c = spent[rng.below(spent.size())]; rq.preset_mode = "spent"; }
            }
            if (std::find(rq.presets.begin(), rq.presets.end(), c->op) != rq.presets.end()) continue;
            rq.presets.push_back(c->op);
            preset_value += c->out.nValue;
            cc.Select(c->op);
            if (i == 0 && np == 1) dust_change_coin = c;
        }
        cc.m_allow_other_inputs = !rng.chance(3, 10);
    }
    if (!go.tame && rng.chance(8, 100)) {
        // external input: a confirmed faucet coin; the caller supplies the output and solving data, the wallet cannot sign it
        if (auto fc = sim.ReserveFaucetCoin()) {
            rq.presets.push_back(fc->op);
            rq.external[fc->op] = fc->out;
            cc.Select(fc->op).SetTxOut(fc->out);
            const CPubKey pk = sim.FaucetKey().GetPubKey();
            cc.m_external_provider.pubkeys[pk.GetID()] = pk;
            rq.sign = false;
            preset_value += fc->out.nValue;
            rq.preset_mode += "+external";
            if (rng.chance(1, 2)) cc.m_allow_other_inputs = true;
        }
    }
    // --- recipients
    const int nrec = go.tame ? static_cast<int>(rng.range(1, 3)) : static_cast<int>(1 + rng.weighted({50, 25, 12, 6, 4, 3}));
    const CAmount fee_guess = rq.feerate_kvb * (60 + 70 * std::max<int>(1, rq.presets.size()) + 35 * nrec) / 1000;
    const CAmount budget = (!cc.m_allow_other_inputs) ? preset_value : S + preset_value;
    const size_t amode = go.tame ? 0 : rng.weighted({48, 14, 8, 12, 8, 10});
    const char* AM[] = {"small", "near_total", "over", "dust_change", "tiny", "send_all_sffo"};
    rq.amount_mode = AM[amode];
    bool force_sffo_all = false;
    CAmount total_target = 0;
    switch (amode) {
    case 0: total_target = rng.range(nrec * 1000, std::max<CAmount>(nrec * 2000, budget / (rng.chance(1, 2) ? 30 : 4))); break;
    case 1: total_target = budget - (rng.chance(1, 3) ? 0 : rng.range(0, 2 * fee_guess + 3000)); break;
    case 2: total_target = budget + rng.range(1, 100000); break;
    case 3:
        if (!dust_change_coin && rq.presets.empty() && !spendable.empty()) {
            dust_change_coin = spendable[rng.below(spendable.size())];
            rq.presets.push_back(dust_change_coin->op);
            preset_value = dust_change_coin->out.nValue;
            cc.Select(dust_change_coin->op);
            rq.preset_mode = "spendable";
        }
        if (dust_change_coin) {
            cc.m_allow_other_inputs = false;
            total_target = preset_value - fee_guess - rng.range(0, 1500);
        } else {
            total_target = budget / 3;
        }
        break;
    case 4: total_target = nrec * rng.range(250, 1200); break;
    case 5: total_target = budget; force_sffo_all = true; break;
    }
    if (total_target < nrec) total_target = nrec;
    const bool any_sffo = force_sffo_all || rng.chance(go.tame ? 15 : (amode == 3 ? 50 : 30), 100);
    CAmount left = total_target;
    for (int i = 0; i < nrec; ++i) {
        RecipInfo ri;
        CTxDestination d;
        const size_t dk = rng.weighted({82, 12, static_cast<uint32_t>(go.tame ? 0 : 4), static_cast<uint32_t>(go.tame ? 0 : 2)});
        if (dk == 0) {
            ForeignKind fk = static_cast<ForeignKind>(rng.below(static_cast<uint64_t>(ForeignKind::NONSTANDARD)));
            d = WalletSim::ForeignDest(rng, fk);
            if (fk == ForeignKind::WIT_UNKNOWN && !go.allow_tiny) {
                while (std::get<WitnessUnknown>(d).GetWitnessProgram().size() < 3) d = WalletSim::ForeignDest(rng, fk);
            }
            ri.kind = FK_NAME[static_cast<int>(fk)];
        } else if (dk == 1) {
            int t;
            d = w.WalletDest(&t);
            ri.kind = std::string("own-") + OTYPE_NAME[t];
            ri.own = true;
        } else if (dk == 2) {
            d = WalletSim::ForeignDest(rng, ForeignKind::NONSTANDARD);
            ri.kind = "nonstandard";
            ri.standard = false;
        } else {
            d = CNoDestination(CScript() << OP_RETURN << rng.bytes(rng.range(1, 40)));
            ri.kind = "nulldata";
        }
        CAmount amt = (i == nrec - 1) ? left : std::max<CAmount>(1, left * static_cast<CAmount>(rng.range(5, 70)) / 100);
        if (amt < 0) amt = 0;
        left -= amt;
        if (ri.kind == "nulldata") {
            left += amt;
            amt = 0;
        }
        const bool sffo = ri.kind != "nulldata" && (force_sffo_all ? true : (any_sffo && rng.chance(1, 2)));
        rq.recips.push_back({d, amt, sffo});
        rq.info.push_back(ri);
    }
    if (rng.chance(3, 10)) rq.change_pos = static_cast<unsigned>(rng.below(nrec + (rng.chance(1, 15) ? 3 : 1)));
    bool has_sffo = false;
    for (const auto& r : rq.recips) has_sffo |= r.fSubtractFeeFromAmount;
    if (!w.aps_sffo && has_sffo && total_target + std::max<CAmount>(50000, 3 * fee_guess) >= budget) {
        rq.no_aps = true;
        cc.m_avoid_partial_spends = false;
    }
    return rq;
}

std::string JCoins(const WalletSim& sim)
{
    const ShadowLedger& L = sim.Ledger();
    std::vector<std::string> v;
    for (const auto& [op, c] : L.Coins()) {
        v.push_back("[" + JOp(op) + "," + JNum(c.out.nValue) + "," + JNum(L.Depth(c)) + "," + (c.coinbase ? "1" : "0") + "," +
                    (c.spent_chain ? "\"c\"" : (c.spent_mempool ? "\"m\"" : "\"\"")) + "," + (L.Ambiguous(c) ? "1" : "0") + "," + vh::JStr(ClassName(L.Classify(c))) + "," +
                    (sim.Locked().count(op) ? "1" : "0") + "," + (L.ScriptWasSpentFrom(c.out.scriptPubKey) ? "1" : "0") + "]");
    }
    return vh::JArr(v);
}

std::string JRequest(const Request& rq, WalletSim& sim)
{
    std::vector<std::string> rec, pre;
    for (size_t i = 0; i < rq.recips.size(); ++i) {
        rec.push_back(vh::J().hex("spk", GetScriptForDestination(rq.recips[i].dest)).i("amt", rq.recips[i].nAmount).b("sffo", rq.recips[i].fSubtractFeeFromAmount)
                          .str("kind", rq.info[i].kind).b("std", rq.info[i].standard).b("own", rq.info[i].own).done());
    }
    for (const auto& op : rq.presets) {
        vh::J j;
        j.str("op", OutpointStr(op));
        auto ext = rq.external.find(op);
        j.b("ext", ext != rq.external.end());
        if (ext != rq.external.end()) j.i("value", ext->second.nValue);
        else if (auto o = sim.Ledger().FindAnyOutput(op)) j.i("value", o->nValue);
        pre.push_back(j.done());
    }
    vh::J j;
    j.raw("recips", vh::JArr(rec)).raw("presets", vh::JArr(pre)).i("feerate", rq.feerate_kvb).b("override", rq.cc.fOverrideFeeRate)
        .b("allow_other", rq.cc.m_allow_other_inputs).b("include_unsafe", rq.cc.m_include_unsafe_inputs).i("min_depth", rq.cc.m_min_depth).i("max_depth", rq.cc.m_max_depth)
        .b("aps", rq.cc.m_avoid_partial_spends).b("no_aps_retry", rq.no_aps).b("avoid_reuse", rq.cc.m_avoid_address_reuse).i("change_type", rq.change_type).b("dest_change", rq.dest_change)
        .i("max_tx_fee", rq.max_tx_fee).b("sign", rq.sign).str("amount_mode", rq.amount_mode).str("fee_mode", rq.fee_mode).str("preset_mode", rq.preset_mode);
    if (rq.dest_change) j.hex("dest_change_spk", GetScriptForDestination(rq.cc.destChange));
    if (rq.change_pos) j.i("change_pos", *rq.change_pos); else j.null("change_pos");
    if (rq.cc.m_signal_bip125_rbf) j.b("rbf", *rq.cc.m_signal_bip125_rbf); else j.null("rbf");
    return j.done();
}

struct Created {
    bool ok{false};
    std::string err;
    CTransactionRef tx;  //!< fully signed when `complete`
    bool complete{false};
    CAmount fee{0};
    std::optional<unsigned> change_pos;
};

//! Run the request through wallet::CreateTransaction (and complete the signatures when external inputs are involved).
Created RunRequest(World& w, const Request& rq)
{
    WalletSim& sim = w.sim;
    Created cr;
    const CAmount saved_max = sim.W().m_default_max_tx_fee;
    const CAmount saved_aps = sim.W().m_max_aps_fee;
    sim.W().m_default_max_tx_fee = rq.max_tx_fee;
    if (rq.no_aps) sim.W().m_max_aps_fee = -1;
    auto res = sim.Create(rq.recips, rq.change_pos, rq.cc, rq.sign, &cr.err);
    sim.W().m_default_max_tx_fee = saved_max;
    sim.W().m_max_aps_fee = saved_aps;
    if (!res) return cr;
    cr.ok = true;
    cr.fee = res->fee;
    cr.change_pos = res->change_pos;
    cr.tx = res->tx;
    cr.complete = rq.sign;
    if (!rq.sign) {
        CMutableTransaction mtx(*res->tx);
        std::map<COutPoint, Coin> coins;
        std::map<COutPoint, CTxOut> prevouts;
        bool all_known = true;
        for (const auto& in : mtx.vin) {
            std::optional<CTxOut> o;
            auto e = rq.external.find(in.prevout);
            if (e != rq.external.end()) o = e->second;
            else o = sim.Ledger().FindAnyOutput(in.prevout);
            if (!o) {
                all_known = false;
                continue;
            }
            const SCoin* sc = sim.Ledger().Find(in.prevout);
            coins[in.prevout] = Coin(*o, sc && sc->height >= 0 ? sc->height : 1, sc && sc->coinbase);
            prevouts[in.prevout] = *o;
        }
        std::map<int, bilingual_str> input_errors;
        sim.W().SignTransaction(mtx, coins, SIGHASH_DEFAULT, input_errors);
        sim.FaucetSign(mtx, prevouts);
        cr.tx = MakeTransactionRef(std::move(mtx));
        cr.complete = all_known;
        for (const auto& in : cr.tx->vin) {
            if (in.scriptSig.empty() && in.scriptWitness.IsNull()) cr.complete = false;
        }
    }
    return cr;
}

std::string JCreated(const Created& cr, WalletSim& sim)
{
    vh::J j;
    j.b("ok", cr.ok);
    if (!cr.ok) {
        j.str("err", cr.err);
        return j.done();
    }
    j.str("tx", TxHex(*cr.tx)).i("fee", cr.fee).b("complete", cr.complete);
    if (cr.change_pos) j.i("change_pos", *cr.change_pos); else j.null("change_pos");
    std::vector<std::string> mine, ins;
    {
        LOCK(sim.W().cs_wallet);
        for (const auto& o : cr.tx->vout) mine.push_back(sim.W().IsMine(o.scriptPubKey) ? "1" : "0");
    }
    j.raw("mine_out", vh::JArr(mine));
    return j.done();
}

void HouseKeeping(World& w, int64_t& blocks, int64_t& funded)
{
    vh::Rng& rng = w.rng;
    WalletSim& sim = w.sim;
    const size_t k = rng.weighted({45, 20, 15, 6, 14});
    switch (k) {
    case 0: break;
    case 1:
        sim.MineMempool(rng.chance(1, 5) ? w.WalletScript() : WalletSim::BurnScript());
        ++blocks;
        break;
    case 2:
        if (auto t = w.MakeFaucetPay(2000, COIN / 2)) {
            if (sim.Submit(t).ok) ++funded;
        }
        break;
    case 3:
        if (auto t = w.MakeFaucetPay(2000, COIN / 2, true)) {
            sim.MineOn(nullptr, {t}, WalletSim::BurnScript());
            ++funded;
            ++blocks;
        }
        break;
    case 4: {
        if (!sim.Locked().empty() && rng.chance(1, 2)) {
            auto it = sim.Locked().begin();
            std::advance(it, rng.below(sim.Locked().size()));
            sim.Unlock(*it);
        } else {
            std::vector<COutPoint> cands;
            for (const auto& [op_, coin] : sim.Ledger().Coins()) {
                if (coin.Unspent()) cands.push_back(op_);
            }
            if (!cands.empty()) sim.Lock(cands[rng.below(cands.size())], false);
        }
        break;
    }
    }
    sim.Sync();
}

//! Fund a fresh wallet with confirmed coins of mixed types and sizes, some immature coinbases and some unconfirmed receives.
void InitialFunding(World& w)
{
    vh::Rng& rng = w.rng;
    WalletSim& sim = w.sim;
    sim.Sync();
    const int rounds = static_cast<int>(rng.range(3, 5));
    for (int r = 0; r < rounds; ++r) {
        std::vector<CTxOut> outs;
        const int n = static_cast<int>(rng.range(6, 14));
        for (int i = 0; i < n; ++i) {
            const size_t cls = rng.weighted({15, 45, 40});
            const CAmount v = cls == 0 ? rng.range(600, 6000) : (cls == 1 ? rng.range(10000, 600000) : rng.range(1000000, 2 * COIN));
            outs.emplace_back(v, w.WalletScript());
        }
        std::vector<CTransactionRef> txs;
        if (auto t = sim.FaucetTx(outs, 20000, true, {}, true)) txs.push_back(t);
        sim.MineOn(nullptr, txs, rng.chance(1, 2) ? w.WalletScript() : WalletSim::BurnScript());
        sim.Sync();
    }
    sim.MineEmpty(static_cast<int>(rng.range(0, 7)));
    sim.Sync();
    for (int i = 0; i < 2; ++i) {
        if (auto t = w.MakeFaucetPay(5000, COIN / 4)) sim.Submit(t);
    }
    sim.Sync();
}

void RunCreateCase(uint64_t c, vh::Rng& rng, int ops, bool allow_tiny, bool aps_sffo)
{
    Options o;
    o.keypool = 30;
    o.avoid_reuse = rng.chance(1, 4);
    World w(o, rng);
    w.aps_sffo = aps_sffo;
    WalletSim& sim = w.sim;
    InitialFunding(w);
    GenOpts go;
    go.allow_tiny = allow_tiny;
    int64_t blocks = 0, funded = 0, created = 0, committed = 0;
    const int64_t min_relay = sim.Pool().m_opts.min_relay_feerate.GetFeePerK();
    for (int i = 0; i < ops; ++i) {
        sim.Sync();
        Request rq = GenRequest(w, go);
        const std::string coins = JCoins(sim);
        const std::string jreq = JRequest(rq, sim);
        Created cr = RunRequest(w, rq);
        vh::J j;
        j.u("case", c).i("op", i).i("tip", sim.Ledger().TipHeight()).b("wallet_avoid_reuse", o.avoid_reuse).i("min_relay", min_relay)
            .raw("req", jreq).raw("coins", coins).raw("res", JCreated(cr, sim));
        bool accepted = false;
        if (cr.ok && cr.complete) {
            const Accept a = sim.TestAccept(cr.tx);
            accepted = a.ok;
            j.raw("accept", vh::J().b("ok", a.ok).str("reason", a.reason).i("vsize", a.vsize).i("fees", a.fees).done());
        }
        // wallet state must not depend on whether creation succeeded; the dump is not compared here (C43), only the lock set
        vh::log().rec(j);
        if (cr.ok) ++created;
        if (cr.ok && accepted && rng.chance(6, 10)) {
            // CWallet::CommitTransaction requires every input's parent in the wallet; transactions with external inputs go the sendrawtransaction way
            if (rq.external.empty()) sim.Commit(cr.tx); else sim.Submit(cr.tx);
            ++committed;
        }
        HouseKeeping(w, blocks, funded);
    }
    vh::log().rec(vh::J().u("case", c).b("summary", true).i("created", created).i("committed", committed).i("blocks", blocks).i("funded", funded).b("wallet_avoid_reuse", o.avoid_reuse));
}


// =========================================================================================================================================
// C56
// =========================================================================================================================================

const char* BumpResultName(wallet::feebumper::Result r)
{
    using R = wallet::feebumper::Result;
    switch (r) {
    case R::OK: return "OK";
    case R::INVALID_ADDRESS_OR_KEY: return "INVALID_ADDRESS_OR_KEY";
    case R::INVALID_REQUEST: return "INVALID_REQUEST";
    case R::INVALID_PARAMETER: return "INVALID_PARAMETER";
    case R::WALLET_ERROR: return "WALLET_ERROR";
    case R::MISC_ERROR: return "MISC_ERROR";
    }
    return "?";
}

//! value of every input of tx as the model / the request knows it; -1 when unknown
std::string JInputValues(const CTransaction& tx, WalletSim& sim, const std::map<COutPoint, CTxOut>& external, bool* all_mine = nullptr)
{
    std::vector<std::string> v;
    if (all_mine) *all_mine = true;
    for (const auto& in : tx.vin) {
        CAmount val = -1;
        bool mine = false;
        auto e = external.find(in.prevout);
        if (e != external.end()) val = e->second.nValue;
        else if (auto o = sim.Ledger().FindAnyOutput(in.prevout)) {
            val = o->nValue;
            mine = true;
        }
        if (all_mine && !mine) *all_mine = false;
        v.push_back("[" + JOp(in.prevout) + "," + JNum(val) + "," + (mine ? "1" : "0") + "]");
    }
    return vh::JArr(v);
}

struct BumpStats {
    int64_t attempts{0}, ok{0}, refused_expected{0}, refused_other{0}, skipped{0};
};

void RunBumpCase(uint64_t c, vh::Rng& rng, int ops, bool aps_sffo)
{
    namespace fb = wallet::feebumper;
    Options o;
    o.keypool = 30;
    World w(o, rng);
    w.aps_sffo = aps_sffo;
    WalletSim& sim = w.sim;
    InitialFunding(w);
    GenOpts go;
    go.tame = true;
    BumpStats st;
    int64_t blocks = 0, funded = 0;
    const int64_t incr = sim.Pool().m_opts.incremental_relay_feerate.GetFeePerK();
    const int64_t min_relay = sim.Pool().m_opts.min_relay_feerate.GetFeePerK();
    const std::vector<uint32_t> weights{22, 18, 8, 10, 8, 5, 8, 5, 5, 4, 3, 4, 2, 1, 14};
    const char* SCN[] = {"plain", "rate_ok", "rate_low", "outputs", "oci_change", "oci_recipient", "ancestor_confirmed", "r_confirmed", "r_already_bumped",
                         "r_wallet_descendant", "r_mempool_descendant", "r_not_mine", "r_conflicted", "r_unknown_txid", "small_change"};
    for (int i = 0; i < ops; ++i) {
        sim.Sync();
        const size_t scn = rng.weighted(weights);
        std::string tag = SCN[scn];
        // ---- the original
        Request rq;
        Created cr;
        std::optional<Created> parent;
        bool made = false;
        for (int attempt = 0; attempt < 4 && !made; ++attempt) {
            sim.Sync();
            rq = GenRequest(w, go);
            if (scn == 6) {
                // parent P first (its change stays unconfirmed), original spends P's change
                Request prq = GenRequest(w, go);
                Created pc = RunRequest(w, prq);
                if (!pc.ok || !pc.change_pos || !sim.TestAccept(pc.tx).ok) continue;
                sim.Commit(pc.tx);
                sim.Sync();
                parent = pc;
                rq = GenRequest(w, go);
                rq.cc.Select(COutPoint(pc.tx->GetHash(), *pc.change_pos));
                rq.presets.push_back(COutPoint(pc.tx->GetHash(), *pc.change_pos));
                rq.cc.m_allow_other_inputs = true;
            }
            if (scn == 10) {
                // one recipient is the faucet, so that a non-wallet transaction can spend an output of the original in the mempool
                rq.recips[0].dest = WitnessV0KeyHash(sim.FaucetKey().GetPubKey());
                rq.recips[0].nAmount = std::max<CAmount>(rq.recips[0].nAmount, 30000);
                rq.recips[0].fSubtractFeeFromAmount = false;
                rq.info[0].kind = "faucet";
                rq.info[0].own = false;
            }
            if (scn == 11) {
                if (auto fc = sim.ReserveFaucetCoin()) {
                    rq.presets.push_back(fc->op);
                    rq.external[fc->op] = fc->out;
                    rq.cc.Select(fc->op).SetTxOut(fc->out);
                    const CPubKey pk = sim.FaucetKey().GetPubKey();
                    rq.cc.m_external_provider.pubkeys[pk.GetID()] = pk;
                    rq.cc.m_allow_other_inputs = true;
                    rq.sign = false;
                } else {
                    continue;
                }
            }
            if (scn == 14) {
                // a change output so small that the bump has to drop it or add inputs
                std::vector<const SCoin*> sp;
                for (const auto& [op, coin] : sim.Ledger().Coins()) {
                    if (sim.Ledger().Classify(coin) == CoinClass::TRUSTED && coin.height >= 0 && !sim.Locked().count(op) && !sim.Ledger().Ambiguous(coin) && coin.out.nValue > 30000) sp.push_back(&coin);
                }
                if (sp.empty()) continue;
                const SCoin* coin = sp[rng.below(sp.size())];
                rq = Request{};
                rq.feerate_kvb = rng.range(1000, 5000);
                rq.cc.m_feerate = CFeeRate(rq.feerate_kvb);
                rq.cc.Select(coin->op);
                rq.presets.push_back(coin->op);
                rq.cc.m_allow_other_inputs = false;
                rq.recips.push_back({WalletSim::ForeignDest(rng, static_cast<ForeignKind>(rng.below(6))), coin->out.nValue - rng.range(1200, 9000), false});
                rq.info.push_back({"foreign", true, false});
                rq.amount_mode = "small_change";
            }
            cr = RunRequest(w, rq);
            if (!cr.ok || !cr.complete) continue;
            if (!sim.TestAccept(cr.tx).ok) continue;
            if (rq.external.empty()) sim.Commit(cr.tx); else sim.Submit(cr.tx);
            sim.Sync();
            made = sim.Ledger().Status(cr.tx->GetHash()) == TxStatus::MEMPOOL;
        }
        if (!made) {
            ++st.skipped;
            vh::log().obs("c56_original_not_made");
            continue;
        }
        const CTransactionRef orig = cr.tx;
        const Txid orig_txid = orig->GetHash();
        Txid target = orig_txid;
        bool expect_refusal = false;
        std::string refusal_class;
        // ---- scenario set-up
        bool setup_ok = true;
        switch (scn) {
        case 6: { // confirm the parent only
            sim.MineOn(nullptr, {parent->tx}, WalletSim::BurnScript());
            sim.Sync();
            setup_ok = sim.Ledger().Status(parent->tx->GetHash()) == TxStatus::CHAIN && sim.Ledger().Status(orig_txid) == TxStatus::MEMPOOL;
            break;
        }
        case 7: {
            sim.MineMempool(WalletSim::BurnScript());
            sim.Sync();
            setup_ok = sim.Ledger().Status(orig_txid) == TxStatus::CHAIN;
            expect_refusal = true;
            refusal_class = "confirmed";
            break;
        }
        case 8: { // a first, successful bump
            std::vector<bilingual_str> errs;
            CAmount of, nf;
            CMutableTransaction m;
            CCoinControl bcc;
            if (fb::CreateRateBumpTransaction(sim.W(), orig_txid, bcc, errs, of, nf, m, true, {}) == fb::Result::OK && fb::SignTransaction(sim.W(), m)) {
                Txid b;
                CTransactionRef keep = MakeTransactionRef(m);
                setup_ok = fb::CommitTransaction(sim.W(), orig_txid, std::move(m), errs, b) == fb::Result::OK;
                sim.LedgerMut().NoteTx(keep);
                sim.Sync();
            } else {
                setup_ok = false;
            }
            expect_refusal = true;
            refusal_class = "already_bumped";
            break;
        }
        case 9: { // a wallet transaction spending the original's change
            if (!cr.change_pos) {
                setup_ok = false;
                break;
            }
            Request crq;
            crq.feerate_kvb = 2000;
            crq.cc.m_feerate = CFeeRate(2000);
            const COutPoint ch(orig_txid, *cr.change_pos);
            crq.cc.Select(ch);
            crq.cc.m_allow_other_inputs = true;
            crq.recips.push_back({WalletSim::ForeignDest(rng, ForeignKind::P2WPKH), std::max<CAmount>(1000, orig->vout[*cr.change_pos].nValue / 3), false});
            crq.info.push_back({"foreign", true, false});
            Created child = RunRequest(w, crq);
            if (!child.ok) {
                setup_ok = false;
                break;
            }
            // half of the time the child is only in the wallet, not in the mempool
            if (rng.coin()) sim.W().SetBroadcastTransactions(false);
            sim.Commit(child.tx);
            sim.W().SetBroadcastTransactions(true);
            sim.Sync();
            expect_refusal = true;
            refusal_class = "wallet_descendant";
            break;
        }
        case 10: {
            int idx = -1;
            for (size_t k = 0; k < orig->vout.size(); ++k) {
                if (orig->vout[k].scriptPubKey == sim.FaucetScript()) idx = static_cast<int>(k);
            }
            CTransactionRef child;
            if (idx >= 0 && orig->vout[idx].nValue > 5000) {
                std::vector<CTxOut> outs;
                outs.emplace_back(orig->vout[idx].nValue - 3000, GetScriptForDestination(WalletSim::ForeignDest(rng, ForeignKind::P2WPKH)));
                CMutableTransaction m;
                m.version = 2;
                m.vin.emplace_back(COutPoint(orig_txid, idx), CScript{}, MAX_BIP125_RBF_SEQUENCE);
                m.vout = outs;
                sim.FaucetSign(m, {{COutPoint(orig_txid, idx), orig->vout[idx]}});
                child = MakeTransactionRef(std::move(m));
            }
            setup_ok = child && sim.Submit(child).ok;
            sim.Sync();
            expect_refusal = true;
            refusal_class = "mempool_descendant";
            break;
        }
        case 11:
            expect_refusal = true;
            refusal_class = "not_mine";
            break;
        case 12: { // double-spend the original with a confirmed wallet-made transaction
            const COutPoint in0 = orig->vin[0].prevout;
            const SCoin* coin = sim.Ledger().Find(in0);
            CTransactionRef ds = coin ? WalletDoubleSpend(w, in0, coin->out.nValue, 3000) : nullptr;
            if (!ds) {
                setup_ok = false;
                break;
            }
            sim.MineOn(nullptr, {ds}, WalletSim::BurnScript());
            sim.Sync();
            setup_ok = sim.Ledger().Status(orig_txid) == TxStatus::CONFLICTED;
            expect_refusal = true;
            refusal_class = "conflicted";
            break;
        }
        case 13: {
            target = Txid::FromUint256(uint256(rng.bytes(32)));
            expect_refusal = true;
            refusal_class = "unknown_txid";
            break;
        }
        default: break;
        }
        if (!setup_ok) {
            ++st.skipped;
            vh::log().obs("c56_setup_failed");
            continue;
        }
        // ---- facts about the original, from the model
        const ShadowLedger& L = sim.Ledger();
        bool orig_all_mine = true;
        const std::string orig_inputs = JInputValues(*orig, sim, rq.external, &orig_all_mine);
        bool wallet_desc = false, pool_desc = false;
        for (const auto& [txid, t] : L.KnownTxs()) {
            if (txid == orig_txid) continue;
            for (const auto& in : t->vin) {
                if (in.prevout.hash == orig_txid) wallet_desc = true;
            }
        }
        for (const auto& t : L.MempoolTxs()) {
            for (const auto& in : t->vin) {
                if (in.prevout.hash == orig_txid) pool_desc = true;
            }
        }
        const std::string orig_status = StatusName(L.Status(orig_txid));
        const int64_t orig_vsize = TxVSize(*orig);
        // ---- the bump request
        CCoinControl bcc;
        int64_t req_rate = -1;
        std::vector<CTxOut> outputs;
        std::optional<uint32_t> oci;
        std::string out_mode;
        const bool require_mine = true;
        if (scn == 1 || (scn >= 3 && scn <= 6 && rng.chance(1, 3)) || (scn == 14 && rng.chance(3, 4))) {
            req_rate = cr.fee * 1000 / orig_vsize + rng.range(1500, 40000);
        } else if (scn == 2) {
            req_rate = rng.chance(1, 2) ? std::max<int64_t>(0, cr.fee * 1000 / orig_vsize - rng.range(0, 500)) : cr.fee * 1000 / orig_vsize + rng.range(0, incr - 1);
        }
        if (req_rate >= 0) bcc.m_feerate = CFeeRate(req_rate);
        if (rng.chance(1, 3)) bcc.m_signal_bip125_rbf = true;
        if (scn == 3) {
            // caller-supplied outputs: the original recipients with an amount changed / one more recipient / one fewer
            for (size_t k = 0; k < orig->vout.size(); ++k) {
                if (cr.change_pos && *cr.change_pos == k) continue;
                outputs.push_back(orig->vout[k]);
            }
            const size_t m = rng.weighted({40, 30, 30});
            if (m == 0) {
                CTxOut& o = outputs[rng.below(outputs.size())];
                o.nValue = std::max<CAmount>(1000, o.nValue * static_cast<CAmount>(rng.range(50, 110)) / 100);
                out_mode = "amount";
            } else if (m == 1) {
                outputs.emplace_back(rng.range(1000, 50000), GetScriptForDestination(WalletSim::ForeignDest(rng, ForeignKind::P2WPKH)));
                out_mode = "added";
            } else if (outputs.size() > 1) {
                outputs.erase(outputs.begin() + rng.below(outputs.size()));
                out_mode = "removed";
            } else {
                out_mode = "same";
            }
        } else if (scn == 4 && cr.change_pos) {
            oci = *cr.change_pos;
        } else if (scn == 5) {
            std::vector<uint32_t> idx;
            for (size_t k = 0; k < orig->vout.size(); ++k) {
                if (!(cr.change_pos && *cr.change_pos == k)) idx.push_back(k);
            }
            oci = idx[rng.below(idx.size())];
            if (rng.chance(1, 12)) oci = orig->vout.size() + rng.below(3); // out of range
        }
        ++st.attempts;
        const std::string dump_before = sim.Dump(true);
        std::vector<bilingual_str> errors;
        CAmount old_fee = -1, new_fee = -1;
        CMutableTransaction mtx;
        const fb::Result res = fb::CreateRateBumpTransaction(sim.W(), target, bcc, errors, old_fee, new_fee, mtx, require_mine, outputs, oci);
        sim.Drain();
        const std::string dump_after = sim.Dump(true);
        std::string errtxt;
        for (const auto& e : errors) errtxt += e.original + " | ";
        std::vector<std::string> jouts;
        for (const auto& o_ : outputs) jouts.push_back(vh::J().hex("spk", o_.scriptPubKey).i("amt", o_.nValue).done());
        std::vector<std::string> orig_mine;
        {
            LOCK(sim.W().cs_wallet);
            for (const auto& o_ : orig->vout) orig_mine.push_back(sim.W().IsMine(o_.scriptPubKey) ? "1" : "0");
        }
        vh::J j;
        j.u("case", c).i("op", i).str("scenario", tag).str("out_mode", out_mode).b("expect_refusal", expect_refusal).str("refusal_class", refusal_class)
            .raw("orig_req", JRequest(rq, sim)).str("orig", TxHex(*orig)).i("orig_fee", cr.fee).raw("orig_inputs", orig_inputs).b("orig_all_mine", orig_all_mine)
            .raw("orig_mine_out", vh::JArr(orig_mine)).str("orig_status", orig_status).b("wallet_desc", wallet_desc).b("pool_desc", pool_desc).b("target_is_orig", target == orig_txid)
            .i("req_rate", req_rate).raw("outputs", vh::JArr(jouts)).i("incr", incr).i("min_relay", min_relay).i("max_tx_fee", sim.W().m_default_max_tx_fee)
            .str("result", BumpResultName(res)).str("errors", errtxt).b("dump_same", dump_before == dump_after)
            .str("dump_before", WalletSim::DumpDigest(dump_before)).str("dump_after", WalletSim::DumpDigest(dump_after));
        if (cr.change_pos) j.i("orig_change_pos", *cr.change_pos); else j.null("orig_change_pos");
        if (oci) j.i("oci", *oci); else j.null("oci");
        if (res != fb::Result::OK) {
            if (dump_before != dump_after) {
                // keep the first differing line as a witness
                size_t a = 0;
                while (a < dump_before.size() && a < dump_after.size() && dump_before[a] == dump_after[a]) ++a;
                const size_t ls = dump_after.rfind('\n', a) == std::string::npos ? 0 : dump_after.rfind('\n', a) + 1;
                j.str("dump_diff", dump_after.substr(ls, 300));
            }
            (expect_refusal ? st.refused_expected : st.refused_other)++;
            vh::log().rec(j);
            HouseKeeping(w, blocks, funded);
            continue;
        }
        j.i("old_fee", old_fee).i("new_fee", new_fee);
        const bool signed_ok = fb::SignTransaction(sim.W(), mtx);
        const CTransactionRef bumped = MakeTransactionRef(mtx);
        j.b("signed", signed_ok).str("new", TxHex(*bumped)).raw("new_inputs", JInputValues(*bumped, sim, rq.external));
        std::vector<std::string> new_mine;
        {
            LOCK(sim.W().cs_wallet);
            for (const auto& o_ : bumped->vout) new_mine.push_back(sim.W().IsMine(o_.scriptPubKey) ? "1" : "0");
        }
        j.raw("new_mine_out", vh::JArr(new_mine));
        if (signed_ok) {
            const Accept a = sim.TestAccept(bumped);
            j.raw("accept", vh::J().b("ok", a.ok).str("reason", a.reason).i("vsize", a.vsize).i("fees", a.fees).done());
            sim.TakeRemovals();
            std::vector<bilingual_str> cerrs;
            Txid bumped_txid;
            const fb::Result cres = fb::CommitTransaction(sim.W(), orig_txid, std::move(mtx), cerrs, bumped_txid);
            sim.LedgerMut().NoteTx(bumped);
            sim.Sync();
            bool replaced_notified = false;
            for (const auto& [txid, reason] : sim.TakeRemovals()) {
                if (txid == orig_txid && reason == "replaced") replaced_notified = true;
            }
            std::string cerrtxt;
            for (const auto& e : cerrs) cerrtxt += e.original + " | ";
            bool marked = false;
            {
                LOCK(sim.W().cs_wallet);
                const wallet::CWalletTx* ow = sim.W().GetWalletTx(orig_txid);
                const wallet::CWalletTx* nw = sim.W().GetWalletTx(bumped->GetHash());
                marked = ow && nw && ow->m_replaced_by_txid == bumped->GetHash() && nw->m_replaces_txid == orig_txid;
            }
            j.str("commit_result", BumpResultName(cres)).str("commit_errors", cerrtxt).b("bumped_txid_ok", bumped_txid == bumped->GetHash())
                .str("new_status", StatusName(sim.Ledger().Status(bumped->GetHash()))).str("orig_status_after", StatusName(sim.Ledger().Status(orig_txid)))
                .b("replaced_notified", replaced_notified).b("marked", marked);
        }
        ++st.ok;
        vh::log().rec(j);
        HouseKeeping(w, blocks, funded);
    }
    vh::log().rec(vh::J().u("case", c).b("summary", true).i("attempts", st.attempts).i("ok", st.ok).i("refused_expected", st.refused_expected).i("refused_other", st.refused_other).i("skipped", st.skipped));
}

} // namespace

VH_CMD(wallet_balance)
{
    const int steps = static_cast<int>(args.geti("steps", 150));
    for (uint64_t c = args.from; c < args.to; ++c) {
        vh::set_case(c);
        vh::Rng rng(args.seed, c);
        RunBalanceHistory(c, rng, steps, args.geti("aps_sffo", 0) != 0);
    }
    return 0;
}

VH_CMD(wallet_create)
{
    const int ops = static_cast<int>(args.geti("ops", 16));
    const bool tiny = args.geti("tiny", 0) != 0;
    for (uint64_t c = args.from; c < args.to; ++c) {
        vh::set_case(c);
        vh::Rng rng(args.seed, c);
        RunCreateCase(c, rng, ops, tiny, args.geti("aps_sffo", 0) != 0);
    }
    return 0;
}

VH_CMD(wallet_bump)
{
    const int ops = static_cast<int>(args.geti("ops", 12));
    for (uint64_t c = args.from; c < args.to; ++c) {
        vh::set_case(c);
        vh::Rng rng(args.seed, c);
        RunBumpCase(c, rng, ops, args.geti("aps_sffo", 0) != 0);
    }
    return 0;
}
