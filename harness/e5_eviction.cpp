// C59: SelectNodeToEvict over generated candidate sets (0..130 peers, heavy ties, all networks, permission and
// connection-type mixes). Online oracle written from the property statement (never over-demanding):
//  the selected id (if any) names exactly one offered candidate, which is INBOUND and not noban, and which is not,
//  under every ordering of ties and among ALL offered candidates, one of the 4 highest keyed netgroups, the 8 lowest
//  minimum ping times, the 4 latest last-tx times or the 4 latest last-block times
//  (i.e. #others with an equal-or-better key >= k for every criterion).
// Small sets (and every 16th set) are logged in full and re-checked by an independent Python implementation.
#include <common/vh.h>

#include <node/eviction.h>

#include <algorithm>
#include <chrono>
#include <optional>
#include <string>
#include <vector>

namespace {

struct Pal {
    std::vector<int64_t> v;
    int64_t pick(vh::Rng& r) { return v[r.below(v.size())]; }
};

// palette of k values drawn from [lo, hi], optionally including specials
Pal MakePal(vh::Rng& r, size_t k, int64_t lo, int64_t hi, std::initializer_list<int64_t> specials = {})
{
    Pal p;
    for (int64_t s : specials)
        if (r.coin()) p.v.push_back(s);
    while (p.v.size() < k) p.v.push_back(r.range(lo, hi));
    return p;
}

size_t PalSize(vh::Rng& r, size_t n)
{
    switch (r.below(6)) {
    case 0: return 1;
    case 1: return 2;
    case 2: return 3;
    case 3: return 1 + r.below(8);
    case 4: return std::max<size_t>(1, n / 2);
    default: return std::max<size_t>(1, n * 4); // mostly distinct
    }
}

const Network NETS[] = {NET_UNROUTABLE, NET_IPV4, NET_IPV6, NET_ONION, NET_I2P, NET_CJDNS, NET_INTERNAL};
const ConnectionType CONNS[] = {ConnectionType::INBOUND, ConnectionType::OUTBOUND_FULL_RELAY, ConnectionType::MANUAL,
                                ConnectionType::FEELER, ConnectionType::BLOCK_RELAY, ConnectionType::ADDR_FETCH};

std::string CandJson(const NodeEvictionCandidate& c)
{
    // [id, connected_us, ping_us, last_block_s, last_tx_s, relevant, relay, bloom, netgroup(str), prefer_evict, local, network, noban, conn]
    std::string s = "[";
    s += std::to_string(c.id) + ",";
    s += std::to_string(std::chrono::duration_cast<std::chrono::microseconds>(c.m_connected.time_since_epoch()).count()) + ",";
    s += std::to_string(std::chrono::duration_cast<std::chrono::microseconds>(c.m_min_ping_time).count()) + ",";
    s += std::to_string(c.m_last_block_time.count()) + ",";
    s += std::to_string(c.m_last_tx_time.count()) + ",";
    s += std::to_string(int(c.fRelevantServices)) + ",";
    s += std::to_string(int(c.m_relay_txs)) + ",";
    s += std::to_string(int(c.fBloomFilter)) + ",";
    s += "\"" + std::to_string(c.nKeyedNetGroup) + "\",";
    s += std::to_string(int(c.prefer_evict)) + ",";
    s += std::to_string(int(c.m_is_local)) + ",";
    s += std::to_string(int(c.m_network)) + ",";
    s += std::to_string(int(c.m_noban)) + ",";
    s += std::to_string(int(c.m_conn_type)) + "]";
    return s;
}

uint64_t Fnv(uint64_t h, uint64_t x)
{
    for (int i = 0; i < 8; ++i) {
        h ^= (x >> (8 * i)) & 0xff;
        h *= 0x100000001b3ULL;
    }
    return h;
}

} // namespace

// params: full_every (log the full input of every k-th case in addition to the small ones), small_n
VH_CMD(evict)
{
    const uint64_t full_every = args.geti("full_every", 16);
    const int64_t small_n = args.geti("small_n", 24);
    for (uint64_t c = args.from; c < args.to; ++c) {
        vh::set_case(c);
        vh::Rng rng(args.seed, c);
        // ---- size
        size_t n;
        switch (rng.below(10)) {
        case 0: n = rng.below(6); break;
        case 1: case 2: case 3: n = 5 + rng.below(20); break; // around the sum of the fixed protections (4+8+4+8+4)
        case 4: case 5: case 6: n = 20 + rng.below(30); break;
        case 7: case 8: n = 40 + rng.below(50); break;
        default: n = 80 + rng.below(51); break;
        }
        // "tight" regime (1 in 4): just enough eligible peers that a few survive the fixed protections, mostly distinct
        // attribute values -> the selected peer is often one step outside a protected top-k (the boundary of every k)
        const bool tight = rng.chance(1, 4);
        if (tight) n = 18 + rng.below(26);
        auto psz = [&](size_t nn) { return tight && !rng.chance(1, 5) ? nn * 4 : PalSize(rng, nn); };
        // ---- per-case attribute palettes (ties are the point)
        Pal ng = MakePal(rng, psz(n), INT64_MIN, INT64_MAX, {0, -1 /* = UINT64_MAX */});
        Pal ping = MakePal(rng, psz(n), 0, 2000000, {0, int64_t{9000000000000}});
        Pal txt = MakePal(rng, psz(n), 0, 2000000000, {0});
        Pal blk = MakePal(rng, psz(n), 0, 2000000000, {0});
        Pal con = MakePal(rng, psz(n), 0, 2000000000000000LL, {0});
        if (!tight && rng.chance(1, 3)) txt.v.assign(1 + rng.below(2), 0), txt.v.back() = rng.range(0, 100); // most peers never sent a tx
        if (!tight && rng.chance(1, 3)) blk.v.assign(1 + rng.below(2), 0), blk.v.back() = rng.range(0, 100);
        const uint32_t p_noban = tight ? std::vector<uint32_t>{0, 0, 5}[rng.below(3)] : std::vector<uint32_t>{0, 0, 5, 20, 60, 100}[rng.below(6)];
        const uint32_t p_notin = tight ? std::vector<uint32_t>{0, 0, 5}[rng.below(3)] : std::vector<uint32_t>{0, 0, 5, 20, 60, 100}[rng.below(6)];
        const uint32_t p_relay = std::vector<uint32_t>{0, 50, 90, 100}[rng.below(4)];
        const uint32_t p_relev = std::vector<uint32_t>{0, 50, 90, 100}[rng.below(4)];
        const uint32_t p_prefer = std::vector<uint32_t>{0, 0, 10, 50, 100}[rng.below(5)];
        const uint32_t p_local = std::vector<uint32_t>{0, 0, 10, 50}[rng.below(4)];
        const uint32_t p_privnet = std::vector<uint32_t>{0, 10, 40, 100}[rng.below(4)];
        std::vector<NodeEvictionCandidate> cands;
        std::vector<NodeId> ids(n);
        for (size_t i = 0; i < n; ++i) ids[i] = static_cast<NodeId>(i);
        if (rng.coin()) {
            const int64_t base = rng.range(0, int64_t{1} << 40);
            for (auto& x : ids) x = x * (1 + static_cast<NodeId>(c % 7)) + base;
        }
        rng.shuffle(ids);
        for (size_t i = 0; i < n; ++i) {
            NodeEvictionCandidate e{};
            e.id = ids[i];
            e.m_connected = NodeClock::time_point{std::chrono::microseconds{con.pick(rng)}};
            e.m_min_ping_time = std::chrono::microseconds{ping.pick(rng)};
            e.m_last_block_time = std::chrono::seconds{blk.pick(rng)};
            e.m_last_tx_time = std::chrono::seconds{txt.pick(rng)};
            e.fRelevantServices = rng.below(100) < p_relev;
            e.m_relay_txs = rng.below(100) < p_relay;
            e.fBloomFilter = rng.chance(1, 5);
            e.nKeyedNetGroup = static_cast<uint64_t>(ng.pick(rng));
            e.prefer_evict = rng.below(100) < p_prefer;
            e.m_is_local = rng.below(100) < p_local;
            e.m_network = rng.below(100) < p_privnet ? NETS[3 + rng.below(3)] : NETS[rng.below(7)];
            e.m_noban = rng.below(100) < p_noban;
            e.m_conn_type = rng.below(100) < p_notin ? CONNS[1 + rng.below(5)] : ConnectionType::INBOUND;
            cands.push_back(e);
        }

        // ---- call
        std::vector<NodeEvictionCandidate> copy = cands;
        const std::optional<NodeId> sel = SelectNodeToEvict(std::move(copy));

        // ---- oracle
        size_t n_eligible = 0, n_noban = 0, n_notin = 0;
        for (const auto& e : cands) {
            if (e.m_noban) ++n_noban;
            if (e.m_conn_type != ConnectionType::INBOUND) ++n_notin;
            if (!e.m_noban && e.m_conn_type == ConnectionType::INBOUND) ++n_eligible;
        }
        // how many eligible candidates are protected under each criterion (liveness of the check)
        auto others_ge = [&](const NodeEvictionCandidate& x, int crit) {
            size_t k = 0;
            for (const auto& o : cands) {
                if (&o == &x) continue;
                bool ge = false;
                switch (crit) {
                case 0: ge = o.nKeyedNetGroup >= x.nKeyedNetGroup; break;
                case 1: ge = o.m_min_ping_time <= x.m_min_ping_time; break;
                case 2: ge = o.m_last_tx_time >= x.m_last_tx_time; break;
                case 3: ge = o.m_last_block_time >= x.m_last_block_time; break;
                }
                if (ge) ++k;
            }
            return k;
        };
        static const size_t K[4] = {4, 8, 4, 4};
        static const char* CRIT[4] = {"netgroup", "ping", "txtime", "blocktime"};
        size_t prot[4] = {0, 0, 0, 0};
        size_t unprotected_eligible = 0;
        for (const auto& e : cands) {
            if (e.m_noban || e.m_conn_type != ConnectionType::INBOUND) continue;
            bool any = false;
            for (int k = 0; k < 4; ++k) {
                if (others_ge(e, k) < K[k]) ++prot[k], any = true;
            }
            if (!any) ++unprotected_eligible;
        }
        vh::J details;
        details.u("n", n);
        bool bad = false;
        std::string boundary;
        if (sel) {
            vh::log().obs("evicted");
            const NodeEvictionCandidate* s = nullptr;
            size_t hits = 0;
            for (const auto& e : cands)
                if (e.id == *sel) s = &e, ++hits;
            if (hits != 1) {
                bad = true;
                vh::log().violation("evicted-unknown-id", "selected id is not exactly one of the offered candidates", vh::J().i("sel", *sel).u("hits", hits).u("n", n));
            } else {
                if (s->m_noban) {
                    bad = true;
                    vh::log().violation("evicted-noban", "selected peer has the noban permission", vh::J().i("sel", *sel).raw("cand", CandJson(*s)));
                }
                if (s->m_conn_type != ConnectionType::INBOUND) {
                    bad = true;
                    vh::log().violation("evicted-not-inbound", "selected peer is not an inbound connection", vh::J().i("sel", *sel).raw("cand", CandJson(*s)));
                }
                for (int k = 0; k < 4; ++k) {
                    const size_t og = others_ge(*s, k);
                    if (og < K[k]) {
                        bad = true;
                        std::vector<std::string> all;
                        for (const auto& e : cands) all.push_back(CandJson(e));
                        vh::log().violation(std::string("evicted-protected-") + CRIT[k],
                                            std::string("selected peer is within the protected top-k by ") + CRIT[k] + " among all candidates under every tie order",
                                            vh::J().i("sel", *sel).u("others_equal_or_better", og).u("k", K[k]).raw("cands", vh::JArr(all)));
                    } else if (og == K[k]) {
                        vh::log().obs(std::string("boundary_") + CRIT[k]); // one step outside the protection
                        boundary += CRIT[k][0];
                    }
                }
            }
            if (n_noban) vh::log().obs("evicted_with_noban_present");
            if (n_notin) vh::log().obs("evicted_with_noninbound_present");
            for (int k = 0; k < 4; ++k)
                if (prot[k]) vh::log().obs(std::string("evicted_with_protected_") + CRIT[k]);
        } else {
            vh::log().obs("none_evicted");
            if (n_eligible > 0) vh::log().obs("none_evicted_with_eligible");
            if (unprotected_eligible > 0) vh::log().obs("none_evicted_with_statement_unprotected");
        }
        if (tight) vh::log().obs("tight_regime");
        if (n == 0) vh::log().obs("empty_set");
        if (n_eligible == 0 && n > 0) vh::log().obs("no_eligible");
        vh::log().obs_max("n", static_cast<int64_t>(n));

        // ---- record
        uint64_t h = 0xcbf29ce484222325ULL;
        for (const auto& e : cands) {
            h = Fnv(h, static_cast<uint64_t>(e.id));
            h = Fnv(h, e.nKeyedNetGroup);
            h = Fnv(h, static_cast<uint64_t>(e.m_min_ping_time.count()));
            h = Fnv(h, static_cast<uint64_t>(e.m_last_tx_time.count()));
            h = Fnv(h, static_cast<uint64_t>(e.m_last_block_time.count()));
            h = Fnv(h, static_cast<uint64_t>(e.m_connected.time_since_epoch().count()));
            h = Fnv(h, (uint64_t(e.m_noban) << 8) | (uint64_t(e.m_conn_type) << 4) | uint64_t(e.m_network));
        }
        vh::J j;
        j.u("case", c).u("n", n).u("elig", n_eligible).str("sig", std::to_string(h));
        if (sel) j.i("sel", *sel); else j.null("sel");
        j.b("nt", sel.has_value() && n_eligible > 0);
        j.str("bd", boundary);
        j.raw("prot", "[" + std::to_string(prot[0]) + "," + std::to_string(prot[1]) + "," + std::to_string(prot[2]) + "," + std::to_string(prot[3]) + "]");
        if (static_cast<int64_t>(n) <= small_n || (full_every && c % full_every == 0) || bad) {
            std::vector<std::string> all;
            for (const auto& e : cands) all.push_back(CandJson(e));
            j.raw("cands", vh::JArr(all));
        }
        vh::log().rec(j);
    }
    return 0;
}
