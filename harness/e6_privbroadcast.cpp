// VH_FLAVOURS: asan tsan
// E6 component engine for C39 clause 3: the PrivateBroadcast queue (src/private_broadcast.{h,cpp}).
//   privbcast_model  single-threaded op sequences; every call and its result is logged, checks/C39.py replays them on a Python model
//   privbcast_conc   the same object hammered from several threads (run under TSan as well); bounds are checked from per-thread logs
#include <common/vh.h>

#include <net.h>
#include <primitives/transaction.h>
#include <private_broadcast.h>
#include <util/time.h>

#include <atomic>
#include <map>
#include <thread>

namespace {

std::string HexLE(const uint256& h) { return vh::Hex(h.begin(), 32); }

//! tx number i; twins share the txid and differ in the witness
CTransactionRef MakeTx(uint32_t i, uint32_t twin = 0)
{
    CMutableTransaction m;
    m.version = 2;
    m.nLockTime = i;
    m.vin.resize(1);
    m.vin[0].prevout = COutPoint(Txid::FromUint256(uint256{static_cast<uint8_t>(1 + (i & 0x7f))}), i);
    m.vout.emplace_back(1000 + i, CScript() << OP_TRUE);
    if (twin) m.vin[0].scriptWitness.stack = {std::vector<unsigned char>{static_cast<unsigned char>(twin)}};
    return MakeTransactionRef(m);
}

const char* AddName(PrivateBroadcast::AddResult r)
{
    switch (r) {
    case PrivateBroadcast::AddResult::Added: return "added";
    case PrivateBroadcast::AddResult::AlreadyPresent: return "present";
    case PrivateBroadcast::AddResult::QueueFull: return "full";
    }
    return "?";
}

} // namespace

VH_CMD(privbcast_model)
{
    for (uint64_t c = args.from; c < args.to; ++c) {
        vh::set_case(c);
        vh::Rng rng(args.seed, c);
        SetMockTime(std::chrono::seconds{1700000000});
        // case 0 uses the production limits, the others small ones so that both bounds bind all the time
        const bool real = c % static_cast<uint64_t>(args.geti("real_every", 40)) == 0;
        const size_t max_tx = real ? PrivateBroadcast::MAX_TRANSACTIONS : static_cast<size_t>(rng.range(1, 4));
        const size_t max_att = real ? PrivateBroadcast::MAX_SEND_ATTEMPTS : static_cast<size_t>(rng.range(1, 5));
        std::unique_ptr<PrivateBroadcast> pb;
        const bool defaults = real && rng.coin();
        if (defaults) pb = std::make_unique<PrivateBroadcast>();
        else pb = std::make_unique<PrivateBroadcast>(max_tx, max_att);
        std::vector<std::string> ops;
        NodeId next_node = 0;
        int64_t now = 1700000000;
        auto info = [&] {
            // [[wtxid, attempts_remaining, n_peers, n_confirmed] ...]
            std::vector<std::string> v;
            for (const auto& e : pb->GetBroadcastInfo()) {
                size_t conf = 0;
                for (const auto& p : e.peers) conf += p.received.has_value();
                v.push_back("[\"" + HexLE(e.tx->GetWitnessHash().ToUint256()) + "\"," + std::to_string(e.attempts_remaining) + "," + std::to_string(e.peers.size()) + "," + std::to_string(conf) + "]");
            }
            return vh::JArr(v);
        };
        if (real) {
            // fill to the cap, overflow, saturate one transaction
            std::vector<CTransactionRef> txs;
            for (uint32_t i = 0; i < max_tx + 3; ++i) {
                auto tx = MakeTx(i);
                txs.push_back(tx);
                const auto r = pb->Add(tx);
                if (i < 3 || i + 6 > max_tx) ops.push_back(vh::J().str("op", "add").str("w", HexLE(tx->GetWitnessHash().ToUint256())).str("r", AddName(r)).u("size", pb->GetBroadcastInfo().size()).done());
                else ops.push_back(vh::J().str("op", "add").str("w", HexLE(tx->GetWitnessHash().ToUint256())).str("r", AddName(r)).done());
            }
            // remove all but one so that every pick must choose it
            for (uint32_t i = 1; i < max_tx; ++i) {
                const auto r = pb->Remove(txs[i]);
                ops.push_back(vh::J().str("op", "remove").str("w", HexLE(txs[i]->GetWitnessHash().ToUint256())).i("r", r ? static_cast<int64_t>(*r) : -1).done());
            }
            for (uint32_t k = 0; k < max_att + 5; ++k) {
                const NodeId n = next_node++;
                const auto r = pb->PickTxForSend(n, CService{});
                ops.push_back(vh::J().str("op", "pick").i("node", n).str("r", r ? HexLE((*r)->GetWitnessHash().ToUint256()) : "").done());
                if (k == max_att + 1) {
                    const auto a = pb->Add(txs[0]); // re-adding an exhausted transaction resets it
                    ops.push_back(vh::J().str("op", "add").str("w", HexLE(txs[0]->GetWitnessHash().ToUint256())).str("r", AddName(a)).done());
                }
            }
            ops.push_back(vh::J().str("op", "info").raw("r", info()).done());
        } else {
            const uint32_t ntx = static_cast<uint32_t>(max_tx + rng.range(1, 4));
            std::vector<CTransactionRef> txs;
            for (uint32_t i = 0; i < ntx; ++i) {
                txs.push_back(MakeTx(i));
                if (rng.chance(1, 4)) txs.push_back(MakeTx(i, 1 + rng.below(3)));
            }
            const int nops = static_cast<int>(args.geti("ops", 120));
            std::vector<NodeId> used_nodes;
            for (int k = 0; k < nops; ++k) {
                const uint64_t r = rng.below(100);
                if (r < 25) {
                    const auto& tx = rng.pick(txs);
                    const auto res = pb->Add(tx);
                    ops.push_back(vh::J().str("op", "add").str("w", HexLE(tx->GetWitnessHash().ToUint256())).str("t", HexLE(tx->GetHash().ToUint256())).str("r", AddName(res)).done());
                } else if (r < 35) {
                    const auto& tx = rng.pick(txs);
                    const auto res = pb->Remove(tx);
                    ops.push_back(vh::J().str("op", "remove").str("w", HexLE(tx->GetWitnessHash().ToUint256())).i("r", res ? static_cast<int64_t>(*res) : -1).done());
                } else if (r < 65) {
                    const NodeId n = next_node++;
                    used_nodes.push_back(n);
                    const auto res = pb->PickTxForSend(n, CService{});
                    ops.push_back(vh::J().str("op", "pick").i("node", n).str("r", res ? HexLE((*res)->GetWitnessHash().ToUint256()) : "").done());
                } else if (r < 78) {
                    const NodeId n = used_nodes.empty() || rng.chance(1, 8) ? next_node + 1000 : rng.pick(used_nodes);
                    pb->NodeConfirmedReception(n);
                    ops.push_back(vh::J().str("op", "confirm").i("node", n).done());
                } else if (r < 86) {
                    const NodeId n = used_nodes.empty() || rng.chance(1, 8) ? next_node + 1000 : rng.pick(used_nodes);
                    const auto res = pb->GetTxForNode(n);
                    ops.push_back(vh::J().str("op", "txfornode").i("node", n).str("r", res ? HexLE((*res)->GetWitnessHash().ToUint256()) : "").done());
                } else if (r < 91) {
                    const NodeId n = used_nodes.empty() ? 0 : rng.pick(used_nodes);
                    ops.push_back(vh::J().str("op", "didconfirm").i("node", n).b("r", pb->DidNodeConfirmReception(n)).done());
                } else if (r < 95) {
                    ops.push_back(vh::J().str("op", "pending").b("r", pb->HavePendingTransactions()).done());
                } else if (r < 98) {
                    ops.push_back(vh::J().str("op", "info").raw("r", info()).done());
                } else {
                    now += rng.range(1, 400);
                    SetMockTime(std::chrono::seconds{now});
                    ops.push_back(vh::J().str("op", "time").i("now", now).u("stale", pb->GetStale().size()).done());
                }
            }
            ops.push_back(vh::J().str("op", "info").raw("r", info()).done());
        }
        SetMockTime(std::chrono::seconds{0});
        vh::log().obs("model_cases");
        vh::log().rec(vh::J().u("case", c).str("kind", "privbcast_model").b("real", real).b("defaults", defaults).u("max_tx", max_tx).u("max_att", max_att).raw("ops", vh::JArr(ops)));
    }
    return 0;
}

VH_CMD(privbcast_conc)
{
    for (uint64_t c = args.from; c < args.to; ++c) {
        vh::set_case(c);
        vh::Rng rng(args.seed, c);
        const size_t max_tx = static_cast<size_t>(rng.range(2, 6));
        const size_t max_att = static_cast<size_t>(rng.range(2, 8));
        PrivateBroadcast pb(max_tx, max_att);
        const int nthreads = static_cast<int>(rng.range(2, 6));
        const int nops = static_cast<int>(args.geti("ops", 400));
        std::vector<CTransactionRef> txs;
        for (uint32_t i = 0; i < max_tx + 4; ++i) txs.push_back(MakeTx(i));
        std::atomic<NodeId> next_node{0};
        std::atomic<size_t> max_size_seen{0};
        std::atomic<bool> go{false};
        // no transaction is ever re-added after a successful Add in this command, so each may be picked at most max_att times in total
        std::vector<std::atomic<int>> added(txs.size());
        std::vector<std::map<std::string, int>> picks(nthreads);
        std::vector<uint64_t> seeds;
        for (int t = 0; t < nthreads; ++t) seeds.push_back(rng.next());
        std::vector<std::thread> th;
        for (int t = 0; t < nthreads; ++t) {
            th.emplace_back([&, t] {
                vh::Rng r(seeds[t], t);
                while (!go.load()) std::this_thread::yield();
                for (int k = 0; k < nops; ++k) {
                    const uint64_t x = r.below(100);
                    if (x < 20) {
                        const size_t i = r.below(txs.size());
                        int expect = 0;
                        if (added[i].compare_exchange_strong(expect, 1)) {
                            if (pb.Add(txs[i]) != PrivateBroadcast::AddResult::Added) added[i] = 2; // queue full: never retried
                        }
                    } else if (x < 70) {
                        const NodeId n = next_node++;
                        if (auto tx = pb.PickTxForSend(n, CService{})) {
                            ++picks[t][HexLE((*tx)->GetWitnessHash().ToUint256())];
                            if (r.coin()) pb.NodeConfirmedReception(n);
                            (void)pb.GetTxForNode(n);
                        }
                    } else if (x < 85) {
                        const size_t s = pb.GetBroadcastInfo().size();
                        size_t cur = max_size_seen.load();
                        while (s > cur && !max_size_seen.compare_exchange_weak(cur, s)) {
                        }
                    } else if (x < 95) {
                        (void)pb.HavePendingTransactions();
                        (void)pb.GetStale();
                    } else {
                        (void)pb.DidNodeConfirmReception(static_cast<NodeId>(r.below(50)));
                    }
                }
            });
        }
        go = true;
        for (auto& x : th) x.join();
        std::map<std::string, int> total;
        for (const auto& m : picks) {
            for (const auto& [k, v] : m) total[k] += v;
        }
        std::vector<std::string> pv;
        int max_picks = 0;
        for (const auto& [k, v] : total) {
            pv.push_back("[\"" + k + "\"," + std::to_string(v) + "]");
            max_picks = std::max(max_picks, v);
        }
        vh::log().obs("conc_cases");
        vh::log().rec(vh::J().u("case", c).str("kind", "privbcast_conc").u("max_tx", max_tx).u("max_att", max_att).i("threads", nthreads).u("max_size_seen", max_size_seen.load())
                          .u("final_size", pb.GetBroadcastInfo().size()).i("max_picks", max_picks).raw("picks", vh::JArr(pv)));
    }
    return 0;
}
