// E3 `netsim` fixture implementation (see sim_net.h).
#include <sim_net.h>

#include <addrman.h>
#include <banman.h>
#include <chain.h>
#include <chainparams.h>
#include <common/args.h>
#include <consensus/merkle.h>
#include <consensus/validation.h>
#include <hash.h>
#include <kernel/chainstatemanager_opts.h>
#include <net_processing.h>
#include <netaddress.h>
#include <netgroup.h>
#include <node/blockstorage.h>
#include <node/context.h>
#include <node/kernel_notifications.h>
#include <node/mining_args.h>
#include <node/peerman_args.h>
#include <node/warnings.h>
#include <pow.h>
#include <pubkey.h>
#include <script/interpreter.h>
#include <serialize.h>
#include <streams.h>
#include <test/util/net.h>
#include <txmempool.h>
#include <util/strencodings.h>
#include <util/time.h>
#include <validation.h>
#include <validationinterface.h>

#include <arpa/inet.h>

#include <deque>
#include <stdexcept>

using node::BlockManager;

namespace simnet {

const char* CoinKindName(CoinKind k)
{
    switch (k) {
    case CoinKind::P2WPKH: return "p2wpkh";
    case CoinKind::P2WSH_DROP: return "p2wsh";
    case CoinKind::P2TR: return "p2tr";
    case CoinKind::P2PKH: return "p2pkh";
    }
    return "?";
}

const char* MallName(Mall m)
{
    switch (m) {
    case Mall::NONE: return "none";
    case Mall::BADSIG: return "badsig";
    case Mall::STRIPPED: return "stripped";
    case Mall::PAD_NONSTD: return "pad_nonstd";
    case Mall::PAD_ALT: return "pad_alt";
    }
    return "?";
}

const char* ConnName(ConnectionType c)
{
    switch (c) {
    case ConnectionType::INBOUND: return "inbound";
    case ConnectionType::OUTBOUND_FULL_RELAY: return "outbound-full-relay";
    case ConnectionType::MANUAL: return "manual";
    case ConnectionType::FEELER: return "feeler";
    case ConnectionType::BLOCK_RELAY: return "block-relay-only";
    case ConnectionType::ADDR_FETCH: return "addr-fetch";
    case ConnectionType::PRIVATE_BROADCAST: return "private-broadcast";
    }
    return "?";
}

std::string PermNames(NetPermissionFlags f)
{
    std::string r;
    auto add = [&](NetPermissionFlags bit, const char* n) {
        if (NetPermissions::HasFlag(f, bit)) {
            if (!r.empty()) r += ",";
            r += n;
        }
    };
    add(NetPermissionFlags::BloomFilter, "bloomfilter");
    add(NetPermissionFlags::Relay, "relay");
    add(NetPermissionFlags::ForceRelay, "forcerelay");
    add(NetPermissionFlags::Download, "download");
    add(NetPermissionFlags::NoBan, "noban");
    add(NetPermissionFlags::Mempool, "mempool");
    add(NetPermissionFlags::Addr, "addr");
    return r;
}

static std::string HexLE(const uint256& h) { return vh::Hex(h.begin(), 32); }

std::vector<unsigned char> SerTx(const CTransaction& tx, bool witness)
{
    DataStream ss;
    if (witness) {
        ss << TX_WITH_WITNESS(tx);
    } else {
        ss << TX_NO_WITNESS(tx);
    }
    auto sp = MakeUCharSpan(ss);
    return {sp.begin(), sp.end()};
}

std::vector<unsigned char> SerBlock(const CBlock& b)
{
    DataStream ss;
    ss << TX_WITH_WITNESS(b);
    auto sp = MakeUCharSpan(ss);
    return {sp.begin(), sp.end()};
}

std::vector<unsigned char> SerHeaders(const std::vector<CBlockHeader>& hs)
{
    DataStream ss;
    WriteCompactSize(ss, hs.size());
    for (const auto& h : hs) {
        ss << h;
        WriteCompactSize(ss, 0);
    }
    auto sp = MakeUCharSpan(ss);
    return {sp.begin(), sp.end()};
}

std::vector<unsigned char> SerInv(const std::vector<CInv>& v)
{
    DataStream ss;
    ss << v;
    auto sp = MakeUCharSpan(ss);
    return {sp.begin(), sp.end()};
}

std::vector<CInv> ParseInv(std::span<const unsigned char> d)
{
    DataStream ss{d};
    std::vector<CInv> v;
    ss >> v;
    return v;
}

void Grind(CBlockHeader& h, bool want_valid_pow)
{
    const auto& cons = Params().GetConsensus();
    for (uint32_t n = 0;; ++n) {
        h.nNonce = n;
        if (CheckProofOfWork(h.GetHash(), h.nBits, cons) == want_valid_pow) return;
        if (n == 0xffffffff) throw std::runtime_error("Grind: nonce space exhausted");
    }
}

std::string TxMeta(const CTransaction& tx)
{
    return vh::J().str("txid", HexLE(tx.GetHash().ToUint256())).str("wtxid", HexLE(tx.GetWitnessHash().ToUint256())).done();
}

namespace {

class VerdictRecorder final : public CValidationInterface
{
public:
    std::map<uint256, std::string> verdicts;
    std::vector<std::pair<uint256, std::string>> sequence;
    void BlockChecked(const std::shared_ptr<const CBlock>& block, const BlockValidationState& state) override
    {
        std::string v;
        if (state.IsValid()) {
            v = "valid";
        } else {
            const char* r = "?";
            switch (state.GetResult()) {
            case BlockValidationResult::BLOCK_RESULT_UNSET: r = "unset"; break;
            case BlockValidationResult::BLOCK_CONSENSUS: r = "consensus"; break;
            case BlockValidationResult::BLOCK_CACHED_INVALID: r = "cached_invalid"; break;
            case BlockValidationResult::BLOCK_INVALID_HEADER: r = "invalid_header"; break;
            case BlockValidationResult::BLOCK_MUTATED: r = "mutated"; break;
            case BlockValidationResult::BLOCK_MISSING_PREV: r = "missing_prev"; break;
            case BlockValidationResult::BLOCK_INVALID_PREV: r = "invalid_prev"; break;
            case BlockValidationResult::BLOCK_TIME_FUTURE: r = "time_future"; break;
            case BlockValidationResult::BLOCK_HEADER_LOW_WORK: r = "header_low_work"; break;
            }
            v = std::string(state.IsError() ? "error:" : "") + r + ":" + state.GetRejectReason();
        }
        const uint256 h = block->GetHash();
        verdicts[h] = v;
        sequence.emplace_back(h, v);
    }
};

struct Fixture : public ChainTestingSetup {
    static TestOpts MakeOpts(const std::vector<const char*>& args)
    {
        TestOpts o;
        o.extra_args = args;
        return o;
    }

    Fixture(const std::vector<const char*>& args, const NodeOpts& no)
        : ChainTestingSetup(ChainType::REGTEST, MakeOpts(args))
    {
        if (no.min_chain_work) {
            const arith_uint256 mcw = *no.min_chain_work;
            const CChainParams& chainparams = Params();
            m_node.chainman.reset();
            m_make_chainman = [this, &chainparams, mcw] {
                Assert(!m_node.chainman);
                ChainstateManager::Options chainman_opts{
                    .chainparams = chainparams,
                    .datadir = m_args.GetDataDirNet(),
                    .check_block_index = 1,
                    .minimum_chain_work = mcw,
                    .notifications = *m_node.notifications,
                    .signals = m_node.validation_signals.get(),
                    .worker_threads_num = 2,
                    .prevoutfetch_threads_num = 2,
                };
                const BlockManager::Options blockman_opts{
                    .chainparams = chainman_opts.chainparams,
                    .blocks_dir = m_args.GetBlocksDirPath(),
                    .notifications = chainman_opts.notifications,
                    .block_tree_db_params = DBParams{
                        .path = m_args.GetDataDirNet() / "blocks" / "index",
                        .cache_bytes = m_kernel_cache_sizes.block_tree_db,
                        .memory_only = true,
                    },
                };
                m_node.chainman = std::make_unique<ChainstateManager>(*Assert(m_node.shutdown_signal), chainman_opts, blockman_opts);
            };
            m_make_chainman();
        }
        m_coins_db_in_memory = true;
        m_block_tree_db_in_memory = true;
        LoadVerifyActivateChainstate();

        if (!no.setup_net) return;
        m_node.netgroupman = std::make_unique<NetGroupManager>(NetGroupManager::NoAsmap());
        m_node.addrman = std::make_unique<AddrMan>(*m_node.netgroupman, /*deterministic=*/true, /*consistency_check_ratio=*/0);
        m_node.banman = std::make_unique<BanMan>(m_args.GetDataDirBase() / "banlist", nullptr, DEFAULT_MISBEHAVING_BANTIME);
        m_node.connman = std::make_unique<ConnmanTestMsg>(0x1337, 0x1337, *m_node.addrman, *m_node.netgroupman, Params());
        auto mining_args{node::ReadMiningArgs(*m_node.args)};
        Assert(mining_args);
        m_node.mining_args = std::move(*mining_args);
        PeerManager::Options peerman_opts;
        node::ApplyArgsManOptions(*m_node.args, peerman_opts);
        peerman_opts.deterministic_rng = true;
        m_node.peerman = PeerManager::make(*m_node.connman, *m_node.addrman, m_node.banman.get(), *m_node.chainman,
                                           *m_node.mempool, *m_node.warnings, peerman_opts);
        {
            CConnman::Options options;
            options.m_msgproc = m_node.peerman.get();
            options.m_banman = m_node.banman.get();
            options.nSendBufferMaxSize = 64 * 1000 * 1000; // never pause sending: the harness drains after every step
            options.nReceiveFloodSize = 64 * 1000 * 1000;
            options.m_capture_messages = true;
            options.m_local_services = ServiceFlags(NODE_NETWORK | NODE_WITNESS);
            m_node.connman->Init(options);
        }
        m_node.validation_signals->RegisterValidationInterface(m_node.peerman.get());
    }

    ~Fixture()
    {
        if (m_node.peerman && m_node.validation_signals) {
            m_node.validation_signals->SyncWithValidationInterfaceQueue();
            m_node.validation_signals->UnregisterValidationInterface(m_node.peerman.get());
        }
    }
};

struct PeerRec {
    PeerSpec spec;
    CNode* node{nullptr}; // owned by connman's test node list until RemovePeer
    CAddress addr;
    std::string addr_str;
    bool removed{false};
    std::deque<Captured> captured;
};

} // namespace

class Impl
{
public:
    NodeOpts opts;
    std::vector<std::string> arg_store;
    std::vector<const char*> arg_ptrs;
    std::unique_ptr<Fixture> fx;
    VerdictRecorder recorder;
    CKey key;
    CPubKey pub;
    XOnlyPubKey xonly;
    CScript ws_drop; // witnessScript of P2WSH_DROP coins
    std::map<CoinKind, std::deque<Utxo>> coins;
    std::vector<PeerRec> peers;
    std::map<std::string, int> by_addr;
    std::vector<std::string> events;
    uint64_t clock{0};
    int64_t mock{0};
    size_t hexcap{4096};
    NodeId next_id{0};
    uint32_t next_extranonce{1};
    decltype(CaptureMessage) saved_capture;
    std::unique_ptr<UniqueLock<Mutex>> msgproc_lock;

    void SetMock(int64_t t)
    {
        mock = t;
        SetMockTime(std::chrono::seconds{t});
    }
};

// ------------------------------------------------------------------------------------------------ construction

static constexpr int64_t T0 = 1598887952; // 2020-08-31, arbitrary (same epoch as TestChain100Setup)

Net::Net(const NodeOpts& opts) : m(std::make_unique<Impl>())
{
    m->opts = opts;
    if (!opts.debuglog) {
        m->arg_store.emplace_back("-nodebuglogfile");
        m->arg_store.emplace_back("-nodebug");
    }
    for (const auto& a : opts.extra_args) m->arg_store.push_back(a);
    for (const auto& a : m->arg_store) m->arg_ptrs.push_back(a.c_str());

    m->SetMock(T0);
    m->fx = std::make_unique<Fixture>(m->arg_ptrs, opts);
    auto& node = m->fx->m_node;
    node.validation_signals->RegisterValidationInterface(&m->recorder);

    constexpr std::array<unsigned char, 32> vch = {0, 0, 0, 0, 0, 0, 0, 0, 0, 0, 0, 0, 0, 0, 0, 0, 0, 0, 0, 0, 0, 0, 0, 0, 0, 0, 0, 0, 0, 0, 0, 7};
    m->key.Set(vch.begin(), vch.end(), true);
    m->pub = m->key.GetPubKey();
    m->xonly = XOnlyPubKey{m->pub};
    m->ws_drop = CScript() << OP_DROP << ToByteVector(m->pub) << OP_CHECKSIG;

    m->saved_capture = CaptureMessage;
    Impl* impl = m.get();
    CaptureMessage = [impl](const CAddress& addr, const std::string& msg_type, std::span<const unsigned char> data, bool is_incoming) {
        if (is_incoming) return;
        auto it = impl->by_addr.find(addr.ToStringAddrPort());
        const int p = it == impl->by_addr.end() ? -1 : it->second;
        const uint64_t t = ++impl->clock;
        vh::J j;
        j.str("ev", "out").u("t", t).i("p", p).str("type", msg_type).u("len", data.size()).i("mt", impl->mock);
        if (data.size() <= impl->hexcap) j.hex("hex", data.data(), data.size());
        impl->events.push_back(j.done());
        if (p >= 0) impl->peers[p].captured.push_back(Captured{t, p, msg_type, {data.begin(), data.end()}});
    };

    // Build the chain: blocks 1..rich_blocks carry many spendable outputs of each kind.
    std::vector<std::pair<int, std::shared_ptr<CBlock>>> rich;
    for (int h = 1; h <= opts.chain_len; ++h) {
        BlockSpec s;
        s.prev = TipHash();
        s.height = h;
        s.time = static_cast<uint32_t>(T0 + h);
        if (h <= opts.rich_blocks) {
            const CAmount each = Subsidy(h) / 12;
            const CoinKind kinds[12] = {CoinKind::P2WPKH, CoinKind::P2WPKH, CoinKind::P2WPKH, CoinKind::P2WPKH,
                                        CoinKind::P2WSH_DROP, CoinKind::P2WSH_DROP, CoinKind::P2WSH_DROP, CoinKind::P2WSH_DROP,
                                        CoinKind::P2TR, CoinKind::P2TR, CoinKind::P2PKH, CoinKind::P2PKH};
            CAmount left = Subsidy(h);
            for (int i = 0; i < 12; ++i) {
                const CAmount v = i == 11 ? left : each;
                left -= v;
                s.cb_outs.emplace_back(v, ScriptFor(kinds[i]));
            }
        }
        m->SetMock(T0 + h);
        auto b = BuildBlock(s);
        bool nb = false;
        if (!node.chainman->ProcessNewBlock(b, /*force_processing=*/true, /*min_pow_checked=*/true, &nb) || !nb) {
            throw std::runtime_error("netsim: initial chain block rejected at height " + std::to_string(h));
        }
        if (h <= opts.rich_blocks) rich.emplace_back(h, b);
    }
    SyncSignals();
    if (TipHeight() != opts.chain_len) throw std::runtime_error("netsim: initial chain not connected");
    for (auto& [h, b] : rich) {
        if (h + 100 > opts.chain_len + 1) continue; // immature for the next block
        const CTransaction& cb = *b->vtx[0];
        const CoinKind kinds[12] = {CoinKind::P2WPKH, CoinKind::P2WPKH, CoinKind::P2WPKH, CoinKind::P2WPKH,
                                    CoinKind::P2WSH_DROP, CoinKind::P2WSH_DROP, CoinKind::P2WSH_DROP, CoinKind::P2WSH_DROP,
                                    CoinKind::P2TR, CoinKind::P2TR, CoinKind::P2PKH, CoinKind::P2PKH};
        for (uint32_t i = 0; i < 12; ++i) m->coins[kinds[i]].push_back(OutputAsCoin(cb, i, kinds[i]));
    }
    m->SetMock(T0 + opts.chain_len + 1);
    m->msgproc_lock = std::make_unique<UniqueLock<Mutex>>(NetEventsInterface::g_msgproc_mutex, "g_msgproc_mutex", __FILE__, __LINE__);
}

Net::~Net()
{
    try {
        if (m->fx && m->fx->m_node.peerman) {
            for (size_t p = 0; p < m->peers.size(); ++p) {
                if (!m->peers[p].removed) RemovePeer(static_cast<int>(p));
            }
            connman().ClearTestNodes();
        }
        m->msgproc_lock.reset();
        if (m->fx && m->fx->m_node.validation_signals) {
            m->fx->m_node.validation_signals->SyncWithValidationInterfaceQueue();
            m->fx->m_node.validation_signals->UnregisterValidationInterface(&m->recorder);
        }
    } catch (...) {
    }
    CaptureMessage = m->saved_capture;
    m->fx.reset();
}

node::NodeContext& Net::node() { return m->fx->m_node; }
ChainstateManager& Net::chainman() { return *m->fx->m_node.chainman; }
CTxMemPool& Net::mempool() { return *m->fx->m_node.mempool; }
PeerManager& Net::peerman() { return *m->fx->m_node.peerman; }
ConnmanTestMsg& Net::connman() { return static_cast<ConnmanTestMsg&>(*m->fx->m_node.connman); }
BanMan& Net::banman() { return *m->fx->m_node.banman; }

int64_t Net::Now() const { return m->mock; }
void Net::Advance(int64_t secs)
{
    m->SetMock(m->mock + secs);
    vh::J j;
    j.str("ev", "time").u("t", ++m->clock).i("mt", m->mock);
    m->events.push_back(j.done());
}

// ------------------------------------------------------------------------------------------------ chain

int Net::TipHeight() { return WITH_LOCK(cs_main, return chainman().ActiveChain().Height()); }
uint256 Net::TipHash() { return WITH_LOCK(cs_main, return chainman().ActiveChain().Tip()->GetBlockHash()); }
uint32_t Net::TipTime() { return WITH_LOCK(cs_main, return chainman().ActiveChain().Tip()->nTime); }
arith_uint256 Net::TipWork() { return WITH_LOCK(cs_main, return chainman().ActiveChain().Tip()->nChainWork); }
uint32_t Net::Bits() const { return UintToArith256(Params().GetConsensus().powLimit).GetCompact(); }
CAmount Net::Subsidy(int height) const
{
    const int halvings = height / Params().GetConsensus().nSubsidyHalvingInterval;
    if (halvings >= 64) return 0;
    return (50 * COIN) >> halvings;
}

std::shared_ptr<CBlock> Net::BuildBlock(const BlockSpec& s)
{
    auto b = std::make_shared<CBlock>();
    b->nVersion = s.version;
    b->hashPrevBlock = s.prev;
    b->nTime = s.time;
    b->nBits = s.bits ? *s.bits : Bits();
    CMutableTransaction cb;
    cb.version = 2;
    cb.vin.resize(1);
    cb.vin[0].prevout.SetNull();
    const uint32_t en = s.extranonce ? s.extranonce : m->next_extranonce++;
    cb.vin[0].scriptSig = CScript() << s.height << CScriptNum(static_cast<int64_t>(en) + 0x10000) << OP_0;
    cb.vin[0].nSequence = 0xffffffff;
    if (s.cb_outs.empty()) {
        cb.vout.emplace_back(Subsidy(s.height) + s.fees + s.cb_delta, ScriptFor(CoinKind::P2WPKH));
    } else {
        cb.vout = s.cb_outs;
        cb.vout[0].nValue += s.fees + s.cb_delta;
    }
    bool any_witness = false;
    for (const auto& tx : s.txs) any_witness |= tx->HasWitness();
    b->vtx.push_back(MakeTransactionRef(cb));
    for (const auto& tx : s.txs) b->vtx.push_back(tx);
    if (any_witness && !s.no_commitment) {
        cb.vin[0].scriptWitness.stack.assign(1, std::vector<unsigned char>(32, 0));
        b->vtx[0] = MakeTransactionRef(cb);
        uint256 wroot = BlockWitnessMerkleRoot(*b);
        uint256 commitment;
        CHash256().Write(wroot).Write(cb.vin[0].scriptWitness.stack[0]).Finalize(commitment);
        std::vector<unsigned char> data{0xaa, 0x21, 0xa9, 0xed};
        data.insert(data.end(), commitment.begin(), commitment.end());
        cb.vout.emplace_back(0, CScript() << OP_RETURN << data);
        b->vtx[0] = MakeTransactionRef(cb);
    }
    b->hashMerkleRoot = BlockMerkleRoot(*b);
    if (s.dup_last_tx && b->vtx.size() >= 3 && (b->vtx.size() % 2) == 1) {
        b->vtx.push_back(b->vtx.back());
    } else if (s.bad_merkle || s.dup_last_tx) {
        *b->hashMerkleRoot.begin() ^= 0x01;
    }
    Grind(*b, !s.bad_pow);
    return b;
}

void Net::SyncSignals()
{
    m->fx->m_node.validation_signals->SyncWithValidationInterfaceQueue();
}

bool Net::SubmitBlock(const std::shared_ptr<const CBlock>& b, bool force, bool* new_block, bool min_pow_checked)
{
    bool nb = false;
    const bool r = chainman().ProcessNewBlock(b, force, min_pow_checked, &nb);
    if (new_block) *new_block = nb;
    SyncSignals();
    return r;
}

bool Net::SubmitHeaders(const std::vector<CBlockHeader>& h, std::string* reject)
{
    BlockValidationState st;
    const bool r = chainman().ProcessNewBlockHeaders(h, /*min_pow_checked=*/true, st);
    if (reject) *reject = st.IsValid() ? "" : st.GetRejectReason();
    return r;
}

std::shared_ptr<CBlock> Net::MineOnTip(const std::vector<CTransactionRef>& txs, CAmount fees)
{
    BlockSpec s;
    s.prev = TipHash();
    s.height = TipHeight() + 1;
    s.time = std::max<uint32_t>(TipTime() + 1, static_cast<uint32_t>(std::min<int64_t>(m->mock, TipTime() + 1)));
    s.txs = txs;
    s.fees = fees;
    auto b = BuildBlock(s);
    bool nb = false;
    SubmitBlock(b, /*force=*/true, &nb);
    return b;
}

BlkStatus Net::Status(const uint256& hash)
{
    LOCK(cs_main);
    BlkStatus r;
    const CBlockIndex* pi = chainman().m_blockman.LookupBlockIndex(hash);
    if (!pi) return r;
    r.known = true;
    r.have_data = pi->nStatus & BLOCK_HAVE_DATA;
    r.failed = pi->nStatus & (BLOCK_FAILED_VALID | BLOCK_FAILED_CHILD);
    r.height = pi->nHeight;
    r.ntx = pi->nTx;
    r.in_active = chainman().ActiveChain().Contains(*pi);
    r.valid_level = pi->nStatus & BLOCK_VALID_MASK;
    return r;
}

uint64_t Net::BlockFileBytes()
{
    LOCK(cs_main);
    return chainman().m_blockman.CalculateCurrentUsage();
}

std::string Net::Verdict(const uint256& hash) const
{
    auto it = m->recorder.verdicts.find(hash);
    return it == m->recorder.verdicts.end() ? "" : it->second;
}

// ------------------------------------------------------------------------------------------------ coins / txs

const CKey& Net::key() const { return m->key; }

CScript Net::ScriptFor(CoinKind k) const
{
    switch (k) {
    case CoinKind::P2WPKH:
        return CScript() << OP_0 << ToByteVector(m->pub.GetID());
    case CoinKind::P2WSH_DROP: {
        uint256 h;
        CSHA256().Write(m->ws_drop.data(), m->ws_drop.size()).Finalize(h.begin());
        return CScript() << OP_0 << ToByteVector(h);
    }
    case CoinKind::P2TR: {
        auto tw = m->xonly.CreateTapTweak(nullptr);
        if (!tw) throw std::runtime_error("taptweak failed");
        return CScript() << OP_1 << ToByteVector(tw->first);
    }
    case CoinKind::P2PKH:
        return CScript() << OP_DUP << OP_HASH160 << ToByteVector(m->pub.GetID()) << OP_EQUALVERIFY << OP_CHECKSIG;
    }
    return {};
}

Utxo Net::TakeCoin(CoinKind k)
{
    auto& q = m->coins[k];
    if (q.empty()) throw std::runtime_error(std::string("netsim: out of coins of kind ") + CoinKindName(k));
    Utxo c = q.front();
    q.pop_front();
    return c;
}

size_t Net::CoinsLeft(CoinKind k) const
{
    auto it = m->coins.find(k);
    return it == m->coins.end() ? 0 : it->second.size();
}

Utxo Net::OutputAsCoin(const CTransaction& tx, uint32_t n, CoinKind k)
{
    Utxo c;
    c.op = COutPoint(tx.GetHash(), n);
    c.out = tx.vout.at(n);
    c.kind = k;
    return c;
}

void Net::SignInput(CMutableTransaction& tx, size_t i, const Utxo& c, const std::vector<Utxo>& all_in, Mall mall) const
{
    tx.vin[i].scriptWitness.SetNull();
    tx.vin[i].scriptSig.clear();
    auto ecdsa = [&](const CScript& code, SigVersion sv) {
        uint256 h = SignatureHash(code, tx, i, SIGHASH_ALL, c.out.nValue, sv);
        if (mall == Mall::BADSIG) *h.begin() ^= 0x01;
        std::vector<unsigned char> sig;
        if (!m->key.Sign(h, sig)) throw std::runtime_error("sign failed");
        sig.push_back(SIGHASH_ALL);
        return sig;
    };
    switch (c.kind) {
    case CoinKind::P2WPKH: {
        if (mall == Mall::STRIPPED) return;
        const CScript code = CScript() << OP_DUP << OP_HASH160 << ToByteVector(m->pub.GetID()) << OP_EQUALVERIFY << OP_CHECKSIG;
        tx.vin[i].scriptWitness.stack = {ecdsa(code, SigVersion::WITNESS_V0), ToByteVector(m->pub)};
        return;
    }
    case CoinKind::P2WSH_DROP: {
        if (mall == Mall::STRIPPED) return;
        std::vector<unsigned char> pad{0x01};
        if (mall == Mall::PAD_NONSTD) pad.assign(81, 0x42);
        if (mall == Mall::PAD_ALT) pad = {0x02};
        tx.vin[i].scriptWitness.stack = {ecdsa(m->ws_drop, SigVersion::WITNESS_V0), pad,
                                         std::vector<unsigned char>(m->ws_drop.begin(), m->ws_drop.end())};
        return;
    }
    case CoinKind::P2TR: {
        if (mall == Mall::STRIPPED) return;
        std::vector<CTxOut> spent;
        for (const auto& ci : all_in) spent.push_back(ci.out);
        PrecomputedTransactionData txdata;
        txdata.Init(tx, std::move(spent), /*force=*/true);
        ScriptExecutionData execdata;
        execdata.m_annex_init = true;
        execdata.m_annex_present = false;
        uint256 h;
        if (!SignatureHashSchnorr(h, execdata, tx, i, SIGHASH_DEFAULT, SigVersion::TAPROOT, txdata, MissingDataBehavior::FAIL)) {
            throw std::runtime_error("taproot sighash failed");
        }
        if (mall == Mall::BADSIG) *h.begin() ^= 0x01;
        std::vector<unsigned char> sig(64);
        const uint256 null_root;
        if (!m->key.SignSchnorr(h, sig, &null_root, uint256::ONE)) throw std::runtime_error("schnorr sign failed");
        tx.vin[i].scriptWitness.stack = {sig};
        return;
    }
    case CoinKind::P2PKH: {
        const CScript code = ScriptFor(CoinKind::P2PKH);
        tx.vin[i].scriptSig = CScript() << ecdsa(code, SigVersion::BASE) << ToByteVector(m->pub);
        return;
    }
    }
}

CMutableTransaction Net::Spend(const std::vector<Utxo>& in, const std::vector<CTxOut>& outs, const std::vector<Mall>& mall, uint32_t sequence)
{
    CMutableTransaction tx;
    tx.version = 2;
    tx.nLockTime = 0;
    for (const auto& c : in) {
        CTxIn ti(c.op);
        ti.nSequence = sequence;
        tx.vin.push_back(ti);
    }
    tx.vout = outs;
    // taproot signatures commit to all inputs' prevouts; ECDSA ones do not depend on other inputs' witnesses
    for (size_t i = 0; i < in.size(); ++i) SignInput(tx, i, in[i], in, i < mall.size() ? mall[i] : Mall::NONE);
    return tx;
}

// ------------------------------------------------------------------------------------------------ peers

int Net::AddPeer(const PeerSpec& spec)
{
    const int p = static_cast<int>(m->peers.size());
    const uint32_t n = static_cast<uint32_t>(p) + 1;
    struct in_addr ia;
    if (spec.local_addr || spec.inbound_onion) {
        ia.s_addr = htonl((127u << 24) | (1u << 16) | (n & 0xffff));
    } else {
        ia.s_addr = htonl((11u << 24) | (n & 0xffffff));
    }
    CAddress addr(CService(CNetAddr(ia), 18444), spec.services);
    PeerRec rec;
    rec.spec = spec;
    rec.addr = addr;
    rec.addr_str = addr.ToStringAddrPort();
    CNodeOptions no;
    no.permission_flags = spec.perm;
    rec.node = new CNode{m->next_id++,
                         /*sock=*/nullptr,
                         addr,
                         /*nKeyedNetGroupIn=*/n,
                         /*nLocalHostNonceIn=*/0x1000 + n,
                         CAddress(),
                         /*addrNameIn=*/"",
                         spec.conn,
                         /*inbound_onion=*/spec.inbound_onion && spec.conn == ConnectionType::INBOUND,
                         /*network_key=*/0,
                         std::move(no)};
    m->by_addr[rec.addr_str] = p;
    m->peers.push_back(std::move(rec));
    peerman().InitializeNode(*m->peers[p].node, spec.our_services);
    connman().AddTestNode(*m->peers[p].node);
    return p;
}

size_t Net::NumPeers() const { return m->peers.size(); }
const PeerSpec& Net::Spec(int p) const { return m->peers.at(p).spec; }
CNode& Net::NodeOf(int p) { return *m->peers.at(p).node; }
std::string Net::AddrOf(int p) const { return m->peers.at(p).addr_str; }

bool Net::Handshake(int p)
{
    auto& rec = m->peers.at(p);
    CNode& node = *rec.node;
    const PeerSpec& s = rec.spec;
    if (!node.IsInboundConn()) SendMessages(p); // we speak first on outbound connections
    DataStream v;
    v << s.version << Using<CustomUintFormatter<8>>(s.services) << int64_t{m->mock} << int64_t{0} << CNetAddr::V1(CService{})
      << int64_t{0} << CNetAddr::V1(CService{}) << uint64_t{0x5eed0000u + static_cast<uint64_t>(p)} << std::string{"/netsim:1/"} << int32_t{0} << s.relay;
    Send(p, NetMsgType::VERSION, MakeUCharSpan(v), "hs");
    if (node.fDisconnect) return false;
    if (s.wtxidrelay) Send(p, NetMsgType::WTXIDRELAY, {}, "hs");
    if (s.sendaddrv2) Send(p, NetMsgType::SENDADDRV2, {}, "hs");
    Send(p, NetMsgType::VERACK, {}, "hs");
    SendMessages(p);
    if (node.fDisconnect || !node.fSuccessfullyConnected) return false;
    if (s.sendcmpct >= 0) {
        DataStream c;
        c << static_cast<uint8_t>(s.sendcmpct) << uint64_t{2};
        Send(p, NetMsgType::SENDCMPCT, MakeUCharSpan(c), "hs");
    }
    if (s.sendheaders) Send(p, NetMsgType::SENDHEADERS, {}, "hs");
    return node.fSuccessfullyConnected && !node.fDisconnect;
}

bool Net::Send(int p, const std::string& type, std::span<const unsigned char> payload, const std::string& cls, const std::string& meta_json)
{
    auto& rec = m->peers.at(p);
    CNode& node = *rec.node;
    vh::J j;
    j.str("ev", "in").u("t", ++m->clock).i("p", p).str("type", type).u("len", payload.size()).i("mt", m->mock);
    if (!cls.empty()) j.str("cls", cls);
    if (!meta_json.empty()) j.raw("m", meta_json);
    if (rec.removed || node.fDisconnect) {
        j.b("skipped", true);
        m->events.push_back(j.done());
        return false;
    }
    if (payload.size() <= m->hexcap) j.hex("hex", payload.data(), payload.size());
    m->events.push_back(j.done());
    connman().FlushSendBuffer(node);
    CSerializedNetMsg msg;
    msg.m_type = type;
    msg.data.assign(payload.begin(), payload.end());
    (void)connman().ReceiveMsgFrom(node, std::move(msg));
    node.fPauseSend = false;
    connman().ProcessMessagesOnce(node);
    connman().FlushSendBuffer(node);
    // PeerManager's asynchronous validation callbacks (BlockConnected, UpdatedBlockTip ...) only follow block processing
    if (type == NetMsgType::BLOCK || type == NetMsgType::CMPCTBLOCK || type == NetMsgType::BLOCKTXN || type == NetMsgType::HEADERS || type == NetMsgType::GETBLOCKS) SyncSignals();
    return true;
}

bool Net::Process(int p)
{
    auto& rec = m->peers.at(p);
    if (rec.removed || rec.node->fDisconnect) return false;
    connman().FlushSendBuffer(*rec.node);
    rec.node->fPauseSend = false;
    const bool more = connman().ProcessMessagesOnce(*rec.node);
    connman().FlushSendBuffer(*rec.node);
    return more;
}

void Net::SendMessages(int p)
{
    auto& rec = m->peers.at(p);
    if (rec.removed) return;
    vh::J j;
    j.str("ev", "sm").u("t", ++m->clock).i("p", p).i("mt", m->mock);
    // a real connman stops servicing a node once fDisconnect is set
    if (rec.node->fDisconnect) {
        j.b("skipped", true);
        m->events.push_back(j.done());
        return;
    }
    m->events.push_back(j.done());
    connman().FlushSendBuffer(*rec.node);
    rec.node->fPauseSend = false;
    peerman().SendMessages(*rec.node);
    connman().FlushSendBuffer(*rec.node);
}

std::vector<Captured> Net::Take(int p)
{
    auto& q = m->peers.at(p).captured;
    std::vector<Captured> r(q.begin(), q.end());
    q.clear();
    return r;
}

std::vector<Captured> Net::Drain(int p)
{
    SendMessages(p);
    return Take(p);
}

bool Net::Disconnected(int p) { return m->peers.at(p).node->fDisconnect; }
bool Net::Discouraged(int p) { return banman().IsDiscouraged(m->peers.at(p).addr); }

std::pair<bool, bool> Net::Observe(int p)
{
    const bool d = Disconnected(p), g = Discouraged(p);
    vh::J j;
    j.str("ev", "obs").u("t", ++m->clock).i("p", p).b("disc", d).b("dscg", g);
    m->events.push_back(j.done());
    return {d, g};
}

void Net::RemovePeer(int p)
{
    auto& rec = m->peers.at(p);
    if (rec.removed) return;
    rec.removed = true;
    CNode* node = rec.node;
    connman().FlushSendBuffer(*node);
    // The CNode stays in connman's test node list (deleted by ClearTestNodes at the end); with fDisconnect set every
    // CConnman iteration helper skips it, exactly as for a node waiting to be reaped by the socket thread.
    node->fDisconnect = true;
    peerman().FinalizeNode(*node);
}

uint64_t Net::Tick() { return ++m->clock; }

void Net::Ev(const vh::J& j)
{
    std::string s = j.done();
    // splice in the logical time stamp
    const std::string t = "\"t\":" + std::to_string(++m->clock);
    if (s.size() > 2) {
        s = "{" + t + "," + s.substr(1);
    } else {
        s = "{" + t + "}";
    }
    m->events.push_back(std::move(s));
}

std::string Net::TakeEvents()
{
    std::string r = vh::JArr(m->events);
    m->events.clear();
    return r;
}

void Net::SetHexCap(size_t cap) { m->hexcap = cap; }

std::string Net::PeersJson() const
{
    std::vector<std::string> v;
    for (size_t p = 0; p < m->peers.size(); ++p) {
        const auto& r = m->peers[p];
        const auto& s = r.spec;
        vh::J j;
        j.u("p", p).str("addr", r.addr_str).str("conn", ConnName(s.conn)).str("perm", PermNames(s.perm)).b("relay", s.relay).b("wtxid", s.wtxidrelay)
            .b("addrv2", s.sendaddrv2).i("cmpct", s.sendcmpct).b("sendheaders", s.sendheaders).b("local", s.local_addr || s.inbound_onion)
            .b("onion", s.inbound_onion).u("services", s.services).u("our_services", s.our_services).i("id", r.node ? r.node->GetId() : -1);
        v.push_back(j.done());
    }
    return vh::JArr(v);
}

} // namespace simnet
