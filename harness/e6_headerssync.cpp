// C33 (a) — E6 `headerssync`: HeadersSyncState driven by scripted peers over synthetic header chains with real (ground)
// proof of work at regtest-scale difficulty.
//
// Consensus parameters: regtest's, but with fPowAllowMinDifficultyBlocks=false, pow limit 2^249-1 and a short retarget interval (4..20 blocks), so
// that PermittedDifficultyTransition is exercised at many heights. HeadersSyncParams {commitment_period 2..17, redownload_buffer 3..50}.
// Private state is read through hook H4 (`friend struct VerifProbe` in src/headerssync.h, guarded by BITCOIN_VERIF): number of stored
// commitment bits, m_max_commitments, size of the redownload buffer, the secret commitment offset, and the salted hasher (to
// recompute the commitment bit of every header this harness feeds). The global PRNG is made deterministic per case
// (MakeRandDeterministicDANGEROUS(seed, case)) so that offset and salt only depend on (seed, case).
//
// Peer behaviours: honest | low_work | switch (second pass serves chain B that forks from A at height s; s is enumerated by the
// case index) | switch_low (B forks and has lower work) | bad_bits_1 / bad_bits_2 (forbidden difficulty change in pass 1 / 2)
// | nonconnect_1 / nonconnect_2 | short_1 / short_2 (non-full batch mid-way) | too_long (max-commitments bound reached, mock time
// set close to the start block's time) | extend (the peer's chain grew between the passes: the second pass continues beyond the first).
//
// This engine only logs; the reference model of the protocol is in checks/C33.py (oracle for the statement's clauses).
// Record: {"case","beh","period","buffer","offset","maxc","now","start":{"h","bits","work":hex,"hash","time","times":[last 11 block times]},"minwork":hex,
//          "interval","timespan","limit":hex,"K","maxbatch","A":[hex80..],"bitsA":"0101..","fork":s|null,"B":[hex80.. (from height index s)],"bitsB":"..",
//          "calls":[{"ch":"A"|"B","from":i,"n":k,"full":bool,"pre":state,"ok":bool,"more":bool,"post":state,"rel":[hex80..],"nc":n,"nb":n,"loc0":hex}..]}
//   chains are indexed from 0 = the header at height start.h+1 ; B[j] is the header at index fork+j. States: 0 PRESYNC 1 REDOWNLOAD 2 FINAL.
#include <common/vh.h>

#include <arith_uint256.h>
#include <chain.h>
#include <chainparams.h>
#include <consensus/params.h>
#include <headerssync.h>
#include <kernel/chainparams.h>
#include <pow.h>
#include <primitives/block.h>
#include <streams.h>
#include <test/util/setup_common.h>
#include <uint256.h>
#include <util/time.h>

#include <algorithm>
#include <array>
#include <memory>
#include <string>
#include <vector>

#ifndef BITCOIN_VERIF
#error "this engine needs hook H4 (friend struct VerifProbe in headerssync.h, enabled by -DBITCOIN_VERIF)"
#endif

extern void MakeRandDeterministicDANGEROUS(const uint256& seed) noexcept;

// Hook H4: read-only view of HeadersSyncState internals. Global namespace (that is the befriended name); only static
// members with engine-specific names so that another TU using the same hook name for other classes cannot clash.
struct VerifProbe {
    static size_t E6hsCommitments(const HeadersSyncState& s) { return s.m_header_commitments.size(); }
    static uint64_t E6hsMaxCommitments(const HeadersSyncState& s) { return s.m_max_commitments; }
    static size_t E6hsBuffer(const HeadersSyncState& s) { return s.m_redownloaded_headers.size(); }
    static size_t E6hsOffset(const HeadersSyncState& s) { return s.m_commit_offset; }
    static bool E6hsBit(const HeadersSyncState& s, const uint256& h) { return s.m_hasher(h) & 1; }
};

namespace {

const BasicTestingSetup& Setup()
{
    static const auto setup = MakeNoLogFileContext<const BasicTestingSetup>(ChainType::REGTEST);
    return *setup;
}

std::string HdrHex(const CBlockHeader& h)
{
    DataStream ds;
    ds << h;
    return vh::Hex(ds);
}

arith_uint256 Target(uint32_t bits)
{
    arith_uint256 t;
    t.SetCompact(bits);
    return t;
}

// grind a header on top of prev with the given nBits
CBlockHeader Mine(vh::Rng& rng, const uint256& prev, uint32_t bits, uint32_t time)
{
    CBlockHeader h;
    h.nVersion = 0x20000000 | static_cast<int32_t>(rng.below(4));
    h.hashPrevBlock = prev;
    rng.fill(h.hashMerkleRoot.begin(), 32);
    h.nTime = time;
    h.nBits = bits;
    h.nNonce = static_cast<uint32_t>(rng.next());
    const arith_uint256 target = Target(bits);
    while (UintToArith256(h.GetHash()) > target) ++h.nNonce;
    return h;
}

// next target at a retarget height: keep / easier x4 / harder /2 /4, clamped so that grinding stays cheap
uint32_t Retarget(vh::Rng& rng, uint32_t old_bits, const arith_uint256& limit)
{
    arith_uint256 t = Target(old_bits);
    const arith_uint256 floor = limit >> 3; // at most ~1000 hashes per header
    switch (rng.below(6)) {
    case 0: t *= 4; break;
    case 1: t *= 2; break;
    case 2: t /= 2; break;
    case 3: t /= 4; break;
    case 4: t = t * 3 / 2; break;
    default: break;
    }
    if (t > limit) t = limit;
    if (t < floor) t = floor;
    return t.GetCompact();
}

struct ChainGen {
    vh::Rng& rng;
    const Consensus::Params& cp;
    int64_t start_height;
    arith_uint256 limit;
    int64_t interval;
    // extend `chain` (whose element i has height start_height+1+i) by n headers following the rules
    void Extend(std::vector<CBlockHeader>& chain, const CBlockHeader& start_hdr, uint32_t start_bits, size_t n, bool easy_only = false)
    {
        for (size_t k = 0; k < n; ++k) {
            const int64_t height = start_height + 1 + static_cast<int64_t>(chain.size());
            const uint32_t prev_bits = chain.empty() ? start_bits : chain.back().nBits;
            const uint256 prev_hash = chain.empty() ? start_hdr.GetHash() : chain.back().GetHash();
            const uint32_t prev_time = chain.empty() ? start_hdr.nTime : chain.back().nTime;
            uint32_t bits = prev_bits;
            if (height % interval == 0) {
                if (easy_only) {
                    arith_uint256 t = Target(prev_bits);
                    t *= 4;
                    if (t > limit) t = limit;
                    bits = t.GetCompact();
                } else {
                    bits = Retarget(rng, prev_bits, limit);
                }
            }
            chain.push_back(Mine(rng, prev_hash, bits, prev_time + 1 + static_cast<uint32_t>(rng.below(1200))));
        }
    }
};

const char* BEH[] = {"honest", "low_work", "switch", "switch_low", "bad_bits_1", "bad_bits_2", "nonconnect_1", "nonconnect_2", "short_1", "short_2", "too_long", "extend"};
enum Beh { HONEST, LOW_WORK, SWITCH, SWITCH_LOW, BAD_BITS_1, BAD_BITS_2, NONCONNECT_1, NONCONNECT_2, SHORT_1, SHORT_2, TOO_LONG, EXTEND, NBEH };

} // namespace

VH_CMD(headerssync)
{
    Setup();
    for (uint64_t c = args.from; c < args.to; ++c) {
        vh::set_case(c);
        vh::Rng rng(args.seed, c);
        {
            uint256 s;
            rng.fill(s.begin(), 32);
            MakeRandDeterministicDANGEROUS(s);
        }
        // behaviour: half of the cases are chain switches (enumerating the switch height), the rest cycles through the others
        Beh beh;
        if (c % 2 == 0) beh = (c % 8 == 6) ? SWITCH_LOW : SWITCH;
        else beh = static_cast<Beh>(std::array<int, 10>{HONEST, LOW_WORK, BAD_BITS_1, BAD_BITS_2, NONCONNECT_1, NONCONNECT_2, SHORT_1, SHORT_2, TOO_LONG, EXTEND}[(c / 2) % 10]);

        Consensus::Params cp = Params().GetConsensus();
        cp.fPowAllowMinDifficultyBlocks = false;
        cp.fPowNoRetargeting = false;
        // retarget interval 4..20 blocks (spacing 1 s, timespan = interval). The proof-of-work limit is 2^249-1 instead of regtest's
        // 2^255-1: the transition rule multiplies a target by 4*timespan in 256-bit arithmetic, which (as on every real network)
        // requires limit * 4 * timespan < 2^256.
        const int64_t interval = 4 * (1 + static_cast<int64_t>(rng.below(5)));
        cp.nPowTargetSpacing = 1;
        cp.nPowTargetTimespan = interval;
        cp.powLimit = ArithToUint256(~arith_uint256(0) >> 7);
        const arith_uint256 limit = UintToArith256(cp.powLimit);
        HeadersSyncParams hp;
        hp.commitment_period = 2 + rng.below(16);
        hp.redownload_buffer_size = 3 + rng.below(rng.coin() ? 8 : 48);

        // ---- start block (with a real ancestor chain: locators and median-time-past walk it) ----
        const int start_height = static_cast<int>(rng.below(rng.coin() ? 40 : 400));
        std::vector<std::unique_ptr<CBlockIndex>> anc(start_height + 1);
        std::vector<uint256> anc_hash(start_height + 1);
        const uint32_t start_time = 1600000000 + static_cast<uint32_t>(rng.below(100000000));
        for (int i = 0; i <= start_height; ++i) {
            anc[i] = std::make_unique<CBlockIndex>();
            anc[i]->nHeight = i;
            anc[i]->pprev = i ? anc[i - 1].get() : nullptr;
            anc[i]->nTime = start_time - static_cast<uint32_t>(start_height - i) * 600 + static_cast<uint32_t>(rng.below(500));
            anc[i]->BuildSkip();
            rng.fill(anc_hash[i].begin(), 32);
            anc[i]->phashBlock = &anc_hash[i];
        }
        CBlockIndex& start = *anc[start_height];
        start.nVersion = 0x20000000;
        rng.fill(start.hashMerkleRoot.begin(), 32);
        {
            arith_uint256 t = limit;
            t >>= static_cast<unsigned>(rng.below(3));
            start.nBits = t.GetCompact();
        }
        start.nNonce = static_cast<uint32_t>(rng.next());
        start.nChainWork = arith_uint256(rng.below(1000000));
        const CBlockHeader start_hdr = start.GetBlockHeader();
        const uint256 start_hash = start_hdr.GetHash();
        anc_hash[start_height] = start_hash;
        std::vector<std::string> anc_times; // the last 11 block times (for the median-time-past in the reference)
        for (int i = std::max(0, start_height - 10); i <= start_height; ++i) anc_times.push_back(std::to_string(anc[i]->nTime));

        // ---- chain A ----
        ChainGen gen{rng, cp, start.nHeight, limit, interval};
        const size_t K = 1 + rng.below(rng.chance(1, 4) ? 150 : 60); // header count at which the work target is met
        const size_t maxbatch = 2 + rng.below(rng.coin() ? 12 : 60);
        std::vector<CBlockHeader> A;
        gen.Extend(A, start_hdr, start.nBits, K);
        arith_uint256 workK = start.nChainWork;
        for (const auto& h : A) workK += GetBlockProof(h);
        arith_uint256 minwork = workK;
        if (rng.chance(1, 4)) minwork -= arith_uint256(1); // target met strictly inside header K (every header adds at least 2)
        gen.Extend(A, start_hdr, start.nBits, rng.below(2 * maxbatch + 1)); // tail beyond the target
        if (beh == LOW_WORK) {
            arith_uint256 total = start.nChainWork;
            for (const auto& h : A) total += GetBlockProof(h);
            minwork = total + arith_uint256(1 + rng.below(rng.coin() ? 2 : 100000)); // never met
        }

        // ---- chain B (fork of A) ----
        size_t fork = 0;
        std::vector<CBlockHeader> B; // B[j] has index fork + j
        bool has_b = false;
        if (beh == SWITCH || beh == SWITCH_LOW) {
            fork = static_cast<size_t>((c / 8) % A.size());
            has_b = true;
            std::vector<CBlockHeader> full(A.begin(), A.begin() + fork);
            const size_t before = full.size();
            gen.Extend(full, start_hdr, start.nBits, A.size() - fork + rng.below(maxbatch + 1), /*easy_only=*/beh == SWITCH_LOW);
            B.assign(full.begin() + before, full.end());
        }

        // ---- time ----
        const int64_t mtp = start.GetMedianTimePast(); // only used to choose the mock time
        int64_t now = mtp + 86400 * static_cast<int64_t>(1 + rng.below(3000));
        if (beh == TOO_LONG) {
            // m_max_commitments = 6 * (now - MTP(start) + 7200) / period : make it smaller than what chain A needs
            const int64_t want = static_cast<int64_t>(rng.below(std::max<size_t>(1, A.size() / hp.commitment_period)));
            now = mtp - 7200 + (want * static_cast<int64_t>(hp.commitment_period) + 5) / 6;
        }
        SetMockTime(now);

        auto hss = std::make_unique<HeadersSyncState>(0, cp, hp, start, minwork);
        const size_t offset = VerifProbe::E6hsOffset(*hss);
        const uint64_t maxc = VerifProbe::E6hsMaxCommitments(*hss);
        std::string bitsA, bitsB;
        for (const auto& h : A) bitsA += VerifProbe::E6hsBit(*hss, h.GetHash()) ? '1' : '0';
        for (const auto& h : B) bitsB += VerifProbe::E6hsBit(*hss, h.GetHash()) ? '1' : '0';

        // ---- the peer script ----
        // view of the chain served in each pass
        auto at = [&](bool passB, size_t i) -> const CBlockHeader& { return (passB && i >= fork) ? B[i - fork] : A[i]; };
        int pass = 1;
        auto len = [&](bool passB) -> size_t {
            if (beh == EXTEND && pass == 1) return K; // the peer's chain grows between the two passes
            return passB ? fork + B.size() : A.size();
        };
        std::vector<std::string> calls;
        size_t pos = 0; // next index to serve in the current pass
        const size_t trouble_at = rng.below(A.size()); // index at which the misbehaviour happens
        bool trouble_done = false;
        uint64_t ncalls = 0, released = 0;
        int state = static_cast<int>(hss->GetState());
        while (state != static_cast<int>(HeadersSyncState::State::FINAL) && ncalls < 2000) {
            const bool passB = has_b && pass == 2;
            const size_t L = len(passB);
            if (pos >= L) break; // peer has nothing more (the real node would time the peer out)
            size_t n = std::min(maxbatch, L - pos);
            bool full = n == maxbatch;
            std::vector<CBlockHeader> batch;
            for (size_t i = 0; i < n; ++i) batch.push_back(at(passB, pos + i));
            const bool in_trouble_pass = (pass == 1 && (beh == BAD_BITS_1 || beh == NONCONNECT_1 || beh == SHORT_1)) || (pass == 2 && (beh == BAD_BITS_2 || beh == NONCONNECT_2 || beh == SHORT_2));
            std::string ch = passB ? "B" : "A";
            std::string extra_hdrs = "null";
            if (in_trouble_pass && !trouble_done && trouble_at >= pos && trouble_at < pos + n) {
                trouble_done = true;
                const size_t k = trouble_at - pos;
                if (beh == SHORT_1 || beh == SHORT_2) {
                    // a non-full message mid-way: the peer pretends its chain ends here
                    batch.resize(k + 1);
                    n = batch.size();
                    full = false;
                } else if (beh == BAD_BITS_1 || beh == BAD_BITS_2) {
                    // re-mine header k (and the rest of the batch on top of it) with a forbidden difficulty change
                    const int64_t height = start.nHeight + 1 + static_cast<int64_t>(pos + k);
                    const uint32_t prev_bits = (pos + k == 0) ? start.nBits : at(passB, pos + k - 1).nBits;
                    arith_uint256 t = Target(prev_bits);
                    if (height % interval == 0) t >>= 3; // 8 times harder at a retarget height (at most 4 is allowed)
                    else t >>= 1;                        // any change between retarget heights
                    const uint32_t bits = t.GetCompact();
                    uint256 prev = (pos + k == 0) ? start_hash : at(passB, pos + k - 1).GetHash();
                    for (size_t i = k; i < batch.size(); ++i) {
                        batch[i] = Mine(rng, prev, bits, batch[i].nTime);
                        prev = batch[i].GetHash();
                    }
                    ch = "X";
                } else {
                    // first header of the batch does not connect (pass 1 only checks the first one; pass 2 every one)
                    const size_t j = (beh == NONCONNECT_1) ? 0 : k;
                    uint256 bogus;
                    rng.fill(bogus.begin(), 32);
                    batch[j] = Mine(rng, bogus, batch[j].nBits, batch[j].nTime);
                    for (size_t i = j + 1; i < batch.size(); ++i) batch[i] = Mine(rng, batch[i - 1].GetHash(), batch[i].nBits, batch[i].nTime);
                    ch = "X";
                }
                if (ch == "X") {
                    std::vector<std::string> hx;
                    std::string xb;
                    for (const auto& h : batch) {
                        hx.push_back(vh::JStr(HdrHex(h)));
                        xb += VerifProbe::E6hsBit(*hss, h.GetHash()) ? '1' : '0';
                    }
                    extra_hdrs = vh::J().raw("hdrs", vh::JArr(hx)).str("bits", xb).done();
                }
            }
            const CBlockLocator loc = hss->NextHeadersRequestLocator();
            const int pre = state;
            const auto res = hss->ProcessNextHeaders(batch, full);
            ++ncalls;
            state = static_cast<int>(hss->GetState());
            std::vector<std::string> rel;
            for (const auto& h : res.pow_validated_headers) rel.push_back(vh::JStr(HdrHex(h)));
            released += rel.size();
            calls.push_back(vh::J().str("ch", ch).u("from", pos).u("n", n).b("full", full).i("pre", pre).b("ok", res.success).b("more", res.request_more).i("post", state)
                                .raw("rel", vh::JArr(rel)).u("nc", VerifProbe::E6hsCommitments(*hss)).u("nb", VerifProbe::E6hsBuffer(*hss))
                                .str("loc0", loc.vHave.empty() ? "" : vh::Hex(loc.vHave[0])).raw("x", extra_hdrs).done());
            if (!res.success || !res.request_more) break;
            if (pre == 0 && state == 1) {
                pass = 2;
                pos = 0;
            } else {
                pos += n;
            }
        }
        std::vector<std::string> ha, hb;
        for (const auto& h : A) ha.push_back(vh::JStr(HdrHex(h)));
        for (const auto& h : B) hb.push_back(vh::JStr(HdrHex(h)));
        vh::J j;
        j.u("case", c).str("beh", BEH[beh]).u("period", hp.commitment_period).u("buffer", hp.redownload_buffer_size).u("offset", offset).u("maxc", maxc).i("now", now)
            .raw("start", vh::J().i("h", start.nHeight).u("bits", start.nBits).str("work", start.nChainWork.GetHex()).hex("hash", start_hash).u("time", start.nTime).raw("times", vh::JArr(anc_times)).done())
            .str("minwork", minwork.GetHex()).i("interval", interval).i("timespan", cp.nPowTargetTimespan).str("limit", limit.GetHex()).u("maxbatch", maxbatch).u("K", K)
            .raw("A", vh::JArr(ha)).str("bitsA", bitsA);
        if (has_b) j.u("fork", fork).raw("B", vh::JArr(hb)).str("bitsB", bitsB);
        else j.null("fork");
        j.raw("calls", vh::JArr(calls)).u("released", released);
        vh::log().rec(j);
        vh::log().obs(std::string("beh_") + BEH[beh]);
    }
    SetMockTime(0);
    return 0;
}
