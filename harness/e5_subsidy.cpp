// C31: GetBlockSubsidy swept over heights for every built-in chain's parameters.
// The in-harness oracle is an own formula; per-interval summaries are logged and re-checked in Python.
#include <common/vh.h>

#include <consensus/amount.h>
#include <kernel/chainparams.h>
#include <validation.h>

#include <memory>

namespace {
struct ChainDef {
    const char* name;
    std::unique_ptr<const CChainParams> (*make)();
};
const ChainDef CHAINS[] = {
    {"main", [] { return CChainParams::Main(); }},
    {"test", [] { return CChainParams::TestNet(); }},
    {"testnet4", [] { return CChainParams::TestNet4(); }},
    {"signet", [] { return CChainParams::SigNet(); }},
    {"regtest", [] { return CChainParams::RegTest(); }},
};
constexpr int NCHAINS = 5;
constexpr int64_t CHUNK = int64_t{1} << 22;

int64_t RefSubsidy(int64_t h, int64_t interval)
{
    const int64_t k = h / interval;
    if (k >= 64) return 0;
    return int64_t{5000000000} >> k;
}
} // namespace

// cases: c -> (chain = c % 5, chunk = c / 5). p: limit_mult (sweep heights < limit_mult*interval; 0 = all 2^31),
// nrand (random heights per case).
VH_CMD(subsidy)
{
    const int64_t limit_mult = args.geti("limit_mult", 70);
    const int64_t nrand = args.geti("nrand", 100000);
    for (uint64_t c = args.from; c < args.to; ++c) {
        vh::set_case(c);
        const ChainDef& cd = CHAINS[c % NCHAINS];
        auto params = cd.make();
        const Consensus::Params& cp = params->GetConsensus();
        const int64_t I = cp.nSubsidyHalvingInterval;
        const int64_t H = limit_mult ? std::min<int64_t>(limit_mult * I, int64_t{1} << 31) : (int64_t{1} << 31);
        const int64_t lo = (c / NCHAINS) * CHUNK;
        const int64_t hi = std::min(H, lo + CHUNK);
        vh::Rng rng(args.seed, c);
        uint64_t bad = 0;
        std::vector<std::string> intervals;
        __int128 sum = 0;
        int64_t n = 0;
        if (lo < hi) {
            int64_t prev = lo > 0 ? GetBlockSubsidy(static_cast<int>(lo - 1), cp) : INT64_MAX;
            int64_t cur_k = -1, first_h = 0, val = 0;
            for (int64_t h = lo; h < hi; ++h) {
                const CAmount s = GetBlockSubsidy(static_cast<int>(h), cp);
                ++n;
                sum += s;
                if (s != RefSubsidy(h, I) || s > prev || s < 0) {
                    if (bad++ < 5) vh::log().violation("subsidy-mismatch", "GetBlockSubsidy differs from 50e8>>(h/I) or increases", vh::J().str("chain", cd.name).i("h", h).i("got", s).i("want", RefSubsidy(h, I)).i("prev", prev));
                }
                prev = s;
                const int64_t k = h / I;
                if (k != cur_k) {
                    if (cur_k >= 0) intervals.push_back("[" + std::to_string(cur_k) + "," + std::to_string(first_h) + "," + std::to_string(h - 1) + "," + std::to_string(val) + "]");
                    cur_k = k;
                    first_h = h;
                    val = s;
                } else if (s != val) {
                    if (bad++ < 5) vh::log().violation("subsidy-not-constant-in-interval", "subsidy changes inside a halving interval", vh::J().str("chain", cd.name).i("h", h).i("got", s).i("interval_value", val));
                }
            }
            intervals.push_back("[" + std::to_string(cur_k) + "," + std::to_string(first_h) + "," + std::to_string(hi - 1) + "," + std::to_string(val) + "]");
        }
        // random heights over the full non-negative int range + halving boundaries +-1
        std::vector<std::string> rnd;
        int64_t nr = 0;
        for (int64_t i = 0; i < nrand; ++i) {
            int64_t h;
            if (i % 4 == 0) {
                const int64_t k = rng.range(0, std::min<int64_t>(80, ((int64_t{1} << 31) - 1) / I));
                h = k * I + rng.range(-1, 1);
                if (h < 0) h = 0;
                if (h >= (int64_t{1} << 31)) h = (int64_t{1} << 31) - 1;
            } else {
                h = rng.range(0, (int64_t{1} << 31) - 1);
            }
            const CAmount s = GetBlockSubsidy(static_cast<int>(h), cp);
            ++nr;
            if (s != RefSubsidy(h, I)) {
                if (bad++ < 5) vh::log().violation("subsidy-mismatch", "GetBlockSubsidy differs from 50e8>>(h/I)", vh::J().str("chain", cd.name).i("h", h).i("got", s).i("want", RefSubsidy(h, I)));
            }
            if (rnd.size() < 64) rnd.push_back("[" + std::to_string(h) + "," + std::to_string(s) + "]");
        }
        vh::J j;
        j.u("case", c).str("chain", cd.name).i("I", I).i("lo", lo).i("hi", hi).i("n", n).i("nrand", nr)
            .raw("intervals", vh::JArr(intervals)).str("sum", std::to_string(static_cast<int64_t>(sum))).raw("rand", vh::JArr(rnd));
        vh::log().rec(j);
    }
    return 0;
}
