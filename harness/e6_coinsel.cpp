// C40: the four coin-selection algorithms on generated OutputGroup pools.
// Oracle (from the property statement; own arithmetic, nothing taken from SelectionResult but the selected coin set and the
// algo_completed flag):
//   * every selected coin is one of the offered coins, none twice;
//   * sum of selection amounts (effective value; plain value when fees are subtracted from outputs) covers the algorithm's target:
//       BnB       target <= sum <= target + cost_of_change
//       CoinGrinder sum >= target + change_target
//       SRD       sum >= target + CHANGE_LOWER + change_fee
//       Knapsack  sum >= target
//   * own weight (4 * input bytes) <= max_selection_weight;
//   * when BnB / CoinGrinder report a complete search and the pool has <= nmax groups: brute force over all 2^n group subsets
//     finds no subset meeting the same constraints with strictly lower waste (own formula: sum(fee - long_term_fee) + excess)
//     respectively strictly lower weight.
//     A BnB witness is classified by two exact mechanism predicates over ALL better subsets (see "Better =" below): both are
//     genuine deviations from the statement that are listed in known_findings.json; anything else is reported as `bnb-not-optimal`.
// The pool, parameters and selections are logged; Python re-validates them and repeats the brute force for pools <= 12 groups.
#include <common/vh.h>

#include <consensus/amount.h>
#include <policy/feerate.h>
#include <policy/policy.h>
#include <primitives/transaction.h>
#include <random.h>
#include <uint256.h>
#include <util/result.h>
#include <util/translation.h>
#include <wallet/coinselection.h>

#include <algorithm>
#include <map>
#include <memory>
#include <optional>
#include <string>
#include <vector>

namespace {
using namespace wallet;

struct CoinDef {
    CAmount value;
    int bytes;
    CAmount fee;    // own: ceil(rate * bytes / 1000)
    CAmount ltfee;  // own
    int group;
    COutPoint op;
};
struct GroupDef {
    std::vector<int> coins;
    CAmount amount{0}; // selection amount (effective value, or value under SFFO)
    int weight{0};
    CAmount wastepart{0}; // sum(fee - ltfee)
};

CAmount CeilFee(int64_t rate_per_kvb, int bytes)
{
    // fee of `bytes` virtual bytes at `rate` sat/kvB, rounded up (rate >= 0)
    return (rate_per_kvb * bytes + 999) / 1000;
}

struct Sel {
    bool have{false};
    bool completed{false};
    std::string err;
    std::vector<int> coins;   // indices into the coin table
    bool foreign{false};
    bool threw{false};
    size_t tries{0};
};

std::string IntArr(const std::vector<int>& v)
{
    std::string s = "[";
    for (size_t i = 0; i < v.size(); ++i) {
        if (i) s += ",";
        s += std::to_string(v[i]);
    }
    return s + "]";
}

} // namespace

// params: nmax (largest pool that is brute-forced), big (percentage of pools with 25..60 groups, validity checks only)
VH_CMD(coinsel)
{
    const int64_t nmax = args.geti("nmax", 16);
    const int64_t bigpct = args.geti("big", 4);
    static const int64_t EFF_RATES[] = {0, 1000, 1100, 2000, 5000, 10000, 25000, 30000, 31000, 100000, 300000};
    static const int64_t LT_RATES[] = {1000, 3000, 10000, 30000};
    static const int BYTES[] = {41, 57, 58, 68, 91, 107, 148, 180, 272, 900};
    for (uint64_t c = args.from; c < args.to; ++c) {
        vh::set_case(c);
        vh::Rng rng(args.seed, c);
        const bool big = static_cast<int64_t>(rng.below(100)) < bigpct;
        size_t n;
        if (big) n = 25 + rng.below(36);
        else {
            const uint64_t r = rng.below(10);
            if (r < 3) n = 1 + rng.below(6);
            else if (r < 7) n = 7 + rng.below(6);
            else n = 13 + rng.below(static_cast<uint64_t>(std::max<int64_t>(1, nmax - 12)));
            n = std::min<size_t>(n, static_cast<size_t>(nmax));
        }
        const int64_t eff_rate = EFF_RATES[rng.below(sizeof(EFF_RATES) / sizeof(EFF_RATES[0]))];
        const int64_t lt_rate = LT_RATES[rng.below(sizeof(LT_RATES) / sizeof(LT_RATES[0]))];
        const bool sffo = rng.chance(1, 10);
        FastRandomContext frc{uint256(rng.bytes(32))};
        CoinSelectionParams params(frc);
        params.m_effective_feerate = CFeeRate(eff_rate);
        params.m_long_term_feerate = CFeeRate(lt_rate);
        params.m_subtract_fee_outputs = sffo;

        // ---- coins and groups
        std::vector<int64_t> vpal; // value palette
        const size_t nv = std::vector<size_t>{1, 2, 3, 6, 1000}[rng.below(5)];
        const int64_t scale = std::vector<int64_t>{2000, 100000, 10000000, 2100000000}[rng.below(4)];
        for (size_t i = 0; i < std::min<size_t>(nv, 64); ++i) vpal.push_back(1 + static_cast<int64_t>(rng.below(scale)));
        std::vector<int> bpal;
        const size_t nb = 1 + rng.below(4);
        for (size_t i = 0; i < nb; ++i) bpal.push_back(BYTES[rng.below(sizeof(BYTES) / sizeof(BYTES[0]))]);
        const bool dusty = rng.chance(1, 4); // add coins whose value is around their own spending fee
        std::vector<CoinDef> coins;
        std::vector<GroupDef> groups(n);
        std::vector<OutputGroup> ogs;
        std::vector<std::shared_ptr<COutput>> couts;
        std::map<COutPoint, int> by_op;
        const uint256 txh = uint256(rng.bytes(32));
        for (size_t g = 0; g < n; ++g) {
            OutputGroup og(params);
            const size_t nc = rng.chance(1, 5) ? 2 + rng.below(3) : 1;
            for (size_t k = 0; k < nc; ++k) {
                CoinDef cd;
                cd.bytes = bpal[rng.below(bpal.size())];
                cd.fee = CeilFee(eff_rate, cd.bytes);
                cd.ltfee = CeilFee(lt_rate, cd.bytes);
                if (dusty && rng.chance(1, 3)) cd.value = std::max<CAmount>(1, cd.fee + rng.range(-3, 3));
                else if (nv == 1000) cd.value = 1 + static_cast<int64_t>(rng.below(scale));
                else cd.value = vpal[rng.below(vpal.size())];
                cd.group = static_cast<int>(g);
                cd.op = COutPoint(Txid::FromUint256(txh), static_cast<uint32_t>(coins.size()));
                auto out = std::make_shared<COutput>(cd.op, CTxOut(cd.value, CScript()), /*depth=*/1 + static_cast<int>(rng.below(10)), cd.bytes,
                                                     /*solvable=*/true, /*safe=*/true, /*time=*/0, /*from_me=*/true, params.m_effective_feerate);
                if (out->GetFee() != cd.fee || out->GetEffectiveValue() != cd.value - cd.fee) {
                    throw std::runtime_error("harness fee model differs from COutput (fee " + std::to_string(out->GetFee()) + " vs " + std::to_string(cd.fee) + ")");
                }
                og.Insert(out, /*ancestors=*/0, /*cluster_count=*/0);
                by_op[cd.op] = static_cast<int>(coins.size());
                groups[g].coins.push_back(static_cast<int>(coins.size()));
                groups[g].amount += sffo ? cd.value : cd.value - cd.fee;
                groups[g].weight += 4 * cd.bytes;
                groups[g].wastepart += cd.fee - cd.ltfee;
                coins.push_back(cd);
                couts.push_back(out);
            }
            if (og.GetSelectionAmount() != groups[g].amount || og.m_weight != groups[g].weight || og.fee - og.long_term_fee != groups[g].wastepart) {
                throw std::runtime_error("harness group model differs from OutputGroup");
            }
            ogs.push_back(og);
        }
        std::vector<int> pos; // indices of groups with positive selection amount (what the wallet offers to BnB / CG / SRD)
        CAmount total_pos = 0;
        int total_w_pos = 0, min_w = INT32_MAX;
        bool has_nonpos = false;
        for (size_t g = 0; g < n; ++g) {
            if (groups[g].amount > 0) {
                pos.push_back(static_cast<int>(g));
                total_pos += groups[g].amount;
                total_w_pos += groups[g].weight;
                min_w = std::min(min_w, groups[g].weight);
            } else {
                has_nonpos = true;
            }
        }
        const size_t np = pos.size();
        // ---- target, windows, weight limit
        std::vector<int> tsub; // a random subset of the positive groups (the "intended" solution)
        CAmount tsub_sum = 0;
        int tsub_w = 0;
        for (int g : pos) {
            if (rng.chance(1, 2 + static_cast<uint32_t>(rng.below(3)))) {
                tsub.push_back(g);
                tsub_sum += groups[g].amount;
                tsub_w += groups[g].weight;
            }
        }
        const CAmount cost_of_change = std::vector<CAmount>{0, 1, 50, 300, 1500, 5000}[rng.below(6)] + (rng.coin() ? static_cast<CAmount>(rng.below(100)) : 0);
        const CAmount change_target = std::vector<CAmount>{0, 1, 1000, CHANGE_LOWER, 100000}[rng.below(5)];
        const CAmount change_fee = std::vector<CAmount>{0, 31, 310, 3100}[rng.below(4)];
        CAmount target;
        const uint64_t tmode = rng.below(10);
        switch (tmode) {
        case 0: case 1: case 2: target = tsub_sum; break;                                        // exact match possible
        case 3: target = tsub_sum - static_cast<CAmount>(rng.below(cost_of_change + 3)); break;   // inside the BnB window
        case 4: target = tsub_sum + 1 + static_cast<CAmount>(rng.below(50)); break;
        case 5: target = total_pos + rng.range(-1, 1); break;                                     // around the pool total
        case 6: target = total_pos - change_target + rng.range(-1, 1); break;                     // CG/knapsack at the pool total
        case 7: target = 1 + static_cast<CAmount>(rng.below(static_cast<uint64_t>(std::max<CAmount>(1, total_pos)))); break;
        case 8: target = total_pos + 1 + static_cast<CAmount>(rng.below(100000)); break;          // insufficient funds
        default: target = 1 + static_cast<CAmount>(rng.below(1000)); break;
        }
        if (target < 1) target = 1;
        int max_w;
        const uint64_t wmode = rng.below(10);
        switch (wmode) {
        case 0: case 1: case 2: max_w = MAX_STANDARD_TX_WEIGHT; break;
        case 3: max_w = total_w_pos; break;
        case 4: max_w = std::max(1, total_w_pos - 1); break;
        case 5: max_w = std::max(1, tsub_w); break;                                               // exactly the intended subset
        case 6: max_w = std::max(1, tsub_w - 1); break;
        case 7: max_w = np ? static_cast<int>(min_w + rng.below(static_cast<uint64_t>(std::max(1, total_w_pos - min_w + 1)))) : 1000; break;
        case 8: max_w = np ? std::max(0, min_w - static_cast<int>(rng.below(3))) : 0; break;       // at / below the lightest group
        default: max_w = 1 + static_cast<int>(rng.below(2000)); break;
        }

        // ---- run the algorithms
        auto pool_of = [&](const std::vector<int>& idx) {
            std::vector<OutputGroup> p;
            for (int g : idx) p.push_back(ogs[g]);
            // offered in a random order
            for (size_t i = p.size(); i > 1; --i) std::swap(p[i - 1], p[rng.below(i)]);
            return p;
        };
        std::vector<int> all_idx(n);
        for (size_t g = 0; g < n; ++g) all_idx[g] = static_cast<int>(g);
        auto harvest = [&](util::Result<SelectionResult>& r) {
            Sel s;
            if (!r) {
                s.err = util::ErrorString(r).original;
                return s;
            }
            s.have = true;
            s.completed = r->GetAlgoCompleted();
            s.tries = r->GetSelectionsEvaluated();
            for (const auto& cp : r->GetInputSet()) {
                auto it = by_op.find(cp->outpoint);
                if (it == by_op.end() || couts[it->second].get() != cp.get()) {
                    s.foreign = true;
                    continue;
                }
                s.coins.push_back(it->second);
            }
            std::sort(s.coins.begin(), s.coins.end());
            return s;
        };
        Sel bnb, cg, srd, knap;
        const bool run_bnb = !sffo;
        std::vector<int> bnb_order; // the offered groups in the order BnB sorted them (it sorts the caller's vector in place)
        if (run_bnb) {
            try {
                auto p = pool_of(pos);
                auto r = SelectCoinsBnB(p, target, cost_of_change, max_w);
                bnb = harvest(r);
                for (const auto& og : p) bnb_order.push_back(coins[by_op.at(og.m_outputs.at(0)->outpoint)].group);
            } catch (const std::exception& e) {
                bnb.threw = true;
                bnb.err = e.what();
            }
        }
        try {
            auto p = pool_of(pos);
            auto r = CoinGrinder(p, target, change_target, max_w);
            cg = harvest(r);
        } catch (const std::exception& e) {
            cg.threw = true;
            cg.err = e.what();
        }
        try {
            auto p = pool_of(pos);
            auto r = SelectCoinsSRD(p, target, change_fee, frc, max_w);
            srd = harvest(r);
        } catch (const std::exception& e) {
            srd.threw = true;
            srd.err = e.what();
        }
        const bool knap_mixed = rng.coin();
        try {
            auto p = pool_of(knap_mixed ? all_idx : pos);
            auto r = KnapsackSolver(p, target, change_target, frc, max_w);
            knap = harvest(r);
        } catch (const std::exception& e) {
            knap.threw = true;
            knap.err = e.what();
        }

        // ---- brute force over the positive groups (definitions only)
        const bool brute = np <= static_cast<size_t>(nmax);
        bool bnb_feasible = false, cg_feasible = false;
        CAmount best_waste = 0;
        int best_weight = 0;
        if (brute) {
            std::vector<CAmount> amt(np), wp(np);
            std::vector<int> wt(np);
            for (size_t i = 0; i < np; ++i) amt[i] = groups[pos[i]].amount, wp[i] = groups[pos[i]].wastepart, wt[i] = groups[pos[i]].weight;
            CAmount sum = 0, wsum = 0;
            int w = 0;
            const uint64_t lim = uint64_t{1} << np;
            uint64_t gray = 0;
            for (uint64_t i = 1; i < lim; ++i) {
                const uint64_t ng = i ^ (i >> 1);
                const uint64_t diff = ng ^ gray;
                const int bit = __builtin_ctzll(diff);
                if (ng & diff) sum += amt[bit], wsum += wp[bit], w += wt[bit];
                else sum -= amt[bit], wsum -= wp[bit], w -= wt[bit];
                gray = ng;
                if (w > max_w) continue;
                if (sum >= target && sum <= target + cost_of_change) {
                    const CAmount waste = wsum + (sum - target);
                    if (!bnb_feasible || waste < best_waste) best_waste = waste;
                    bnb_feasible = true;
                }
                if (sum >= target + change_target) {
                    if (!cg_feasible || w < best_weight) best_weight = w;
                    cg_feasible = true;
                }
            }
            vh::log().obs("bruteforce_pools");
        }

        // ---- validity oracle
        bool bad = false;
        auto validate = [&](const char* name, const Sel& s, CAmount need, std::optional<CAmount> upper) {
            if (s.threw) {
                bad = true;
                vh::log().violation(std::string(name) + "-threw", "selection algorithm threw (shared UTXOs / internal error)", vh::J().str("what", s.err));
                return;
            }
            if (!s.have) {
                vh::log().obs(std::string(name) + "_error");
                return;
            }
            vh::log().obs(std::string(name) + "_result");
            vh::J d;
            d.str("algo", name).i("target", target).i("need", need).i("max_weight", max_w).raw("selected_coins", IntArr(s.coins));
            if (s.foreign) {
                bad = true;
                vh::log().violation(std::string(name) + "-foreign-coin", "result contains a coin that was not offered", d);
                return;
            }
            for (size_t i = 1; i < s.coins.size(); ++i) {
                if (s.coins[i] == s.coins[i - 1]) {
                    bad = true;
                    vh::log().violation(std::string(name) + "-repeated-coin", "result contains a coin twice", d);
                    return;
                }
            }
            CAmount sum = 0;
            int w = 0;
            for (int ci : s.coins) {
                sum += sffo ? coins[ci].value : coins[ci].value - coins[ci].fee;
                w += 4 * coins[ci].bytes;
            }
            d.i("sum", sum).i("weight", w);
            if (s.coins.empty()) {
                bad = true;
                vh::log().violation(std::string(name) + "-empty", "successful result without inputs", d);
                return;
            }
            if (sum < need) {
                bad = true;
                vh::log().violation(std::string(name) + "-insufficient", "selected amount does not cover the target", d);
            }
            if (upper && sum > *upper) {
                bad = true;
                vh::log().violation(std::string(name) + "-exceeds-window", "BnB selection exceeds target + cost_of_change", d.i("upper", *upper));
            }
            if (w > max_w) {
                bad = true;
                vh::log().violation(std::string(name) + "-overweight", "selection weight exceeds max_selection_weight", d);
            }
            if (w == max_w) vh::log().obs("weight_exactly_at_limit");
            if (sum == need) vh::log().obs(std::string(name) + "_exact_match");
        };
        if (run_bnb) validate("bnb", bnb, target, target + cost_of_change);
        validate("cg", cg, target + change_target, std::nullopt);
        validate("srd", srd, target + CHANGE_LOWER + change_fee, std::nullopt);
        validate("knapsack", knap, target, std::nullopt);

        // ---- optimality oracle
        bool bnb_nonopt = false;
        auto sel_groups_metrics = [&](const Sel& s, CAmount& sum, CAmount& wsum, int& w) {
            sum = 0, wsum = 0, w = 0;
            for (int ci : s.coins) {
                sum += coins[ci].value - coins[ci].fee;
                wsum += coins[ci].fee - coins[ci].ltfee;
                w += 4 * coins[ci].bytes;
            }
        };
        if (run_bnb && bnb.have && !bnb.foreign) {
            vh::log().obs(bnb.completed ? "bnb_complete" : "bnb_incomplete");
            if (bnb.completed && brute) {
                CAmount sum, wsum;
                int w;
                sel_groups_metrics(bnb, sum, wsum, w);
                const CAmount waste = wsum + (sum - target);
                vh::log().obs("bruteforce_compares");
                vh::log().obs("bnb_bruteforce_compares");
                if (bnb_feasible && best_waste < waste) {
                    bad = true;
                    bnb_nonopt = true;
                    // ---- strict classification of the witness (two known mechanisms; anything else stays plain)
                    // restricted brute force: minimal waste over the subsets of `allowed` (bit i = pos[i]) within window and weight limit wl
                    auto brute_bnb = [&](uint64_t allowed, int wl, uint64_t* argmin) -> std::optional<CAmount> {
                        std::optional<CAmount> best;
                        for (uint64_t m = allowed; m; m = (m - 1) & allowed) {
                            CAmount sum = 0, ws = 0;
                            int w = 0;
                            for (size_t i = 0; i < np; ++i)
                                if (m >> i & 1) sum += groups[pos[i]].amount, ws += groups[pos[i]].wastepart, w += groups[pos[i]].weight;
                            if (w > wl || sum < target || sum > target + cost_of_change) continue;
                            const CAmount wa = ws + (sum - target);
                            if (!best || wa < *best) {
                                best = wa;
                                if (argmin) *argmin = m;
                            }
                        }
                        return best;
                    };
                    const uint64_t all_mask = (np == 64) ? ~uint64_t{0} : ((uint64_t{1} << np) - 1);
                    uint64_t sel_mask = 0, better_mask = 0;
                    for (int ci : bnb.coins)
                        for (size_t i = 0; i < np; ++i)
                            if (pos[i] == coins[ci].group) sel_mask |= uint64_t{1} << i;
                    brute_bnb(all_mask, max_w, &better_mask);
                    // Better = all feasible subsets with strictly lower waste than BnB's result. Two mechanism predicates on S in Better:
                    //  E(S) "extension of an in-window selection": S is still at or above the target without its smallest group. BnB's
                    //       depth-first search in descending amount order is inside the window before S is complete and shifts there
                    //       ("adding more UTXOs cannot be better"); below the long-term feerate that is not true for a coin worth less than
                    //       its long-term spending fee (amount + fee - long_term_fee < 0).
                    //  N(S) "skipped twin": in BnB's own sorted order, among groups of one amount S does not use a prefix of them; the clone
                    //       skipping rule never visits such a set. Its prefix-using counterpart has the same sum and no more waste; when that
                    //       one is not in Better it can only have failed the weight limit.
                    // key 1: feerate < long-term feerate and every S in Better is E.   key 2 (else): weight limit binding and every S in Better
                    // is E (at low feerate) or N.   Anything else: plain.
                    std::vector<size_t> rank_in_order(np, 0); // position of pos[i] in bnb_order
                    for (size_t i = 0; i < np; ++i)
                        for (size_t k = 0; k < bnb_order.size(); ++k)
                            if (bnb_order[k] == pos[i]) rank_in_order[i] = k;
                    bool class1 = false, class2 = false;
                    {
                        bool any = false, all_e = true, all_e_or_n = true;
                        for (uint64_t m = all_mask; m; m = (m - 1) & all_mask) {
                            CAmount sum = 0, ws = 0, mn = MAX_MONEY;
                            int w = 0;
                            for (size_t i = 0; i < np; ++i)
                                if (m >> i & 1) sum += groups[pos[i]].amount, ws += groups[pos[i]].wastepart, w += groups[pos[i]].weight, mn = std::min(mn, groups[pos[i]].amount);
                            if (w > max_w || sum < target || sum > target + cost_of_change) continue;
                            if (ws + (sum - target) >= waste) continue;
                            any = true;
                            const bool e = eff_rate < lt_rate && sum - mn >= target;
                            bool nn = false;
                            for (size_t i = 0; i < np && !nn; ++i) {
                                if (!(m >> i & 1)) continue;
                                for (size_t k = 0; k < np; ++k) // an unused group of the same amount that BnB sorted earlier
                                    if (!(m >> k & 1) && groups[pos[k]].amount == groups[pos[i]].amount && rank_in_order[k] < rank_in_order[i]) nn = true;
                            }
                            if (!e) all_e = false;
                            if (!e && !nn) all_e_or_n = false;
                        }
                        class1 = any && all_e && eff_rate < lt_rate;
                        class2 = any && !class1 && all_e_or_n && max_w < total_w_pos && bnb_order.size() == np;
                    }
                    std::vector<int> better_groups;
                    for (size_t i = 0; i < np; ++i)
                        if (better_mask >> i & 1) better_groups.push_back(pos[i]);
                    std::vector<std::string> cj;
                    for (const auto& cd : coins) cj.push_back("[" + std::to_string(cd.value) + "," + std::to_string(cd.bytes) + "," + std::to_string(cd.group) + "]");
                    vh::log().violation(class1 ? "bnb-not-optimal-pool-has-waste-reducing-coin" : class2 ? "bnb-not-optimal-weight-limit-and-equal-amount-groups-of-different-weight" : "bnb-not-optimal",
                                        "BnB reports a complete search but a subset within the same window and weight limit has strictly lower waste",
                                        vh::J().i("waste", waste).i("best_waste", best_waste).i("target", target).i("cost_of_change", cost_of_change).i("max_weight", max_w).u("n", np)
                                            .i("eff_feerate", eff_rate).i("lt_feerate", lt_rate).raw("selected_coins", IntArr(bnb.coins)).raw("better_groups", IntArr(better_groups))
                                            .raw("coins_value_bytes_group", vh::JArr(cj)));
                }
                if (bnb_feasible && best_waste == waste) vh::log().obs("bnb_optimum_confirmed");
            }
        }
        if (run_bnb && !bnb.have && !bnb.threw && brute && bnb_feasible) vh::log().obs("note_bnb_error_although_solution_exists");
        if (cg.have && !cg.foreign) {
            vh::log().obs(cg.completed ? "cg_complete" : "cg_incomplete");
            if (cg.completed && brute) {
                CAmount sum = 0;
                int w = 0;
                for (int ci : cg.coins) sum += sffo ? coins[ci].value : coins[ci].value - coins[ci].fee, w += 4 * coins[ci].bytes;
                vh::log().obs("bruteforce_compares");
                vh::log().obs("cg_bruteforce_compares");
                if (cg_feasible && best_weight < w) {
                    bad = true;
                    vh::log().violation("cg-not-min-weight", "CoinGrinder reports a complete search but a lighter subset covers target + change_target",
                                        vh::J().i("weight", w).i("best_weight", best_weight).i("target", target).i("change_target", change_target).i("max_weight", max_w).u("n", np));
                }
                if (cg_feasible && best_weight == w) vh::log().obs("cg_optimum_confirmed");
            }
        }
        if (!cg.have && !cg.threw && brute && cg_feasible) vh::log().obs("note_cg_error_although_solution_exists");

        // ---- event classes
        if (big) vh::log().obs("big_pools");
        if (sffo) vh::log().obs("sffo_pools");
        if (has_nonpos) vh::log().obs("pools_with_nonpositive_effective_value");
        if (has_nonpos && knap_mixed) vh::log().obs("knapsack_offered_nonpositive");
        if (nv <= 3) vh::log().obs("pools_with_equal_values");
        if (eff_rate > lt_rate) vh::log().obs("feerate_high");
        else if (eff_rate < lt_rate) vh::log().obs("feerate_low");
        else vh::log().obs("feerate_equal");
        if (max_w < total_w_pos) vh::log().obs("weight_limit_below_pool_weight");
        if (target > total_pos) vh::log().obs("target_above_pool");
        for (const Sel* s : {&bnb, &cg, &srd, &knap})
            if (!s->have && s->err.find("maximum weight") != std::string::npos) vh::log().obs("max_weight_errors");
        vh::log().obs_max("pool_groups", static_cast<int64_t>(n));

        // ---- record (compact; full pool for small pools so that Python can repeat everything)
        vh::J j;
        j.u("case", c).u("n", n).u("np", np).b("sffo", sffo).i("eff", eff_rate).i("lt", lt_rate).i("target", target).i("coc", cost_of_change)
            .i("ct", change_target).i("cf", change_fee).i("maxw", max_w).b("brute", brute);
        auto selj = [&](const Sel& s) {
            if (!s.have) return std::string("null");
            return vh::J().b("done", s.completed).raw("coins", IntArr(s.coins)).done();
        };
        j.raw("bnb", run_bnb ? selj(bnb) : "null").raw("cg", selj(cg)).raw("srd", selj(srd)).raw("knap", selj(knap));
        j.b("bnb_nonopt", bnb_nonopt);
        if (brute) j.b("bf_bnb", bnb_feasible).i("bf_waste", best_waste).b("bf_cg", cg_feasible).i("bf_weight", best_weight);
        const bool nt = brute && ((run_bnb && bnb.have && bnb.completed) || (cg.have && cg.completed));
        j.b("nt", nt);
        uint64_t h = 0xcbf29ce484222325ULL;
        for (const auto& cd : coins) h = (h ^ static_cast<uint64_t>(cd.value * 1315423911u + cd.bytes)) * 0x100000001b3ULL;
        h ^= static_cast<uint64_t>(target) * 31 + static_cast<uint64_t>(max_w);
        j.str("sig", std::to_string(h));
        if (n <= 12 || bad || c % 32 == 0) {
            std::vector<std::string> cj;
            for (const auto& cd : coins) cj.push_back("[" + std::to_string(cd.value) + "," + std::to_string(cd.bytes) + "," + std::to_string(cd.group) + "]");
            j.raw("coins", vh::JArr(cj));
        }
        vh::log().rec(j);
    }
    return 0;
}
