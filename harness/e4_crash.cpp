// E4 crashsim (C16): workload recorder (`crashload`), recovery runner (`recover`) and report re-emitter (`crashreport`).
//
//   crashload --p phase=init --p dir=D --p rec=R   create datadir D, build the base chain, flush, clean shutdown
//   crashload --p phase=run  --p dir=D --p rec=R   re-open D as a restart would (on-disk coins DB + block tree DB, fast_prune,
//                                                   tiny -dbbatchsize, tiny caches) and run the recorded workload; the application
//                                                   journal is injected into the syscall stream as write(/dev/null, "MARK ...")
//   recover   --p dir=IMG --p now=T --p prune=P    run LoadChainstate -> VerifyLoadedChainstate -> ActivateBestChain on a crash image
//   crashreport --p file=F                         re-emit the JSONL produced by checks/C16.py prepare() into the shard log
//
// The UTXO reference is an own std::map ledger that applies the blocks the generator itself built; it never reads
// the node's coins view.
#include <common/vh.h>

#include <arith_uint256.h>
#include <chain.h>
#include <chainparams.h>
#include <coins.h>
#include <consensus/merkle.h>
#include <crypto/sha256.h>
#include <kernel/caches.h>
#include <kernel/notifications_interface.h>
#include <logging.h>
#include <node/blockstorage.h>
#include <node/chainstate.h>
#include <pow.h>
#include <primitives/block.h>
#include <primitives/transaction.h>
#include <script/script.h>
#include <test/util/setup_common.h>
#include <txdb.h>
#include <util/fs.h>
#include <util/task_runner.h>
#include <util/time.h>
#include <util/translation.h>
#include <validation.h>
#include <validationinterface.h>

#include <fcntl.h>
#include <unistd.h>

#include <array>
#include <fstream>
#include <map>
#include <memory>
#include <optional>
#include <set>
#include <stdexcept>
#include <string>
#include <vector>

namespace {

// ---------------------------------------------------------------------------------------------------------------
// Own UTXO ledger + block generator
// ---------------------------------------------------------------------------------------------------------------
using OutKey = std::pair<std::array<unsigned char, 32>, uint32_t>;
struct MCoin {
    int64_t value;
    int32_t height;
    bool coinbase;
    std::vector<unsigned char> script;
};
using Ledger = std::map<OutKey, MCoin>;

OutKey KeyOf(const COutPoint& o)
{
    OutKey k;
    std::memcpy(k.first.data(), o.hash.ToUint256().data(), 32);
    k.second = o.n;
    return k;
}

void Le32(CSHA256& h, uint32_t v)
{
    unsigned char b[4] = {static_cast<unsigned char>(v), static_cast<unsigned char>(v >> 8), static_cast<unsigned char>(v >> 16), static_cast<unsigned char>(v >> 24)};
    h.Write(b, 4);
}
void Le64(CSHA256& h, uint64_t v)
{
    Le32(h, static_cast<uint32_t>(v));
    Le32(h, static_cast<uint32_t>(v >> 32));
}

// Canonical digest of a UTXO set: SHA256 over (txid | n | height | coinbase | value | script) in (txid bytes, n) order.
std::string LedgerHash(const Ledger& l)
{
    CSHA256 h;
    for (const auto& [k, c] : l) {
        h.Write(k.first.data(), 32);
        Le32(h, k.second);
        Le32(h, static_cast<uint32_t>(c.height));
        unsigned char cb = c.coinbase ? 1 : 0;
        h.Write(&cb, 1);
        Le64(h, static_cast<uint64_t>(c.value));
        Le32(h, static_cast<uint32_t>(c.script.size()));
        if (!c.script.empty()) h.Write(c.script.data(), c.script.size());
    }
    unsigned char out[32];
    h.Finalize(out);
    return vh::Hex(out, 32);
}

struct BRec {
    uint256 hash;
    uint256 prev;
    int height{0};
    int64_t time{0};
    std::shared_ptr<const CBlock> block;
    std::vector<std::pair<OutKey, MCoin>> spent;
    std::vector<std::pair<OutKey, MCoin>> created;
    std::string uhash;
    size_t ucount{0};
};

int g_mark_fd = -1;
void Mark(const std::string& s)
{
    // Journal line: goes into the JSONL log and, as a write(2) to /dev/null, into the traced syscall stream.
    if (g_mark_fd < 0) g_mark_fd = ::open("/dev/null", O_WRONLY | O_CLOEXEC);
    const std::string line = "MARK " + s + "\n";
    if (g_mark_fd >= 0) {
        ssize_t r = ::write(g_mark_fd, line.data(), line.size());
        (void)r;
    }
    vh::log().line(vh::J().str("mark", s).done());
}

class Gen
{
public:
    const Consensus::Params& m_cp;
    vh::Rng m_rng;
    std::map<uint256, BRec> m_blocks;
    Ledger m_ledger;      // UTXO of block m_at
    uint256 m_at;         // block the ledger currently represents
    int64_t m_max_time{0};

    Gen(const CChainParams& params, uint64_t seed, uint64_t stream) : m_cp(params.GetConsensus()), m_rng(seed, stream)
    {
        const CBlock& g = params.GenesisBlock();
        BRec r;
        r.hash = g.GetHash();
        r.height = 0;
        r.time = g.nTime;
        r.block = std::make_shared<const CBlock>(g);
        // the genesis coinbase is not added to the UTXO set by the node (it is unspendable)
        r.uhash = LedgerHash(m_ledger);
        r.ucount = 0;
        m_at = r.hash;
        m_max_time = r.time;
        m_blocks.emplace(r.hash, std::move(r));
    }

    const BRec& Get(const uint256& h) const
    {
        auto it = m_blocks.find(h);
        if (it == m_blocks.end()) throw std::runtime_error("Gen: unknown block");
        return it->second;
    }

    void Undo(const BRec& b)
    {
        for (const auto& [k, c] : b.created) {
            if (m_ledger.erase(k) != 1) throw std::runtime_error("Gen: undo of a missing created coin");
        }
        for (const auto& [k, c] : b.spent) {
            if (!m_ledger.emplace(k, c).second) throw std::runtime_error("Gen: undo re-adds an existing coin");
        }
    }
    void Apply(const BRec& b)
    {
        for (const auto& [k, c] : b.spent) {
            if (m_ledger.erase(k) != 1) throw std::runtime_error("Gen: apply spends a missing coin");
        }
        for (const auto& [k, c] : b.created) {
            if (!m_ledger.emplace(k, c).second) throw std::runtime_error("Gen: apply creates an existing coin");
        }
    }
    // Move the ledger from m_at to `target` through the block tree.
    void MoveTo(const uint256& target)
    {
        if (target == m_at) return;
        std::vector<const BRec*> up; // blocks to apply, target first
        const BRec* a = &Get(m_at);
        const BRec* b = &Get(target);
        while (a->hash != b->hash) {
            if (a->height >= b->height && a->height > 0) {
                Undo(*a);
                a = &Get(a->prev);
            } else {
                up.push_back(b);
                b = &Get(b->prev);
            }
        }
        for (auto it = up.rbegin(); it != up.rend(); ++it) Apply(**it);
        m_at = target;
    }

    std::vector<unsigned char> RandScript()
    {
        // <push of 0..24 random bytes> OP_DROP OP_TRUE, or a bare OP_TRUE: anyone-can-spend with an empty scriptSig
        CScript s;
        if (m_rng.chance(3, 4)) {
            s << m_rng.bytes(1 + m_rng.below(24)) << OP_DROP;
        }
        s << OP_TRUE;
        return std::vector<unsigned char>(s.begin(), s.end());
    }

    // Build a block on `parent` with up to max_tx transactions spending coins of the parent's UTXO set.
    const BRec& Build(const uint256& parent, int max_tx)
    {
        MoveTo(parent);
        const BRec& p = Get(parent);
        const int h = p.height + 1;
        CBlock blk;
        blk.nVersion = 0x20000000;
        blk.hashPrevBlock = parent;
        blk.nTime = static_cast<uint32_t>(p.time + 1 + m_rng.below(4));
        blk.nBits = 0x207fffff;
        BRec r;
        // coinbase
        CMutableTransaction cb;
        cb.version = 2;
        cb.vin.resize(1);
        cb.vin[0].prevout.SetNull();
        cb.vin[0].scriptSig = CScript() << h << m_rng.bytes(8);
        const int64_t subsidy = (h / 150) >= 64 ? 0 : (int64_t{5000000000} >> (h / 150));
        const int ncb_out = 1 + static_cast<int>(m_rng.below(2));
        for (int i = 0; i < ncb_out; ++i) {
            auto sc = RandScript();
            cb.vout.emplace_back(subsidy / ncb_out, CScript(sc.begin(), sc.end()));
        }
        std::vector<CMutableTransaction> txs;
        txs.push_back(cb);
        // candidate inputs: mature coinbase outputs and any non-coinbase output
        std::vector<OutKey> cand;
        for (const auto& [k, c] : m_ledger) {
            if (c.value < 2000) continue;
            if (c.coinbase && c.height > h - 100) continue;
            cand.push_back(k);
        }
        Ledger work; // coins created inside this block and still unspent
        std::set<OutKey> used;
        const size_t ucount = m_ledger.size();
        const int ntx = max_tx <= 0 ? 0 : static_cast<int>(m_rng.below(max_tx + 1));
        for (int t = 0; t < ntx && !cand.empty(); ++t) {
            CMutableTransaction tx;
            tx.version = 2;
            int nin = 1 + static_cast<int>(m_rng.below(ucount > 1200 ? 4 : 2));
            int64_t in_total = 0;
            for (int i = 0; i < nin; ++i) {
                // occasionally spend an output created earlier in this block
                if (!work.empty() && m_rng.chance(1, 5)) {
                    auto it = work.begin();
                    std::advance(it, m_rng.below(work.size()));
                    if (it->second.value >= 2000) {
                        COutPoint op{Txid::FromUint256(uint256{std::span<const unsigned char>{it->first.first}}), it->first.second};
                        tx.vin.emplace_back(op);
                        in_total += it->second.value;
                        work.erase(it);
                        continue;
                    }
                }
                for (int tries = 0; tries < 8; ++tries) {
                    const OutKey& k = cand[m_rng.below(cand.size())];
                    if (used.count(k)) continue;
                    used.insert(k);
                    COutPoint op{Txid::FromUint256(uint256{std::span<const unsigned char>{k.first}}), k.second};
                    tx.vin.emplace_back(op);
                    in_total += m_ledger.at(k).value;
                    break;
                }
            }
            if (tx.vin.empty()) continue;
            const int nout = 1 + static_cast<int>(m_rng.below(ucount < 600 ? 5 : 2));
            const int64_t fee = 100 + static_cast<int64_t>(m_rng.below(400));
            const int64_t each = (in_total - fee) / nout;
            if (each <= 0) continue;
            for (int i = 0; i < nout; ++i) {
                auto sc = RandScript();
                tx.vout.emplace_back(each, CScript(sc.begin(), sc.end()));
            }
            const Txid txid = tx.GetHash();
            for (uint32_t i = 0; i < tx.vout.size(); ++i) {
                MCoin c{tx.vout[i].nValue, h, false, std::vector<unsigned char>(tx.vout[i].scriptPubKey.begin(), tx.vout[i].scriptPubKey.end())};
                work.emplace(KeyOf(COutPoint{txid, i}), std::move(c));
            }
            txs.push_back(std::move(tx));
        }
        for (auto& t : txs) blk.vtx.push_back(MakeTransactionRef(std::move(t)));
        blk.hashMerkleRoot = BlockMerkleRoot(blk);
        while (!CheckProofOfWork(blk.GetHash(), blk.nBits, m_cp)) ++blk.nNonce;

        // ledger delta: inputs that existed before the block are "spent"; outputs still unspent at the end are "created"
        Ledger created_all;
        for (size_t ti = 0; ti < blk.vtx.size(); ++ti) {
            const CTransaction& tx = *blk.vtx[ti];
            if (ti > 0) {
                for (const auto& in : tx.vin) {
                    OutKey k = KeyOf(in.prevout);
                    auto itc = created_all.find(k);
                    if (itc != created_all.end()) {
                        created_all.erase(itc);
                    } else {
                        r.spent.emplace_back(k, m_ledger.at(k));
                    }
                }
            }
            for (uint32_t i = 0; i < tx.vout.size(); ++i) {
                MCoin c{tx.vout[i].nValue, h, ti == 0, std::vector<unsigned char>(tx.vout[i].scriptPubKey.begin(), tx.vout[i].scriptPubKey.end())};
                created_all.emplace(KeyOf(COutPoint{tx.GetHash(), i}), std::move(c));
            }
        }
        for (auto& kv : created_all) r.created.emplace_back(kv.first, std::move(kv.second));
        r.hash = blk.GetHash();
        r.prev = parent;
        r.height = h;
        r.time = blk.nTime;
        r.block = std::make_shared<const CBlock>(std::move(blk));
        Apply(r);
        m_at = r.hash;
        r.uhash = LedgerHash(m_ledger);
        r.ucount = m_ledger.size();
        if (r.time > m_max_time) m_max_time = r.time;
        auto [it, ok] = m_blocks.emplace(r.hash, std::move(r));
        if (!ok) throw std::runtime_error("Gen: duplicate block hash");
        return it->second;
    }
};

std::string BlockMark(const char* kind, const BRec& r)
{
    // B <hash> <height> <prev> <utxo-hash> <utxo-count> <ntx>   chainwork is 2*(height+1) on regtest (constant difficulty)
    return std::string(kind) + " " + r.hash.GetHex() + " " + std::to_string(r.height) + " " + r.prev.GetHex() + " " + r.uhash + " " +
           std::to_string(r.ucount) + " " + std::to_string(r.block->vtx.size());
}

// ---------------------------------------------------------------------------------------------------------------
// Node on a real directory
// ---------------------------------------------------------------------------------------------------------------
class Notif : public kernel::Notifications
{
public:
    std::vector<std::string> fatal, flush;
    void flushError(const bilingual_str& message) override { flush.push_back(message.original); }
    void fatalError(const bilingual_str& message) override { fatal.push_back(message.original); }
};

class Journal : public CValidationInterface
{
public:
    void BlockChecked(const std::shared_ptr<const CBlock>& block, const BlockValidationState& state) override
    {
        // emitted by ConnectTip straight after ConnectBlock and before the result can reach the disk
        if (state.IsValid()) Mark("C " + block->GetHash().GetHex());
        else Mark("X " + block->GetHash().GetHex());
    }
    void BlockConnected(const kernel::ChainstateRole&, const std::shared_ptr<const CBlock>& block, const CBlockIndex* pindex) override
    {
        Mark("T " + block->GetHash().GetHex() + " " + std::to_string(pindex->nHeight));
        vh::log().obs("blocks_connected");
    }
    void BlockDisconnected(const std::shared_ptr<const CBlock>& block, const CBlockIndex* pindex) override
    {
        Mark("D " + block->GetHash().GetHex() + " " + std::to_string(pindex->nHeight));
        vh::log().obs("blocks_disconnected");
    }
    void ChainStateFlushed(const kernel::ChainstateRole&, const CBlockLocator& locator) override
    {
        // synchronous (ImmediateTaskRunner): the full flush (block files, block index, coins) has just completed
        Mark("F " + (locator.vHave.empty() ? std::string("-") : locator.vHave.front().GetHex()));
        vh::log().obs("full_flushes");
    }
};

struct NodeOpts {
    fs::path dir;
    int prune{0};               // 0 off, 1 automatic (tiny target), 2 manual only
    uint64_t coins_cache{0};    // bytes, 0 = default
    uint64_t coinsdb_cache{0};  // bytes, 0 = default
    uint64_t blocktree_cache{0};
    uint64_t batch_bytes{0};    // -dbbatchsize, 0 = default
    bool journal{false};
    bool use_xor{true};
};

struct Node {
    BasicTestingSetup basic;
    Notif notif;
    std::unique_ptr<ValidationSignals> signals;
    Journal journal;
    std::unique_ptr<ChainstateManager> chainman;
    kernel::CacheSizes caches{DEFAULT_KERNEL_CACHE};
    node::ChainstateLoadOptions load_opts;
    NodeOpts o;

    explicit Node(const NodeOpts& opts) : basic(ChainType::REGTEST, TestOpts{.extra_args = {"-fastprune", "-debugexclude=libevent"}}), o(opts)
    {
        if (o.journal) {
            signals = std::make_unique<ValidationSignals>(std::make_unique<util::ImmediateTaskRunner>());
            signals->RegisterValidationInterface(&journal);
        }
        if (o.coins_cache) caches.coins = o.coins_cache;
        if (o.coinsdb_cache) caches.coins_db = o.coinsdb_cache;
        if (o.blocktree_cache) caches.block_tree_db = o.blocktree_cache;
    }

    // what init does to create the ChainstateManager; exceptions propagate to the caller
    void MakeChainman()
    {
        const CChainParams& params = Params();
        ChainstateManager::Options cm{
            .chainparams = params,
            .datadir = o.dir,
            .check_block_index = 1,
            .notifications = notif,
            .signals = signals.get(),
            .worker_threads_num = 2,
            .prevoutfetch_threads_num = 2,
        };
        if (o.batch_bytes) cm.coins_view.batch_write_bytes = o.batch_bytes;
        node::BlockManager::Options bm{
            .chainparams = params,
            .use_xor = o.use_xor,
            .prune_target = o.prune == 0 ? 0 : (o.prune == 1 ? uint64_t{1} << 20 : node::BlockManager::PRUNE_TARGET_MANUAL),
            .fast_prune = true,
            .blocks_dir = o.dir / "blocks",
            .notifications = notif,
            .block_tree_db_params = DBParams{
                .path = o.dir / "blocks" / "index",
                .cache_bytes = static_cast<size_t>(caches.block_tree_db),
                .memory_only = false,
                .wipe_data = false,
            },
        };
        chainman = std::make_unique<ChainstateManager>(basic.m_interrupt, cm, bm);
        load_opts.mempool = nullptr;
        load_opts.coins_db_in_memory = false;
        load_opts.wipe_chainstate_db = false;
        load_opts.prune = chainman->m_blockman.IsPruneMode();
        load_opts.check_blocks = DEFAULT_CHECKBLOCKS;
        load_opts.check_level = DEFAULT_CHECKLEVEL;
        load_opts.require_full_verification = false; // as init does when -checkblocks/-checklevel are not given
    }

    void Shutdown()
    {
        if (!chainman) return;
        {
            LOCK(cs_main);
            for (const auto& cs : chainman->m_chainstates) {
                if (cs->CanFlushToDisk()) cs->ForceFlushStateToDisk();
            }
        }
        if (signals) signals->FlushBackgroundCallbacks();
        {
            LOCK(cs_main);
            for (const auto& cs : chainman->m_chainstates) {
                if (cs->CanFlushToDisk()) {
                    cs->ForceFlushStateToDisk();
                    cs->ResetCoinsViews();
                }
            }
        }
        chainman.reset();
        if (signals) signals->UnregisterValidationInterface(&journal);
    }
    ~Node() { Shutdown(); }
};

const char* StatusName(node::ChainstateLoadStatus s)
{
    switch (s) {
    case node::ChainstateLoadStatus::SUCCESS: return "SUCCESS";
    case node::ChainstateLoadStatus::FAILURE: return "FAILURE";
    case node::ChainstateLoadStatus::FAILURE_FATAL: return "FAILURE_FATAL";
    case node::ChainstateLoadStatus::FAILURE_INCOMPATIBLE_DB: return "FAILURE_INCOMPATIBLE_DB";
    case node::ChainstateLoadStatus::FAILURE_INSUFFICIENT_DBCACHE: return "FAILURE_INSUFFICIENT_DBCACHE";
    case node::ChainstateLoadStatus::INTERRUPTED: return "INTERRUPTED";
    }
    return "?";
}

// Start-up as init runs it. Throws std::runtime_error with the failing step on any non-success.
void StartNode(Node& n)
{
    n.MakeChainman();
    auto [st, err] = node::LoadChainstate(*n.chainman, n.caches, n.load_opts);
    if (st != node::ChainstateLoadStatus::SUCCESS) throw std::runtime_error(std::string("LoadChainstate: ") + StatusName(st) + " " + err.original);
    std::tie(st, err) = node::VerifyLoadedChainstate(*n.chainman, n.load_opts);
    if (st != node::ChainstateLoadStatus::SUCCESS) throw std::runtime_error(std::string("VerifyLoadedChainstate: ") + StatusName(st) + " " + err.original);
    BlockValidationState state;
    if (!n.chainman->ActiveChainstate().ActivateBestChain(state)) throw std::runtime_error("ActivateBestChain: " + state.ToString());
    if (!n.notif.fatal.empty()) throw std::runtime_error("fatal error notification: " + n.notif.fatal.front());
}

struct RecParams {
    int base_blocks;
    int run_steps;
    int prune;
    int maxtx;
};
RecParams RecOf(int rec, int64_t steps_override)
{
    RecParams p{};
    switch (rec) {
    case 1: p = {115, 150, 0, 10}; break;
    case 2: p = {115, 130, 0, 10}; break;
    default: p = {330, 170, 1, 24}; break;
    }
    if (steps_override > 0) p.run_steps = static_cast<int>(steps_override);
    return p;
}

constexpr uint64_t TINY_COINS_CACHE = 1 << 12;        // below one pool chunk: every IF_NEEDED check is "critical"
constexpr uint64_t LARGE_COINS_CACHE = uint64_t{64} << 20;

void Submit(Node& n, const BRec& r, bool expect_new = true)
{
    bool new_block = false;
    const bool ok = n.chainman->ProcessNewBlock(r.block, /*force_processing=*/true, /*min_pow_checked=*/true, &new_block);
    if (!ok || (expect_new && !new_block)) throw std::runtime_error("ProcessNewBlock refused a generated block " + r.hash.GetHex());
    if (!n.notif.fatal.empty()) throw std::runtime_error("fatal error notification during workload: " + n.notif.fatal.front());
}

uint256 NodeTip(Node& n)
{
    LOCK(cs_main);
    const CBlockIndex* t = n.chainman->ActiveChain().Tip();
    return t ? t->GetBlockHash() : uint256{};
}

} // namespace

VH_CMD(crashload)
{
    const std::string phase = args.gets("phase", "");
    const std::string dir = args.gets("dir", "");
    const int rec = static_cast<int>(args.geti("rec", 1));
    if (dir.empty() || (phase != "init" && phase != "run")) {
        std::fprintf(stderr, "crashload: need --p phase=init|run --p dir=PATH\n");
        return 2;
    }
    const RecParams rp = RecOf(rec, args.geti("steps", 0));
    const int64_t T0 = 1296688602 + 1000000; // regtest genesis time + margin
    SetMockTime(T0);

    NodeOpts o;
    o.dir = fs::PathFromString(dir);
    o.prune = rp.prune;
    o.journal = true;
    o.batch_bytes = static_cast<uint64_t>(args.geti("batch", 600));
    o.coinsdb_cache = static_cast<uint64_t>(args.geti("coinsdb_cache", 64 << 10));
    o.blocktree_cache = static_cast<uint64_t>(args.geti("blocktree_cache", 64 << 10));
    o.coins_cache = phase == "init" ? LARGE_COINS_CACHE : TINY_COINS_CACHE;

    if (phase == "init") fs::create_directories(o.dir / "blocks");
    Node n(o);
    Gen gen(Params(), args.seed, 1000 + rec);
    // time of block h is at most genesis + 4*h: keep the clock ahead of every block and behind the 2h future limit
    auto set_clock = [&] { SetMockTime(std::max<int64_t>(T0, gen.m_max_time + 60)); };

    if (phase == "init") {
        StartNode(n);
        uint256 tip = Params().GenesisBlock().GetHash();
        if (NodeTip(n) != tip) throw std::runtime_error("init: fresh datadir does not start at genesis");
        for (int i = 0; i < rp.base_blocks; ++i) {
            const BRec& r = gen.Build(tip, i >= 100 ? rp.maxtx : 0);
            Mark(BlockMark("B", r));
            set_clock();
            Submit(n, r);
            tip = r.hash;
            if (NodeTip(n) != tip) throw std::runtime_error("init: node did not connect a generated block");
            if (i % 40 == 39) {
                LOCK(cs_main);
                n.chainman->ActiveChainstate().ForceFlushStateToDisk();
            }
        }
        n.Shutdown();
        vh::log().rec(vh::J().u("case", 0).str("phase", "init").i("rec", rec).str("tip", tip.GetHex()).i("height", gen.Get(tip).height).str("uhash", gen.Get(tip).uhash).u("ucount", gen.Get(tip).ucount).i("now", GetTime()));
        return 0;
    }

    // ---- phase run: regenerate the base chain in the model only (same seed => same blocks), then restart the node on the directory
    uint256 tip = Params().GenesisBlock().GetHash();
    for (int i = 0; i < rp.base_blocks; ++i) tip = gen.Build(tip, i >= 100 ? rp.maxtx : 0).hash;
    set_clock();
    Mark("S restart");
    StartNode(n);
    if (NodeTip(n) != tip) throw std::runtime_error("run: base image tip differs from the regenerated base chain");
    Mark("E restart " + tip.GetHex());

    Chainstate& cs = n.chainman->ActiveChainstate();
    bool tiny = true;
    int since_flush = 0;
    auto set_cache = [&](bool t) {
        LOCK(cs_main);
        tiny = t;
        cs.m_coinstip_cache_size_bytes = t ? TINY_COINS_CACHE : LARGE_COINS_CACHE;
        Mark(std::string("O cache ") + (t ? "tiny" : "large"));
    };
    auto extend = [&](int count, int max_tx) {
        for (int i = 0; i < count; ++i) {
            const BRec& r = gen.Build(tip, max_tx);
            Mark(BlockMark("B", r));
            set_clock();
            Submit(n, r);
            tip = r.hash;
            if (NodeTip(n) != tip) throw std::runtime_error("run: node did not connect a generated block");
            ++since_flush;
        }
    };
    auto reorg = [&](int depth, int extra) {
        // competing branch from the ancestor `depth` below the tip, one block longer (+extra); the last submissions trigger the reorg
        uint256 fork = tip;
        for (int i = 0; i < depth; ++i) fork = gen.Get(fork).prev;
        Mark("S reorg " + std::to_string(depth));
        uint256 b = fork;
        for (int i = 0; i < depth + 1 + extra; ++i) {
            const BRec& r = gen.Build(b, rp.maxtx);
            Mark(BlockMark("B", r));
            set_clock();
            Submit(n, r);
            b = r.hash;
        }
        tip = b;
        if (NodeTip(n) != tip) throw std::runtime_error("run: node did not reorganise to the longer branch");
        Mark("E reorg " + std::to_string(depth));
        vh::log().obs("reorgs");
        vh::log().obs_max("reorg_depth", depth);
    };
    auto stale = [&](int depth) {
        // a shorter side branch: stored, never activated
        uint256 fork = tip;
        for (int i = 0; i < depth; ++i) fork = gen.Get(fork).prev;
        uint256 b = fork;
        const int len = 1 + static_cast<int>(gen.m_rng.below(depth));
        for (int i = 0; i < len; ++i) {
            const BRec& r = gen.Build(b, 4);
            Mark(BlockMark("B", r));
            set_clock();
            Submit(n, r);
            b = r.hash;
        }
        if (NodeTip(n) != tip) throw std::runtime_error("run: node left the active chain for a side branch with less work");
        vh::log().obs("stale_branches");
    };
    auto flush = [&](bool wipe) {
        Mark(std::string("S flush ") + (wipe ? "force_flush" : "force_sync"));
        {
            LOCK(cs_main);
            cs.ForceFlushStateToDisk(wipe);
        }
        Mark("E flush");
        since_flush = 0;
        vh::log().obs(wipe ? "forced_flushes" : "forced_syncs");
    };

    vh::Rng& rng = gen.m_rng;
    // weights: extend1, burst, reorg, stale, force_flush, force_sync, toggle cache, clock jump (periodic write), manual prune
    std::vector<uint32_t> w;
    if (rec == 1) w = {40, 14, 2, 1, 7, 5, 5, 2, 0};
    else if (rec == 2) w = {22, 8, 16, 6, 7, 5, 6, 2, 0};
    else w = {30, 22, 3, 1, 6, 4, 5, 2, 6};
    int reorgs_done = 0;
    for (int step = 0; step < rp.run_steps; ++step) {
        size_t op = rng.weighted(w);
        // R1 must contain at least two reorgs: force them at fixed steps if chance did not
        if (rec == 1 && reorgs_done < 2 && (step == rp.run_steps / 3 || step == (2 * rp.run_steps) / 3)) op = 2;
        switch (op) {
        case 0: extend(1, rp.maxtx); break;
        case 1: extend(2 + static_cast<int>(rng.below(4)), rp.maxtx); break;
        case 2: {
            const int depth = 2 + static_cast<int>(rng.below(rec == 1 ? 2 : 5));
            // in large-cache mode make sure the on-disk coins are at the old branch for part of the reorgs
            if (!tiny && rng.coin()) flush(rng.coin());
            reorg(depth, static_cast<int>(rng.below(2)));
            ++reorgs_done;
            break;
        }
        case 3: stale(1 + static_cast<int>(rng.below(3))); break;
        case 4: flush(true); break;
        case 5: flush(false); break;
        case 6: set_cache(!tiny); break;
        case 7: {
            // a clock jump makes the PERIODIC write at the end of the next ActivateBestChain step due
            gen.m_max_time += 2 * 3600;
            set_clock();
            Mark("O clock +2h");
            vh::log().obs("clock_jumps");
            break;
        }
        case 8: {
            int h;
            {
                LOCK(cs_main);
                h = n.chainman->ActiveChain().Height();
            }
            const int target = h - 288 - static_cast<int>(rng.below(40));
            if (target > 100) {
                Mark("S prune manual " + std::to_string(target));
                {
                    LOCK(cs_main);
                    PruneBlockFilesManual(cs, target);
                }
                Mark("E prune");
                vh::log().obs("manual_prunes");
            }
            break;
        }
        }
        if (!tiny && since_flush > 25) flush(rng.coin());
        if (!n.notif.fatal.empty() || !n.notif.flush.empty()) throw std::runtime_error("error notification during workload");
    }
    Mark("S shutdown");
    n.Shutdown();
    Mark("E shutdown");
    vh::log().rec(vh::J().u("case", 0).str("phase", "run").i("rec", rec).str("tip", tip.GetHex()).i("height", gen.Get(tip).height).str("uhash", gen.Get(tip).uhash).u("ucount", gen.Get(tip).ucount).i("now", GetTime()).u("blocks_built", gen.m_blocks.size()));
    return 0;
}

namespace {
// digest of the node's on-disk UTXO set, read through the coins DB cursor
bool DumpUtxo(Chainstate& cs, std::string& uhash, size_t& count, std::string& best)
{
    Ledger l;
    std::unique_ptr<CCoinsViewCursor> cur;
    {
        LOCK(cs_main);
        cur = cs.CoinsDB().Cursor();
    }
    if (!cur) return false;
    best = cur->GetBestBlock().GetHex();
    while (cur->Valid()) {
        COutPoint key;
        Coin coin;
        if (!cur->GetKey(key) || !cur->GetValue(coin)) return false;
        MCoin c{coin.out.nValue, static_cast<int32_t>(coin.nHeight), static_cast<bool>(coin.fCoinBase), std::vector<unsigned char>(coin.out.scriptPubKey.begin(), coin.out.scriptPubKey.end())};
        if (!l.emplace(KeyOf(key), std::move(c)).second) return false;
        cur->Next();
    }
    uhash = LedgerHash(l);
    count = l.size();
    return true;
}

void TipJson(vh::J& j, const char* prefix, ChainstateManager& cm)
{
    LOCK(cs_main);
    const CBlockIndex* t = cm.ActiveChain().Tip();
    const std::string p = prefix;
    if (!t) {
        j.null(p + "tip");
        return;
    }
    j.str(p + "tip", t->GetBlockHash().GetHex()).i(p + "height", t->nHeight).str(p + "work", t->nChainWork.GetHex());
}
} // namespace

// One image per invocation. Writes {"stage":...} lines as it goes so that an abort can be attributed to a step, then one result record.
VH_CMD(recover)
{
    const std::string dir = args.gets("dir", "");
    if (dir.empty()) return 2;
    SetMockTime(args.geti("now", 1296688602 + 2000000));
    NodeOpts o;
    o.dir = fs::PathFromString(dir);
    o.prune = static_cast<int>(args.geti("prune", 0));
    o.journal = false;
    // default cache sizes and default -dbbatchsize: a plain restart
    Node n(o);
    int replay_runs = 0, rollforward = 0, rollback = 0;
    std::string first_error, first_error_fn;
    auto cb = LogInstance().PushBackCallback([&](const std::string& s) {
        if (s.find("Replaying blocks") != std::string::npos) ++replay_runs;
        if (s.find("Rolling forward") != std::string::npos) ++rollforward;
        if (s.find("Rolling back") != std::string::npos) ++rollback;
        // first error line of the start-up: "... [Function] [error] text" -> names the failing site in violation keys
        const auto e = s.find("[error] ");
        if (e != std::string::npos && first_error.empty()) {
            first_error = s.substr(e + 8, 240);
            while (!first_error.empty() && first_error.back() == '\n') first_error.pop_back();
            const auto rb = s.rfind(']', e);
            const auto lb = rb == std::string::npos ? rb : s.rfind('[', rb);
            if (lb != std::string::npos && rb > lb) first_error_fn = s.substr(lb + 1, rb - lb - 1);
        }
    });
    vh::J res;
    res.u("case", args.from);
    std::string failed, detail;
    auto stage = [&](const char* s) { vh::log().line(vh::J().str("stage", s).done()); };
    try {
        stage("open");
        try {
            n.MakeChainman();
        } catch (const std::exception& e) {
            failed = "open";
            detail = e.what();
        }
        if (failed.empty()) {
            stage("load");
            try {
                auto [st, err] = node::LoadChainstate(*n.chainman, n.caches, n.load_opts);
                if (st != node::ChainstateLoadStatus::SUCCESS) {
                    failed = "load";
                    detail = std::string(StatusName(st)) + ": " + err.original;
                }
            } catch (const std::exception& e) {
                // init.cpp catches this and offers a reindex
                failed = "load";
                detail = std::string("exception: ") + e.what();
            }
        }
        if (failed.empty()) {
            stage("verify");
            try {
                auto [st, err] = node::VerifyLoadedChainstate(*n.chainman, n.load_opts);
                if (st != node::ChainstateLoadStatus::SUCCESS) {
                    failed = "verify";
                    detail = std::string(StatusName(st)) + ": " + err.original;
                }
            } catch (const std::exception& e) {
                failed = "verify";
                detail = std::string("exception: ") + e.what();
            }
        }
        if (failed.empty() && !n.notif.fatal.empty()) {
            failed = "fatal-notification";
            detail = n.notif.fatal.front();
        }
        if (failed.empty()) {
            stage("dump-before");
            Chainstate& cs = n.chainman->ActiveChainstate();
            size_t dirty;
            {
                LOCK(cs_main);
                dirty = cs.CoinsTip().GetDirtyCount();
                if (dirty) cs.ForceFlushStateToDisk(/*wipe_cache=*/false);
            }
            res.u("dirty_before", dirty);
            TipJson(res, "pre_", *n.chainman);
            std::string uh, best;
            size_t cnt = 0;
            if (!DumpUtxo(cs, uh, cnt, best)) {
                failed = "dump";
                detail = "coins cursor failed before ActivateBestChain";
            } else {
                res.str("pre_uhash", uh).u("pre_ucount", cnt).str("pre_best", best);
            }
        }
        if (failed.empty()) {
            stage("activate");
            BlockValidationState state;
            bool ok = false;
            try {
                ok = n.chainman->ActiveChainstate().ActivateBestChain(state);
            } catch (const std::exception& e) {
                failed = "activate";
                detail = std::string("exception: ") + e.what();
            }
            if (failed.empty() && !ok) {
                failed = "activate";
                detail = state.ToString();
            }
            if (failed.empty() && !n.notif.fatal.empty()) {
                failed = "activate";
                detail = "fatal error notification: " + n.notif.fatal.front();
            }
        }
        if (failed.empty()) {
            stage("dump-after");
            Chainstate& cs = n.chainman->ActiveChainstate();
            {
                LOCK(cs_main);
                cs.ForceFlushStateToDisk(/*wipe_cache=*/true);
            }
            TipJson(res, "post_", *n.chainman);
            std::string uh, best;
            size_t cnt = 0;
            if (!DumpUtxo(cs, uh, cnt, best)) {
                failed = "dump";
                detail = "coins cursor failed after ActivateBestChain";
            } else {
                res.str("post_uhash", uh).u("post_ucount", cnt).str("post_best", best);
            }
            if (failed.empty() && !n.notif.fatal.empty()) {
                failed = "flush-after-activate";
                detail = n.notif.fatal.front();
            }
        }
        stage("shutdown");
        n.Shutdown();
    } catch (...) {
        LogInstance().DeleteCallback(cb);
        throw;
    }
    LogInstance().DeleteCallback(cb);
    res.b("ok", failed.empty()).str("failed", failed).str("detail", detail).i("replay_runs", replay_runs).i("rollforward", rollforward).i("rollback", rollback)
        .u("flush_errors", n.notif.flush.size()).str("first_error", first_error).str("first_error_fn", first_error_fn);
    vh::log().rec(res);
    return 0;
}

// C17, third clause: a block whose stored bytes were corrupted is never connected. Per case: node on a real directory, chain with
// transactions; per trial: disconnect the last d blocks (InvalidateBlock), corrupt one stored byte of one of them, let the node
// reconnect (ResetBlockFailureFlags + ActivateBestChain), observe whether the victim ends up on the active chain; restore.
VH_CMD(corruptconnect)
{
    const int trials = static_cast<int>(args.geti("trials", 12));
    for (uint64_t c = args.from; c < args.to; ++c) {
        vh::set_case(c);
        SetMockTime(1296688602 + 1000000);
        NodeOpts o;
        o.journal = false;
        o.use_xor = c & 1;
        o.prune = 0;
        const char* tmp = std::getenv("TMPDIR");
        o.dir = fs::PathFromString(std::string(tmp ? tmp : "/var/tmp") + "/cc" + std::to_string(c) + "_" + std::to_string(::getpid()));
        fs::remove_all(o.dir);
        fs::create_directories(o.dir / "blocks");
        {
            Node n(o);
            Gen gen(Params(), args.seed, 5000 + c);
            StartNode(n);
            uint256 tip = Params().GenesisBlock().GetHash();
            const int nblocks = 104 + 10;
            for (int i = 0; i < nblocks; ++i) {
                const BRec& r = gen.Build(tip, i >= 100 ? 10 : 0);
                SetMockTime(gen.m_max_time + 60);
                Submit(n, r);
                tip = r.hash;
            }
            if (NodeTip(n) != tip) throw std::runtime_error("corruptconnect: chain not built");
            Chainstate& cs = n.chainman->ActiveChainstate();
            vh::Rng& rng = gen.m_rng;
            for (int t = 0; t < trials; ++t) {
                const int depth = 1 + static_cast<int>(rng.below(6));
                const int vdepth = static_cast<int>(rng.below(depth)); // victim: vdepth blocks below the tip
                CBlockIndex *first, *victim;
                FlatFilePos vpos;
                int tip_h;
                {
                    LOCK(cs_main);
                    CBlockIndex* t0 = n.chainman->ActiveChain().Tip();
                    tip_h = t0->nHeight;
                    first = t0->GetAncestor(tip_h - depth + 1);
                    victim = t0->GetAncestor(tip_h - vdepth);
                    vpos = victim->GetBlockPos();
                }
                const size_t vsize = ::GetSerializeSize(TX_WITH_WITNESS(*gen.Get(victim->GetBlockHash()).block));
                BlockValidationState st;
                if (!cs.InvalidateBlock(st, first)) throw std::runtime_error("corruptconnect: InvalidateBlock failed");
                {
                    LOCK(cs_main);
                    if (n.chainman->ActiveChain().Height() != tip_h - depth) throw std::runtime_error("corruptconnect: blocks not disconnected");
                }
                // region: 0 tx bytes, 1 header, 2 magic, 3 size field
                const uint64_t pick = rng.below(100);
                const int region = pick < 70 ? 0 : pick < 85 ? 1 : pick < 95 ? 2 : 3;
                uint64_t off; // relative to payload start
                switch (region) {
                case 0: off = 80 + rng.below(vsize - 80); break;
                case 1: off = rng.below(80); break;
                default: off = 0; break;
                }
                const uint64_t file_off = region == 2 ? vpos.nPos - 8 + rng.below(4) : region == 3 ? vpos.nPos - 4 + rng.below(4) : vpos.nPos + off;
                const std::string path = fs::PathToString(n.chainman->m_blockman.GetBlockPosFilename(vpos));
                int fd = ::open(path.c_str(), O_RDWR | O_CLOEXEC);
                unsigned char ob = 0;
                if (fd < 0 || ::pread(fd, &ob, 1, file_off) != 1) throw std::runtime_error("corruptconnect: cannot read block file");
                const unsigned char nb = ob ^ static_cast<unsigned char>(1u << rng.below(8));
                if (::pwrite(fd, &nb, 1, file_off) != 1) throw std::runtime_error("corruptconnect: cannot write block file");
                // reconnect attempt
                {
                    LOCK(cs_main);
                    cs.ResetBlockFailureFlags(first);
                    n.chainman->RecalculateBestHeader(); // as the reconsiderblock RPC does
                }
                BlockValidationState st2;
                const bool abc_ok = cs.ActivateBestChain(st2);
                bool connected;
                int after_h;
                {
                    LOCK(cs_main);
                    connected = n.chainman->ActiveChain().Contains(*victim);
                    after_h = n.chainman->ActiveChain().Height();
                }
                const size_t fatal = n.notif.fatal.size();
                const std::string fatal_msg = fatal ? n.notif.fatal.front() : "";
                // restore and let the node finish
                if (::pwrite(fd, &ob, 1, file_off) != 1) throw std::runtime_error("corruptconnect: cannot restore block file");
                ::close(fd);
                n.notif.fatal.clear();
                {
                    LOCK(cs_main);
                    cs.ResetBlockFailureFlags(first);
                    n.chainman->RecalculateBestHeader(); // as the reconsiderblock RPC does
                }
                BlockValidationState st3;
                const bool abc2 = cs.ActivateBestChain(st3);
                int final_h;
                {
                    LOCK(cs_main);
                    final_h = n.chainman->ActiveChain().Height();
                }
                static const char* RN[] = {"tx", "header", "magic", "size"};
                vh::log().rec(vh::J().u("case", c).i("trial", t).str("region", RN[region]).i("depth", depth).i("victim_height", tip_h - vdepth).u("off", off).u("block_size", vsize)
                                  .b("xor", o.use_xor).b("abc_ok", abc_ok).b("connected", connected).i("height_after", after_h).u("fatal", fatal).str("fatal_msg", fatal_msg)
                                  .str("state", st2.ToString()).b("restored", abc2 && final_h == tip_h && n.notif.fatal.empty()).str("sig", std::to_string(c) + "/" + std::to_string(t)));
                if (!(abc2 && final_h == tip_h)) throw std::runtime_error("corruptconnect: chain did not return to its tip after the byte was restored");
                vh::log().obs(std::string("connect_attempts_") + RN[region]);
            }
            n.Shutdown();
        }
        fs::remove_all(o.dir);
    }
    return 0;
}

// Re-emits the report written by checks/C16.py prepare() so that the standard driver pipeline sees it.
VH_CMD(crashreport)
{
    const std::string file = args.gets("file", "");
    std::ifstream in(file);
    if (file.empty() || !in) {
        std::fprintf(stderr, "crashreport: cannot read report file '%s'\n", file.c_str());
        return 3;
    }
    std::string line;
    int rc = 0;
    while (std::getline(in, line)) {
        if (line.empty()) continue;
        if (line.rfind("{\"inconclusive\"", 0) == 0) {
            std::fprintf(stderr, "crashreport: %s\n", line.c_str());
            rc = 3;
            continue;
        }
        vh::log().line(line);
    }
    return rc;
}
