// C49: cryptographic primitives, engine E5 (pure-function differential).
// Every command generates inputs from (seed, case), calls the real primitives, checks the streaming == one-shot and
// tamper-rejection clauses in-harness (online monitors) and logs input + output for the offline Python oracle
// (checks/C49.py with pyref/c49ref.py, hashlib, hmac and the vendored test framework).
#include <common/vh.h>

#include <crypto/aes.h>
#include <crypto/chacha20.h>
#include <crypto/chacha20poly1305.h>
#include <crypto/hkdf_sha256_32.h>
#include <crypto/hmac_sha256.h>
#include <crypto/hmac_sha512.h>
#include <crypto/muhash.h>
#include <crypto/poly1305.h>
#include <crypto/ripemd160.h>
#include <crypto/sha1.h>
#include <crypto/sha256.h>
#include <crypto/sha3.h>
#include <crypto/sha512.h>
#include <crypto/siphash.h>
#include <span.h>
#include <uint256.h>

#include <algorithm>
#include <cstring>
#include <string>
#include <vector>

namespace {
using Bytes = std::vector<unsigned char>;

std::span<const std::byte> BS(const Bytes& v) { return std::as_bytes(std::span<const unsigned char>(v.data(), v.size())); }
std::span<const std::byte> BS(const unsigned char* p, size_t n) { return std::as_bytes(std::span<const unsigned char>(p, n)); }
std::span<std::byte> WBS(Bytes& v) { return std::as_writable_bytes(std::span<unsigned char>(v.data(), v.size())); }
std::span<std::byte> WBS(unsigned char* p, size_t n) { return std::as_writable_bytes(std::span<unsigned char>(p, n)); }

std::string Q(const std::string& s) { return "\"" + s + "\""; }
std::string QH(const unsigned char* p, size_t n) { return "\"" + vh::Hex(p, n) + "\""; }
std::string QH(const Bytes& v) { return "\"" + vh::Hex(v.data(), v.size()) + "\""; }

// Length classes: every length 0..300 (cases 0, 8, 16, ... so that the exhaustive-chunking cases spread over all shards;
// covers the padding edges of 64-, 128- and 136-byte blocks twice over), lengths next to block multiples, uniform lengths.
size_t PickLen(vh::Rng& rng, uint64_t c, size_t maxlen)
{
    if (c % 8 == 0 && c / 8 <= 300) return std::min<size_t>(c / 8, maxlen);
    switch (rng.below(4)) {
    case 0: {
        static const size_t B[] = {64, 128, 136, 16};
        const size_t b = B[rng.below(4)];
        const size_t k = 1 + rng.below(maxlen / b);
        const int64_t l = static_cast<int64_t>(k * b) + rng.range(-9, 9);
        return static_cast<size_t>(std::clamp<int64_t>(l, 0, maxlen));
    }
    case 1: return rng.below(400);
    default: return rng.below(maxlen + 1);
    }
}

// A random chunking of [0, len): piece sizes biased to 0, 1, block edges and large pieces.
std::vector<size_t> RandChunks(vh::Rng& rng, size_t len)
{
    std::vector<size_t> r;
    size_t left = len;
    while (left) {
        size_t n;
        switch (rng.below(6)) {
        case 0: n = 0; break;
        case 1: n = 1; break;
        case 2: n = 63 + rng.below(3); break;
        case 3: n = 1 + rng.below(16); break;
        case 4: n = 1 + rng.below(left); break;
        default: n = 1 + rng.below(200); break;
        }
        n = std::min(n, left);
        r.push_back(n);
        left -= n;
    }
    if (rng.chance(1, 3)) r.push_back(0);
    return r;
}

// All chunkings with two cut points 0 <= i <= j <= len (three pieces, empty pieces included) for short messages,
// a handful of random chunkings otherwise. f(pieces) is called for each.
template <typename F>
uint64_t ForChunkings(vh::Rng& rng, size_t len, size_t exhaustive_upto, int nrandom, F f)
{
    uint64_t n = 0;
    if (len <= exhaustive_upto) {
        for (size_t i = 0; i <= len; ++i)
            for (size_t j = i; j <= len; ++j) {
                const size_t pc[3] = {i, j - i, len - j};
                f(pc, size_t{3});
                ++n;
            }
    } else {
        for (int k = 0; k < nrandom; ++k) {
            const std::vector<size_t> pc = RandChunks(rng, len);
            f(pc.data(), pc.size());
            ++n;
        }
    }
    return n;
}

struct Backend {
    sha256_implementation::UseImplementation use;
    const char* tag;
};
// USE_AVX2 / USE_SHANI alone select nothing beyond "standard" (both are detected only together with SSE4).
const Backend BACKENDS[] = {
    {sha256_implementation::STANDARD, "standard"},
    {sha256_implementation::USE_SSE4, "sse4"},
    {sha256_implementation::USE_SSE4_AND_AVX2, "sse4_avx2"},
    {sha256_implementation::USE_SSE4_AND_SHANI, "sse4_shani"},
    {sha256_implementation::USE_ALL, "all"},
};

void ObsBackend(const std::string& name)
{
    // name is what SHA256AutoDetect reports, e.g. "sse4(1way);sse41(4way);avx2(8way)"
    if (name.find("standard") != std::string::npos) vh::log().obs("backend_standard");
    if (name.find("sse4(1way)") != std::string::npos) vh::log().obs("backend_sse4");
    if (name.find("sse41(4way)") != std::string::npos) vh::log().obs("backend_sse41_4way");
    if (name.find("avx2(8way)") != std::string::npos) vh::log().obs("backend_avx2_8way");
    if (name.find("x86_shani") != std::string::npos) vh::log().obs("backend_x86_shani");
    if (name.find("arm_shani") != std::string::npos) vh::log().obs("backend_arm_shani");
}

// Adapters so that every hasher is driven through the same (pointer, length) streaming loop.
template <typename H>
struct PtrHasher {
    H h;
    static constexpr size_t OUT = H::OUTPUT_SIZE;
    void Reset() { h.Reset(); }
    void Write(const unsigned char* p, size_t n) { h.Write(p, n); }
    void Finalize(unsigned char* out) { h.Finalize(out); }
};
struct Sha3Hasher {
    SHA3_256 h;
    static constexpr size_t OUT = SHA3_256::OUTPUT_SIZE;
    void Reset() { h.Reset(); }
    void Write(const unsigned char* p, size_t n) { h.Write(std::span<const unsigned char>(p, n)); }
    void Finalize(unsigned char* out) { h.Finalize(std::span<unsigned char>(out, OUT)); }
};

const unsigned char DUMMY[1] = {0};
// never hand a null pointer to the primitives for empty inputs (memcpy(…, nullptr, 0) is the caller's fault)
const unsigned char* P(const Bytes& v) { return v.empty() ? DUMMY : v.data(); }

void StreamViolation(const char* what, const Bytes& msg, const size_t* pieces, size_t npieces, const Bytes& got, const Bytes& want)
{
    std::string p;
    for (size_t i = 0; i < npieces; ++i) p += std::to_string(pieces[i]) + ",";
    vh::log().violation(std::string("stream-mismatch:") + what, "chunked writes give a different result than one shot",
                        vh::J().str("primitive", what).hex("msg", msg).str("pieces", p).hex("got", got).hex("oneshot", want));
}
// One shot digest, then the same message through a re-used (Reset) hasher under every chunking of the plan.
template <typename HS>
Bytes HashAllWays(const char* what, const Bytes& msg, vh::Rng chunk_rng, size_t exh, uint64_t& nchunk)
{
    const size_t len = msg.size();
    Bytes one(HS::OUT);
    {
        HS h;
        h.Write(P(msg), len);
        h.Finalize(one.data());
    }
    HS reuse;
    unsigned char got[64];
    static_assert(HS::OUT <= sizeof(got));
    nchunk += ForChunkings(chunk_rng, len, exh, 6, [&](const size_t* pieces, size_t np) {
        reuse.Reset();
        size_t pos = 0;
        for (size_t i = 0; i < np; ++i) {
            reuse.Write(P(msg) + pos, pieces[i]);
            pos += pieces[i];
        }
        reuse.Finalize(got);
        if (std::memcmp(got, one.data(), HS::OUT) != 0) StreamViolation(what, msg, pieces, np, Bytes(got, got + HS::OUT), one);
    });
    return one;
}
} // namespace

// ---------------------------------------------------------------------------------------------------------------------------
// c49_hash: SHA-256 under every selectable backend, SHA-512, SHA-1, RIPEMD-160, SHA3-256; streaming == one shot; Reset().
VH_CMD(c49_hash)
{
    const size_t maxlen = args.geti("maxlen", 2000);
    const size_t exh = args.geti("exhaustive_upto", 130);
    for (uint64_t c = args.from; c < args.to; ++c) {
        vh::set_case(c);
        vh::Rng rng(args.seed, c);
        const size_t len = PickLen(rng, c, maxlen);
        const Bytes msg = rng.bytes(len);
        std::vector<std::string> impl_names, sha256_out;
        uint64_t nchunk = 0;
        const vh::Rng crng(args.seed ^ 0x5bd1e995, c); // the same chunkings for every backend and hasher
        for (const Backend& b : BACKENDS) {
            const std::string name = SHA256AutoDetect(b.use);
            ObsBackend(name);
            impl_names.push_back(Q(std::string(b.tag) + "=" + name));
            sha256_out.push_back(QH(HashAllWays<PtrHasher<CSHA256>>("sha256", msg, crng, exh, nchunk)));
        }
        SHA256AutoDetect(sha256_implementation::USE_ALL);
        vh::J j;
        j.u("case", c).str("f", "hash").hex("msg", msg).raw("impl", vh::JArr(impl_names)).raw("sha256", vh::JArr(sha256_out));
        j.hex("sha512", HashAllWays<PtrHasher<CSHA512>>("sha512", msg, crng, exh, nchunk));
        j.hex("sha1", HashAllWays<PtrHasher<CSHA1>>("sha1", msg, crng, exh, nchunk));
        j.hex("rmd160", HashAllWays<PtrHasher<CRIPEMD160>>("ripemd160", msg, crng, exh, nchunk));
        j.hex("sha3", HashAllWays<Sha3Hasher>("sha3_256", msg, crng, exh, nchunk));
        j.u("nchunk", nchunk);
        vh::log().obs("chunkings_compared", nchunk);
        vh::log().rec(j);
    }
    return 0;
}

// ---------------------------------------------------------------------------------------------------------------------------
// c49_d64: SHA256D64 (double-SHA256 of 64-byte blobs, batch path) for batch widths 1..N under every backend,
// aligned and unaligned buffers.
VH_CMD(c49_d64)
{
    static const size_t WIDTHS[] = {1, 2, 3, 4, 5, 6, 7, 8, 9, 10, 11, 12, 13, 14, 15, 16, 17, 23, 24, 25, 31, 32, 33, 47, 64, 100};
    for (uint64_t c = args.from; c < args.to; ++c) {
        vh::set_case(c);
        vh::Rng rng(args.seed, c);
        const size_t blocks = WIDTHS[c % (sizeof(WIDTHS) / sizeof(WIDTHS[0]))];
        Bytes in = rng.bytes(64 * blocks);
        if (rng.chance(1, 8)) std::fill(in.begin(), in.end(), static_cast<unsigned char>(rng.chance(1, 2) ? 0x00 : 0xff));
        std::vector<std::string> impl_names, outs;
        for (const Backend& b : BACKENDS) {
            const std::string name = SHA256AutoDetect(b.use);
            ObsBackend(name);
            Bytes out(32 * blocks);
            SHA256D64(out.data(), in.data(), blocks);
            // same through buffers at odd offsets
            Bytes in2(64 * blocks + 1), out2(32 * blocks + 3);
            std::memcpy(in2.data() + 1, in.data(), in.size());
            SHA256D64(out2.data() + 3, in2.data() + 1, blocks);
            if (std::memcmp(out2.data() + 3, out.data(), out.size()) != 0) {
                vh::log().violation("d64-unaligned-mismatch", "SHA256D64 depends on buffer alignment", vh::J().str("impl", name).u("blocks", blocks).hex("in", in));
            }
            impl_names.push_back(Q(std::string(b.tag) + "=" + name));
            outs.push_back(QH(out));
            vh::log().obs("d64_batches");
        }
        SHA256AutoDetect(sha256_implementation::USE_ALL);
        vh::log().obs_max("d64_width", static_cast<int64_t>(blocks));
        vh::log().rec(vh::J().u("case", c).str("f", "d64").u("blocks", blocks).hex("in", in).raw("impl", vh::JArr(impl_names)).raw("out", vh::JArr(outs)));
    }
    return 0;
}

// ---------------------------------------------------------------------------------------------------------------------------
// c49_mac: HMAC-SHA256/512, HKDF-HMAC-SHA256-L32, SipHash (general, presalted uint256 forms, 1-3-UJ variant), Poly1305.
namespace {
size_t PickKeyLen(vh::Rng& rng, uint64_t c)
{
    static const size_t K[] = {0, 1, 2, 31, 32, 33, 63, 64, 65, 127, 128, 129, 130, 200};
    if (rng.chance(2, 3)) return K[(c + rng.below(3)) % (sizeof(K) / sizeof(K[0]))];
    return rng.below(300);
}
} // namespace

VH_CMD(c49_mac)
{
    const size_t maxlen = args.geti("maxlen", 2000);
    for (uint64_t c = args.from; c < args.to; ++c) {
        vh::set_case(c);
        vh::Rng rng(args.seed, c);
        const size_t len = PickLen(rng, c, maxlen);
        const Bytes msg = rng.bytes(len);
        const Bytes key = rng.bytes(PickKeyLen(rng, c));
        uint64_t nchunk = 0;
        vh::J j;
        j.u("case", c).str("f", "mac").hex("msg", msg).hex("key", key);
        // HMACs (under the node's default SHA-256 backend selection)
        {
            Bytes one(32);
            CHMAC_SHA256(P(key), key.size()).Write(P(msg), msg.size()).Finalize(one.data());
            j.hex("hmac256", one);
            nchunk += ForChunkings(rng, len, 40, 4, [&](const size_t* pieces, size_t np) {
                CHMAC_SHA256 h(P(key), key.size());
                Bytes got(32);
                size_t pos = 0;
                for (size_t i = 0; i < np; ++i) { h.Write(P(msg) + pos, pieces[i]); pos += pieces[i]; }
                h.Finalize(got.data());
                if (got != one) StreamViolation("hmac_sha256", msg, pieces, np, got, one);
            });
        }
        {
            Bytes one(64);
            CHMAC_SHA512(P(key), key.size()).Write(P(msg), msg.size()).Finalize(one.data());
            j.hex("hmac512", one);
            nchunk += ForChunkings(rng, len, 40, 4, [&](const size_t* pieces, size_t np) {
                CHMAC_SHA512 h(P(key), key.size());
                Bytes got(64);
                size_t pos = 0;
                for (size_t i = 0; i < np; ++i) { h.Write(P(msg) + pos, pieces[i]); pos += pieces[i]; }
                h.Finalize(got.data());
                if (got != one) StreamViolation("hmac_sha512", msg, pieces, np, got, one);
            });
        }
        // HKDF: ikm = msg, salt = key, info up to the 128 bytes the interface allows
        {
            const Bytes info = rng.bytes(rng.chance(1, 4) ? 128 - rng.below(2) : rng.below(129));
            CHKDF_HMAC_SHA256_L32 hk(P(msg), msg.size(), std::string(key.begin(), key.end()));
            Bytes okm(32), okm2(32);
            hk.Expand32(std::string(info.begin(), info.end()), okm.data());
            hk.Expand32(std::string(info.begin(), info.end()), okm2.data());
            if (okm != okm2) vh::log().violation("hkdf-not-repeatable", "Expand32 twice gives different output", vh::J().hex("ikm", msg).hex("salt", key));
            j.hex("hkdf_info", info).hex("hkdf", okm);
        }
        // SipHash-2-4, general hasher: one shot, chunked, and through the uint64 interface where 8-byte aligned
        {
            const uint64_t k0 = rng.next(), k1 = rng.next();
            const uint64_t one = CSipHasher(k0, k1).Write(std::span<const unsigned char>(msg)).Finalize();
            nchunk += ForChunkings(rng, len, 40, 4, [&](const size_t* pieces, size_t np) {
                CSipHasher h(k0, k1);
                size_t pos = 0;
                for (size_t pi = 0; pi < np; ++pi) {
                    const size_t n = pieces[pi];
                    if (n == 8 && pos % 8 == 0) {
                        uint64_t w = 0;
                        for (int i = 0; i < 8; ++i) w |= uint64_t{msg[pos + i]} << (8 * i);
                        h.Write(w);
                    } else {
                        h.Write(std::span<const unsigned char>(msg.data() + pos, n));
                    }
                    pos += n;
                }
                const uint64_t mid = h.Finalize(); // Finalize leaves the object untouched
                if (h.Finalize() != mid || mid != one) {
                    Bytes g(8), w(8);
                    std::memcpy(g.data(), &mid, 8);
                    std::memcpy(w.data(), &one, 8);
                    StreamViolation("siphash24", msg, pieces, np, g, w);
                }
            });
            if (len >= 8) {
                // whole message through Write(uint64_t) for the aligned prefix
                CSipHasher h(k0, k1);
                size_t pos = 0;
                for (; pos + 8 <= len; pos += 8) {
                    uint64_t w = 0;
                    for (int i = 0; i < 8; ++i) w |= uint64_t{msg[pos + i]} << (8 * i);
                    h.Write(w);
                }
                h.Write(std::span<const unsigned char>(msg.data() + pos, len - pos));
                ++nchunk;
                if (h.Finalize() != one) vh::log().violation("stream-mismatch:siphash24-u64", "Write(uint64_t) path differs from byte path", vh::J().hex("msg", msg).u("k0", k0).u("k1", k1));
            }
            // presalted uint256 forms and the 1-3-UJ variant on a 32-byte value (+ extra word)
            Bytes v32 = rng.bytes(32);
            if (rng.chance(1, 8)) std::fill(v32.begin(), v32.end(), static_cast<unsigned char>(rng.chance(1, 2) ? 0 : 0xff));
            const uint256 val{std::span<const unsigned char>(v32)};
            const uint32_t extra = rng.chance(1, 4) ? (rng.chance(1, 2) ? 0u : 0xffffffffu) : static_cast<uint32_t>(rng.next());
            const PresaltedSipHasher ps(k0, k1);
            // 1-3-UJ: a random prefix of normal / jumbo blocks, then the three ways to finish
            SipHasher13UJ uj(k0, k1);
            std::vector<std::string> ops;
            const int nops = static_cast<int>(rng.below(5));
            for (int i = 0; i < nops; ++i) {
                if (rng.coin()) {
                    const uint64_t w = rng.next();
                    uj.Write(w);
                    ops.push_back(std::to_string(w));
                } else {
                    const Bytes jb = rng.bytes(32);
                    uj.WriteJumbo(uint256{std::span<const unsigned char>(jb)});
                    ops.push_back(QH(jb));
                }
            }
            const uint64_t uj_fin = uj.Finalize();
            const uint64_t uj_h = uj.Hash(val);
            const uint64_t uj_he = uj.Hash(val, extra);
            if (uj.Finalize() != uj_fin) vh::log().violation("siphash13uj-finalize-mutates", "Finalize/Hash changed the accumulated state", vh::J().u("k0", k0).u("k1", k1));
            {
                SipHasher13UJ a = uj, b = uj;
                a.WriteJumbo(val);
                b.WriteJumbo(val).Write(uint64_t{extra});
                if (a.Finalize() != uj_h || b.Finalize() != uj_he) vh::log().violation("siphash13uj-hash-vs-write", "Hash() overloads differ from WriteJumbo/Write + Finalize", vh::J().u("k0", k0).u("k1", k1).hex("val", v32).u("extra", extra));
            }
            j.str("k0", std::to_string(k0)).str("k1", std::to_string(k1)).str("sip", std::to_string(one))
                .hex("v32", v32).u("extra", extra).str("sip_u256", std::to_string(ps(val))).str("sip_u256x", std::to_string(ps(val, extra)))
                .raw("uj_ops", vh::JArr(ops)).str("uj_fin", std::to_string(uj_fin)).str("uj_h", std::to_string(uj_h)).str("uj_he", std::to_string(uj_he));
        }
        // Poly1305 with a 32-byte key: clamped r / s edge keys now and then
        {
            Bytes pk = rng.bytes(32);
            const uint64_t kc = rng.below(8);
            if (kc == 0) std::fill(pk.begin(), pk.end(), 0xff);
            if (kc == 1) std::fill(pk.begin(), pk.begin() + 16, 0x00);
            if (kc == 2) std::fill(pk.begin() + 16, pk.end(), 0xff);
            Bytes pmsg = msg;
            if (rng.chance(1, 6)) std::fill(pmsg.begin(), pmsg.end(), 0xff);
            Bytes one(16);
            Poly1305(BS(pk)).Update(BS(pmsg)).Finalize(WBS(one));
            nchunk += ForChunkings(rng, len, 40, 4, [&](const size_t* pieces, size_t np) {
                Poly1305 p(BS(pk));
                size_t pos = 0;
                for (size_t i = 0; i < np; ++i) { p.Update(BS(P(pmsg) + pos, pieces[i])); pos += pieces[i]; }
                Bytes got(16);
                p.Finalize(WBS(got));
                if (got != one) StreamViolation("poly1305", pmsg, pieces, np, got, one);
            });
            j.hex("poly_key", pk).hex("poly_msg", pmsg).hex("poly", one);
        }
        j.u("nchunk", nchunk);
        vh::log().obs("chunkings_compared", nchunk);
        vh::log().rec(j);
    }
    return 0;
}

// ---------------------------------------------------------------------------------------------------------------------------
// c49_cipher: ChaCha20 (seek / keystream / crypt / chunking / aligned variant), FSChaCha20, AES-256 block, AES-256-CBC.
VH_CMD(c49_cipher)
{
    const size_t maxlen = args.geti("maxlen", 2000);
    for (uint64_t c = args.from; c < args.to; ++c) {
        vh::set_case(c);
        vh::Rng rng(args.seed, c);
        vh::J j;
        j.u("case", c).str("f", "cipher");
        uint64_t nchunk = 0;
        // --- ChaCha20
        {
            const size_t len = PickLen(rng, c, maxlen);
            const Bytes msg = rng.bytes(len);
            const Bytes key = rng.bytes(32);
            const uint32_t n1 = rng.chance(1, 4) ? (rng.coin() ? 0u : 0xffffffffu) : static_cast<uint32_t>(rng.next());
            const uint64_t n2 = rng.chance(1, 4) ? (rng.coin() ? 0ull : ~0ull) : rng.next();
            const uint64_t nblocks = (len + 63) / 64;
            uint32_t ctr;
            switch (rng.below(4)) {
            case 0: ctr = 0; break;
            case 1: ctr = 1; break;
            case 2: ctr = static_cast<uint32_t>((uint64_t{1} << 32) - std::max<uint64_t>(nblocks, 1) - rng.below(2)); break; // last block used is 2^32-1 (or -2)
            default: ctr = static_cast<uint32_t>(rng.below((uint64_t{1} << 32) - nblocks)); break;
            }
            ChaCha20 cc(BS(key));
            cc.Seek({n1, n2}, ctr);
            Bytes ct(len);
            cc.Crypt(BS(msg), WBS(ct));
            // Keystream == Crypt of zeros; Seek re-positions
            cc.Seek({n1, n2}, ctr);
            Bytes ks(len);
            cc.Keystream(WBS(ks));
            for (size_t i = 0; i < len; ++i) {
                if ((ks[i] ^ msg[i]) != ct[i]) {
                    vh::log().violation("chacha20-keystream-vs-crypt", "Keystream() and Crypt() disagree", vh::J().hex("key", key).u("n1", n1).str("n2", std::to_string(n2)).u("ctr", ctr).u("len", len).u("at", i));
                    break;
                }
            }
            nchunk += ForChunkings(rng, len, 0, 5, [&](const size_t* pieces, size_t np) {
                ChaCha20 c2(BS(rng.bytes(32)));
                c2.SetKey(BS(key)); // SetKey resets position; Seek afterwards
                c2.Seek({n1, n2}, ctr);
                Bytes got(len);
                size_t pos = 0;
                bool use_ks = false;
                for (size_t pi = 0; pi < np; ++pi) {
                    const size_t n = pieces[pi];
                    if (use_ks) {
                        Bytes k(n);
                        c2.Keystream(WBS(k));
                        for (size_t i = 0; i < n; ++i) got[pos + i] = k[i] ^ msg[pos + i];
                    } else {
                        c2.Crypt(BS(msg.data() + pos, n), WBS(got.data() + pos, n));
                    }
                    use_ks = !use_ks;
                    pos += n;
                }
                if (got != ct) StreamViolation("chacha20", msg, pieces, np, got, ct);
            });
            if (len % 64 == 0 && len) {
                ChaCha20Aligned al(BS(key));
                al.Seek({n1, n2}, ctr);
                Bytes got(len);
                al.Crypt(BS(msg), WBS(got));
                ++nchunk;
                if (got != ct) vh::log().violation("chacha20-aligned-mismatch", "ChaCha20Aligned differs from ChaCha20", vh::J().hex("key", key).u("len", len));
            }
            j.raw("chacha", vh::J().hex("key", key).u("n1", n1).str("n2", std::to_string(n2)).u("ctr", ctr).hex("msg", msg).hex("ct", ct).done());
        }
        // --- FSChaCha20: a sequence of chunks crossing rekey points
        {
            static const uint32_t IV[] = {1, 2, 3, 5, 224};
            const uint32_t interval = IV[rng.below(5)];
            const Bytes key = rng.bytes(32);
            FSChaCha20 fs(BS(key), interval);
            const int nch = interval == 224 ? (rng.chance(1, 10) ? 230 : 6) : static_cast<int>(3 + rng.below(10));
            std::vector<std::string> ins, outs;
            for (int i = 0; i < nch; ++i) {
                const size_t n = interval == 224 ? rng.below(8) : (rng.chance(1, 5) ? 0 : rng.below(150));
                const Bytes in = rng.bytes(n);
                Bytes out(n);
                fs.Crypt(BS(in), WBS(out));
                ins.push_back(QH(in));
                outs.push_back(QH(out));
            }
            if (static_cast<uint32_t>(nch) >= interval) vh::log().obs("fschacha20_rekeys", nch / interval);
            j.raw("fs", vh::J().hex("key", key).u("interval", interval).raw("in", vh::JArr(ins)).raw("out", vh::JArr(outs)).done());
        }
        // --- AES-256 single block
        {
            const Bytes key = rng.bytes(32);
            Bytes blk = rng.bytes(16);
            if (rng.chance(1, 8)) std::fill(blk.begin(), blk.end(), static_cast<unsigned char>(rng.coin() ? 0 : 0xff));
            Bytes enc(16), dec(16), back(16);
            AES256Encrypt e(key.data());
            AES256Decrypt d(key.data());
            e.Encrypt(enc.data(), blk.data());
            d.Decrypt(dec.data(), blk.data());
            d.Decrypt(back.data(), enc.data());
            if (back != blk) vh::log().violation("aes-roundtrip", "Decrypt(Encrypt(x)) != x", vh::J().hex("key", key).hex("block", blk));
            j.raw("aes", vh::J().hex("key", key).hex("block", blk).hex("enc", enc).hex("dec", dec).done());
        }
        // --- AES-256-CBC with and without PKCS#7 padding; decryption of own, tampered and random ciphertexts
        {
            const Bytes key = rng.bytes(32), iv = rng.bytes(16);
            const bool pad = !rng.chance(1, 4);
            size_t len = rng.chance(1, 10) ? 1 + rng.below(1000) : 1 + rng.below(100);
            if (rng.chance(1, 3)) len = 16 * (1 + rng.below(6));
            if (!pad && rng.chance(3, 4)) len = 16 * (1 + len / 16);
            const Bytes data = rng.bytes(len);
            Bytes enc(len + 16);
            const int n = AES256CBCEncrypt(key.data(), iv.data(), pad).Encrypt(data.data(), static_cast<int>(len), enc.data());
            enc.resize(n);
            vh::J a;
            a.hex("key", key).hex("iv", iv).b("pad", pad).hex("data", data).i("enc_n", n).hex("enc", enc);
            if (n > 0) {
                Bytes back(n);
                const int m = AES256CBCDecrypt(key.data(), iv.data(), pad).Decrypt(enc.data(), n, back.data());
                back.resize(m);
                if (back != data) vh::log().violation("cbc-roundtrip", "CBC Decrypt(Encrypt(x)) != x", vh::J().hex("key", key).hex("iv", iv).b("pad", pad).hex("data", data));
                vh::log().obs("cbc_roundtrips");
            } else {
                vh::log().obs("cbc_unpadded_partial_refused");
            }
            // a ciphertext to decrypt: tampered own one (last/previous block, which hits the padding), random, or bad length
            Bytes ct;
            const uint64_t k = rng.below(5);
            if (k <= 2 && n > 0) {
                ct = enc;
                const size_t at = k == 0 ? ct.size() - 1 - rng.below(16) : (k == 1 && ct.size() >= 32 ? ct.size() - 17 - rng.below(16) : rng.below(ct.size()));
                ct[at] ^= static_cast<unsigned char>(1u << rng.below(8));
            } else if (k == 3) {
                ct = rng.bytes(16 * (1 + rng.below(4)));
            } else {
                ct = rng.bytes(1 + rng.below(70));
            }
            Bytes out(ct.size() + 16);
            const int m = AES256CBCDecrypt(key.data(), iv.data(), pad).Decrypt(ct.data(), static_cast<int>(ct.size()), out.data());
            out.resize(m);
            if (pad && m == 0) vh::log().obs("cbc_bad_padding_rejected");
            a.hex("ct2", ct).i("dec2_n", m).hex("dec2", out);
            j.raw("cbc", a.done());
        }
        j.u("nchunk", nchunk);
        vh::log().obs("chunkings_compared", nchunk);
        vh::log().rec(j);
    }
    return 0;
}

// ---------------------------------------------------------------------------------------------------------------------------
// c49_aead: AEADChaCha20Poly1305 (RFC 8439) incl. split plaintext interface, single-bit tampering of ciphertext / tag / AAD,
// FSChaCha20Poly1305 packet sequences across rekeying with a second instance decrypting.
VH_CMD(c49_aead)
{
    for (uint64_t c = args.from; c < args.to; ++c) {
        vh::set_case(c);
        vh::Rng rng(args.seed, c);
        vh::J j;
        j.u("case", c).str("f", "aead");
        {
            const Bytes key = rng.bytes(32);
            const uint32_t n1 = rng.chance(1, 4) ? (rng.coin() ? 0u : 0xffffffffu) : static_cast<uint32_t>(rng.next());
            const uint64_t n2 = rng.chance(1, 4) ? (rng.coin() ? 0ull : ~0ull) : rng.next();
            const AEADChaCha20Poly1305::Nonce96 nonce{n1, n2};
            size_t plen = (c % 4 == 0 && c / 4 <= 140) ? c / 4 : (rng.chance(1, 8) ? rng.below(2001) : rng.below(300));
            size_t alen = rng.chance(1, 4) ? 0 : (rng.chance(1, 3) ? 16 * rng.below(4) : rng.below(70));
            const Bytes plain = rng.bytes(plen), aad = rng.bytes(alen);
            const size_t split = rng.below(plen + 1);
            AEADChaCha20Poly1305 aead(BS(rng.bytes(32)));
            aead.SetKey(BS(key));
            Bytes ct(plen + 16);
            if (rng.coin()) {
                aead.Encrypt(BS(plain), BS(aad), nonce, WBS(ct));
            } else {
                aead.Encrypt(BS(plain.data(), split), BS(plain.data() + split, plen - split), BS(aad), nonce, WBS(ct));
            }
            // decrypt (split output) must succeed and give the plaintext back
            {
                Bytes back(plen);
                const size_t s2 = rng.below(plen + 1);
                const bool ok = aead.Decrypt(BS(ct), BS(aad), nonce, WBS(back.data(), s2), WBS(back.data() + s2, plen - s2));
                if (!ok || back != plain) vh::log().violation("aead-roundtrip", "Decrypt(Encrypt(x)) fails or differs", vh::J().hex("key", key).hex("plain", plain).hex("aad", aad).b("ok", ok));
            }
            // keystream interface == ciphertext of zeros
            {
                Bytes ks(plen);
                aead.Keystream(nonce, WBS(ks));
                for (size_t i = 0; i < plen; ++i) {
                    if ((ks[i] ^ plain[i]) != ct[i]) {
                        vh::log().violation("aead-keystream", "Keystream() differs from the encryption stream", vh::J().hex("key", key).u("at", i));
                        break;
                    }
                }
            }
            // single-bit tampering: every bit when small, else all tag bits + random positions
            const size_t total_bits = (ct.size() + aad.size()) * 8;
            std::vector<size_t> bits;
            if (ct.size() + aad.size() <= 160) {
                for (size_t b = 0; b < total_bits; ++b) bits.push_back(b);
            } else {
                for (size_t b = plen * 8; b < ct.size() * 8; ++b) bits.push_back(b);
                for (int i = 0; i < 96; ++i) bits.push_back(rng.below(total_bits));
            }
            std::vector<std::string> tampers;
            uint64_t rejected = 0;
            for (size_t b : bits) {
                Bytes ct2 = ct, aad2 = aad;
                const bool in_ct = b < ct.size() * 8;
                if (in_ct) ct2[b / 8] ^= static_cast<unsigned char>(1u << (b % 8));
                else aad2[(b - ct.size() * 8) / 8] ^= static_cast<unsigned char>(1u << (b % 8));
                Bytes out(plen);
                const bool ok = aead.Decrypt(BS(ct2), BS(aad2), nonce, WBS(out));
                if (ok) {
                    vh::log().violation("aead-tamper-accepted", "decryption succeeded after a single-bit change", vh::J().hex("key", key).hex("ct", ct2).hex("aad", aad2).u("bit", b).str("where", !in_ct ? "aad" : (b >= plen * 8 ? "tag" : "ciphertext")));
                } else {
                    ++rejected;
                    vh::log().obs(!in_ct ? "tamper_aad_rejected" : (b >= plen * 8 ? "tamper_tag_rejected" : "tamper_ct_rejected"));
                }
                if (tampers.size() < 3 && rng.chance(1, 1 + bits.size() / 3)) {
                    tampers.push_back(vh::J().hex("ct", ct2).hex("aad", aad2).b("ok", ok).done());
                }
            }
            // other nonce / other key must not authenticate
            {
                Bytes out(plen);
                if (aead.Decrypt(BS(ct), BS(aad), {n1 ^ 1u, n2}, WBS(out))) vh::log().violation("aead-wrong-nonce-accepted", "decryption succeeded under another nonce", vh::J().hex("key", key));
                else vh::log().obs("wrong_nonce_rejected");
            }
            j.raw("aead", vh::J().hex("key", key).u("n1", n1).str("n2", std::to_string(n2)).hex("plain", plain).hex("aad", aad).hex("ct", ct)
                              .u("tampered", bits.size()).u("rejected", rejected).raw("tampers", vh::JArr(tampers)).done());
        }
        // FSChaCha20Poly1305
        {
            static const uint32_t IV[] = {1, 2, 3, 4, 7, 224};
            const uint32_t interval = IV[rng.below(6)];
            const Bytes key = rng.bytes(32);
            FSChaCha20Poly1305 enc(BS(key), interval), dec(BS(key), interval);
            const int npk = interval == 224 ? (rng.chance(1, 8) ? 230 : 5) : static_cast<int>(3 + rng.below(10));
            std::vector<std::string> pk;
            for (int i = 0; i < npk; ++i) {
                const size_t plen = interval == 224 ? rng.below(6) : (rng.chance(1, 6) ? 0 : rng.below(120));
                const Bytes plain = rng.bytes(plen), aad = rng.bytes(rng.chance(1, 2) ? 0 : rng.below(20));
                Bytes ct(plen + 16);
                const size_t split = rng.below(plen + 1);
                enc.Encrypt(BS(plain.data(), split), BS(plain.data() + split, plen - split), BS(aad), WBS(ct));
                Bytes recv = ct;
                const bool tamper = rng.chance(1, 6);
                if (tamper) recv[rng.below(recv.size())] ^= static_cast<unsigned char>(1u << rng.below(8));
                Bytes out(plen);
                const bool ok = dec.Decrypt(BS(recv), BS(aad), WBS(out));
                if (tamper && ok) vh::log().violation("fsaead-tamper-accepted", "FSChaCha20Poly1305 accepted a modified packet", vh::J().hex("key", key).i("packet", i));
                if (!tamper && (!ok || out != plain)) vh::log().violation("fsaead-roundtrip", "second instance cannot decrypt packet", vh::J().hex("key", key).u("interval", interval).i("packet", i));
                if (tamper && !ok) vh::log().obs("fs_tamper_rejected");
                pk.push_back(vh::J().hex("plain", plain).hex("aad", aad).hex("ct", ct).hex("recv", recv).b("ok", ok).done());
            }
            if (static_cast<uint32_t>(npk) >= interval) vh::log().obs("fsaead_rekeys", npk / interval);
            j.raw("fsaead", vh::J().hex("key", key).u("interval", interval).raw("packets", vh::JArr(pk)).done());
        }
        vh::log().rec(j);
    }
    return 0;
}

// ---------------------------------------------------------------------------------------------------------------------------
// c49_muhash: MuHash3072 insert / remove / combine in different orders; Num3072 multiply / divide at the modulus edge.
VH_CMD(c49_muhash)
{
    for (uint64_t c = args.from; c < args.to; ++c) {
        vh::set_case(c);
        vh::Rng rng(args.seed, c);
        vh::J j;
        j.u("case", c).str("f", "muhash");
        const int n = static_cast<int>(1 + rng.below(6));
        std::vector<Bytes> elems;
        std::vector<bool> removed;
        for (int i = 0; i < n; ++i) {
            elems.push_back(rng.bytes(rng.chance(1, 5) ? 0 : rng.below(100)));
            removed.push_back(rng.chance(1, 3));
        }
        auto apply = [&](MuHash3072& m, int i) {
            if (removed[i]) m.Remove(elems[i]);
            else m.Insert(elems[i]);
        };
        MuHash3072 a;
        for (int i = 0; i < n; ++i) apply(a, i);
        uint256 da;
        a.Finalize(da);
        // another order
        std::vector<int> order(n);
        for (int i = 0; i < n; ++i) order[i] = i;
        rng.shuffle(order);
        MuHash3072 b;
        for (int i : order) apply(b, i);
        uint256 db;
        b.Finalize(db);
        // two halves combined with *= ; removal expressed as /= of a singleton
        MuHash3072 h1, h2;
        for (int i = 0; i < n; ++i) {
            MuHash3072& t = (i % 2) ? h1 : h2;
            if (removed[i]) t /= MuHash3072(elems[i]);
            else t *= MuHash3072(elems[i]);
        }
        h1 *= h2;
        uint256 dc;
        h1.Finalize(dc);
        if (da != db || da != dc) {
            vh::log().violation("muhash-order-dependent", "MuHash3072 result depends on operation order / grouping", vh::J().str("a", da.ToString()).str("b", db.ToString()).str("c", dc.ToString()));
        }
        vh::log().obs("muhash_orders_compared", 2);
        std::vector<std::string> el;
        for (int i = 0; i < n; ++i) el.push_back(vh::J().hex("d", elems[i]).b("rm", removed[i]).done());
        j.raw("elems", vh::JArr(el)).hex("digest", std::span<const unsigned char>(da.begin(), 32));
        // Num3072 at the edges of the modulus 2^3072 - 1103717
        {
            auto pick = [&]() {
                Bytes v(384, 0);
                const uint64_t k = rng.below(7);
                auto set_mod_minus = [&](uint64_t d) { // 2^3072 - d, d < 2^32
                    std::fill(v.begin(), v.end(), 0xff);
                    const uint64_t low = (~uint64_t{0}) - d + 1; // 2^64 - d
                    for (int i = 0; i < 8; ++i) v[i] = static_cast<unsigned char>(low >> (8 * i));
                };
                switch (k) {
                case 0: v[0] = 1; break;                      // 1
                case 1: v[0] = static_cast<unsigned char>(2 + rng.below(5)); break;
                case 2: set_mod_minus(1103717 + 1); break;    // p - 1
                case 3: set_mod_minus(1103717 - 1 - rng.below(1000)); break; // p + 1 + small: overflowing representation
                case 4: set_mod_minus(1); break;              // 2^3072 - 1
                default: v = rng.bytes(384); break;
                }
                return v;
            };
            const Bytes x = pick(), y = pick();
            unsigned char xa[384], ya[384], out[384];
            std::memcpy(xa, x.data(), 384);
            std::memcpy(ya, y.data(), 384);
            Num3072 nx{xa}, ny{ya};
            Num3072 prod = nx;
            prod.Multiply(ny);
            prod.ToBytes(out);
            const Bytes p(out, out + 384);
            Num3072 quo = nx;
            quo.Divide(ny);
            quo.ToBytes(out);
            const Bytes q(out, out + 384);
            j.raw("num", vh::J().hex("x", x).hex("y", y).hex("mul", p).hex("div", q).done());
            vh::log().obs("num3072_ops", 2);
        }
        vh::log().rec(j);
    }
    return 0;
}
