// Shared helpers for the script/signature engines (e5_sighash.cpp: C10, e5_flags.cpp: C11):
// seeded keys, random transactions, signing through the node's own primitives, DER tweaks, taproot output
// construction, JSON encoding of transactions and spent outputs. Header-only; everything is `inline` inside a
// named namespace so that several TUs can include it.
#pragma once

#include <common/vh.h>

#include <consensus/amount.h>
#include <crypto/sha256.h>
#include <hash.h>
#include <key.h>
#include <primitives/transaction.h>
#include <pubkey.h>
#include <script/interpreter.h>
#include <script/script.h>
#include <script/script_error.h>
#include <streams.h>
#include <uint256.h>

#include <algorithm>
#include <optional>
#include <string>
#include <vector>

namespace e5 {
using valtype = std::vector<unsigned char>;

inline uint256 RandU256(vh::Rng& rng)
{
    uint256 h;
    rng.fill(h.begin(), 32);
    return h;
}

inline CKey RandCKey(vh::Rng& rng, bool compressed = true)
{
    for (;;) {
        auto b = rng.bytes(32);
        CKey k;
        k.Set(b.begin(), b.end(), compressed);
        if (k.IsValid()) return k;
    }
}

inline valtype PubBytes(const CPubKey& pk) { return valtype(pk.begin(), pk.end()); }

// Hybrid encoding (0x06/0x07 || X || Y) of a key; accepted by libsecp256k1's parser, refused by STRICTENC.
inline valtype HybridPub(const CKey& key)
{
    CKey u;
    u.Set(reinterpret_cast<const unsigned char*>(key.begin()), reinterpret_cast<const unsigned char*>(key.end()), false);
    valtype v = PubBytes(u.GetPubKey());
    v[0] = 0x06 | (v[64] & 1);
    return v;
}

inline valtype XOnlyBytes(const CKey& key)
{
    XOnlyPubKey x{key.GetPubKey()};
    return valtype(x.begin(), x.end());
}

inline std::string TxHex(const CMutableTransaction& tx)
{
    DataStream ss;
    ss << TX_WITH_WITNESS(tx);
    return vh::Hex(reinterpret_cast<const unsigned char*>(ss.data()), ss.size());
}

inline std::string SpentJson(const std::vector<CTxOut>& spent)
{
    std::vector<std::string> items;
    for (const auto& o : spent) items.push_back("[" + std::to_string(o.nValue) + "," + vh::JStr(vh::Hex(o.scriptPubKey)) + "]");
    return vh::JArr(items);
}

inline CAmount RandAmount(vh::Rng& rng)
{
    switch (rng.below(8)) {
    case 0: return 0;
    case 1: return MAX_MONEY;
    case 2: return rng.range(0, 1000);
    default: return rng.range(0, MAX_MONEY);
    }
}

inline uint32_t RandSequence(vh::Rng& rng)
{
    switch (rng.below(6)) {
    case 0: return 0xffffffff;
    case 1: return 0xfffffffe;
    case 2: return 0;
    case 3: return static_cast<uint32_t>(rng.below(0x10000));
    default: return static_cast<uint32_t>(rng.next());
    }
}

inline uint32_t RandLockTime(vh::Rng& rng)
{
    switch (rng.below(8)) {
    case 0: return 0;
    case 1: return LOCKTIME_THRESHOLD - 1;
    case 2: return LOCKTIME_THRESHOLD;
    case 3: return 0xffffffff;
    case 4: return static_cast<uint32_t>(rng.below(1000000));
    default: return static_cast<uint32_t>(rng.next());
    }
}

inline CScript RandBytesScript(vh::Rng& rng, size_t maxlen)
{
    auto b = rng.bytes(rng.below(maxlen + 1));
    return CScript(b.begin(), b.end());
}

inline std::vector<valtype> RandWitness(vh::Rng& rng)
{
    std::vector<valtype> st;
    if (rng.chance(1, 2)) return st;
    const size_t n = 1 + rng.below(3);
    for (size_t i = 0; i < n; ++i) st.push_back(rng.bytes(rng.below(40)));
    return st;
}

// Random transaction skeleton; scriptSigs / witnesses of all inputs are random junk (the caller overwrites those of
// the input under test), spent outputs are random as well.
inline CMutableTransaction RandTx(vh::Rng& rng, size_t nin_min, size_t nin_max, size_t nout_min, size_t nout_max, std::vector<CTxOut>& spent)
{
    CMutableTransaction tx;
    switch (rng.below(5)) {
    case 0: tx.version = 1; break;
    case 1: tx.version = 2; break;
    case 2: tx.version = 3; break;
    default: tx.version = static_cast<uint32_t>(rng.next()); break;
    }
    tx.nLockTime = RandLockTime(rng);
    const size_t nin = nin_min + rng.below(nin_max - nin_min + 1);
    const size_t nout = nout_min + rng.below(nout_max - nout_min + 1);
    spent.clear();
    for (size_t i = 0; i < nin; ++i) {
        CTxIn in;
        in.prevout.hash = Txid::FromUint256(RandU256(rng));
        in.prevout.n = rng.chance(1, 8) ? 0xffffffff : static_cast<uint32_t>(rng.below(rng.chance(1, 4) ? 0xffffffffULL : 8));
        in.scriptSig = RandBytesScript(rng, 40);
        in.nSequence = RandSequence(rng);
        in.scriptWitness.stack = RandWitness(rng);
        tx.vin.push_back(in);
        spent.emplace_back(RandAmount(rng), RandBytesScript(rng, 40));
    }
    for (size_t i = 0; i < nout; ++i) tx.vout.emplace_back(RandAmount(rng), RandBytesScript(rng, 50));
    return tx;
}

// ---------------------------------------------------------------------------------------------------------------
// DER helpers (harness-side construction of unusual but meaningful encodings)
struct RS {
    valtype r, s; // big-endian, minimal (no leading zero unless needed is handled by Encode)
};

inline bool DerParse(const valtype& der, RS& out)
{
    if (der.size() < 8 || der[0] != 0x30 || der[2] != 0x02) return false;
    const size_t lr = der[3];
    if (4 + lr + 2 > der.size() || der[4 + lr] != 0x02) return false;
    const size_t ls = der[5 + lr];
    if (6 + lr + ls != der.size()) return false;
    out.r.assign(der.begin() + 4, der.begin() + 4 + lr);
    out.s.assign(der.begin() + 6 + lr, der.end());
    return true;
}

inline valtype DerInt(valtype v)
{
    while (v.size() > 1 && v[0] == 0 && !(v[1] & 0x80)) v.erase(v.begin());
    if (v.empty()) v.push_back(0);
    if (v[0] & 0x80) v.insert(v.begin(), 0);
    valtype o{0x02, static_cast<unsigned char>(v.size())};
    o.insert(o.end(), v.begin(), v.end());
    return o;
}

inline valtype DerEncode(const RS& rs)
{
    valtype a = DerInt(rs.r), b = DerInt(rs.s);
    valtype o{0x30, static_cast<unsigned char>(a.size() + b.size())};
    o.insert(o.end(), a.begin(), a.end());
    o.insert(o.end(), b.begin(), b.end());
    return o;
}

// s -> n - s (turns the low-S signature the node's signer emits into its high-S twin, which is equally valid ECDSA)
inline valtype NegateS(const valtype& der)
{
    static const unsigned char N[32] = {0xFF, 0xFF, 0xFF, 0xFF, 0xFF, 0xFF, 0xFF, 0xFF, 0xFF, 0xFF, 0xFF, 0xFF, 0xFF, 0xFF, 0xFF, 0xFE,
                                        0xBA, 0xAE, 0xDC, 0xE6, 0xAF, 0x48, 0xA0, 0x3B, 0xBF, 0xD2, 0x5E, 0x8C, 0xD0, 0x36, 0x41, 0x41};
    RS rs;
    if (!DerParse(der, rs)) return der;
    valtype s(32, 0);
    valtype sv = rs.s;
    while (sv.size() > 32) sv.erase(sv.begin());
    std::copy(sv.begin(), sv.end(), s.begin() + (32 - sv.size()));
    valtype out(32, 0);
    int borrow = 0;
    for (int i = 31; i >= 0; --i) {
        int d = int(N[i]) - int(s[i]) - borrow;
        borrow = d < 0;
        out[i] = static_cast<unsigned char>(d & 0xff);
    }
    rs.s = out;
    return DerEncode(rs);
}

// Same (r,s) in a BER form that strict DER forbids (a superfluous leading zero byte in R) but the node's lax parser accepts.
inline valtype PadR(const valtype& der)
{
    RS rs;
    if (!DerParse(der, rs)) return der;
    valtype a = DerInt(rs.r), b = DerInt(rs.s);
    a.insert(a.begin() + 2, 0);
    a[1]++;
    valtype o{0x30, static_cast<unsigned char>(a.size() + b.size())};
    o.insert(o.end(), a.begin(), a.end());
    o.insert(o.end(), b.begin(), b.end());
    return o;
}

// ---------------------------------------------------------------------------------------------------------------
// Script building
inline CScript PushOnly(const std::vector<valtype>& items)
{
    CScript s;
    for (const auto& i : items) s << i;
    return s;
}
inline valtype ScriptBytes(const CScript& s) { return valtype(s.begin(), s.end()); }
inline valtype Hash160Of(std::span<const unsigned char> b)
{
    uint160 h = Hash160(b);
    return valtype(h.begin(), h.end());
}
inline valtype Sha256Of(std::span<const unsigned char> b)
{
    valtype h(32);
    CSHA256().Write(b.data(), b.size()).Finalize(h.data());
    return h;
}
inline CScript P2SHOf(const CScript& redeem) { return CScript() << OP_HASH160 << Hash160Of(redeem) << OP_EQUAL; }
inline CScript P2WSHOf(const CScript& ws) { return CScript() << OP_0 << Sha256Of(ws); }
inline CScript P2WPKHOf(const valtype& pub) { return CScript() << OP_0 << Hash160Of(pub); }
inline CScript P2PKHOf(const valtype& pub) { return CScript() << OP_DUP << OP_HASH160 << Hash160Of(pub) << OP_EQUALVERIFY << OP_CHECKSIG; }

// Taproot output for (internal key, one leaf at the end of a random merkle path). No path and no leaf => key-only output.
struct TapOut {
    CScript spk;
    valtype control;        // for the leaf
    uint256 merkle_root;    // null when there is no script tree
    bool has_tree{false};
    uint256 leaf_hash;
};

inline TapOut MakeTaproot(const XOnlyPubKey& internal, const std::optional<std::pair<uint8_t, valtype>>& leaf, const std::vector<uint256>& path)
{
    TapOut t;
    if (leaf) {
        t.has_tree = true;
        t.leaf_hash = ComputeTapleafHash(leaf->first & TAPROOT_LEAF_MASK, leaf->second);
        uint256 k = t.leaf_hash;
        for (const auto& n : path) k = ComputeTapbranchHash(k, n);
        t.merkle_root = k;
    }
    auto tw = internal.CreateTapTweak(t.has_tree ? &t.merkle_root : nullptr);
    if (!tw) return t; // spk empty: caller retries with another key
    t.spk = CScript() << OP_1 << valtype(tw->first.begin(), tw->first.end());
    if (leaf) {
        t.control.push_back((leaf->first & TAPROOT_LEAF_MASK) | (tw->second ? 1 : 0));
        t.control.insert(t.control.end(), internal.begin(), internal.end());
        for (const auto& n : path) t.control.insert(t.control.end(), n.begin(), n.end());
    }
    return t;
}

// ---------------------------------------------------------------------------------------------------------------
// Signing with the node's primitives. `det`: pure RFC6979 (no low-R grinding) so that an independent implementation
// can reproduce the bytes.
inline valtype SignEcdsa(const CKey& key, const uint256& digest, int hashtype, bool det = false)
{
    valtype sig;
    key.Sign(digest, sig, /*grind=*/!det);
    sig.push_back(static_cast<unsigned char>(hashtype));
    return sig;
}

// merkle_root: nullptr = sign with the key itself (tapscript); pointer to null uint256 = key-only output tweak;
// otherwise tweak with that root.
inline valtype SignSchnorrRaw(const CKey& key, const uint256& digest, const uint256* merkle_root, const uint256& aux)
{
    valtype sig(64);
    key.SignSchnorr(digest, sig, merkle_root, aux);
    return sig;
}

inline ScriptExecutionData MakeExecData(const std::optional<valtype>& annex, const std::optional<uint256>& leaf_hash, uint32_t codesep_pos)
{
    ScriptExecutionData ed;
    ed.m_annex_init = true;
    ed.m_annex_present = annex.has_value();
    if (annex) ed.m_annex_hash = (HashWriter{} << *annex).GetSHA256();
    if (leaf_hash) {
        ed.m_tapleaf_hash_init = true;
        ed.m_tapleaf_hash = *leaf_hash;
        ed.m_codeseparator_pos_init = true;
        ed.m_codeseparator_pos = codesep_pos;
    }
    return ed;
}

inline valtype MakeAnnex(vh::Rng& rng)
{
    valtype a = rng.bytes(rng.below(40));
    a.insert(a.begin(), ANNEX_TAG);
    return a;
}

struct VerifyResult {
    bool ok;
    ScriptError err;
};

inline VerifyResult Verify(const CMutableTransaction& mtx, const std::vector<CTxOut>& spent, unsigned nIn, script_verify_flags flags)
{
    const CTransaction tx{mtx};
    PrecomputedTransactionData txdata;
    txdata.Init(tx, std::vector<CTxOut>{spent});
    const TransactionSignatureChecker checker{&tx, nIn, spent[nIn].nValue, txdata, MissingDataBehavior::ASSERT_FAIL};
    ScriptError err{SCRIPT_ERR_UNKNOWN_ERROR};
    const bool ok = VerifyScript(tx.vin[nIn].scriptSig, spent[nIn].scriptPubKey, &tx.vin[nIn].scriptWitness, flags, checker, &err);
    return {ok, err};
}

inline std::string FlagBitsJson()
{
    vh::J j;
    for (const auto& [name, f] : ScriptFlagNamesToEnum()) j.u(name, static_cast<uint8_t>(f));
    return j.done();
}

} // namespace e5
