// C37 — E6 `addrman`: random operation sequences on a real AddrMan, audited after every operation.
//
// Private AddrManImpl state is read through the class name `AddrManDeterministic`, which src/addrman_impl.h already
// befriends for the (unbuilt) fuzz targets. This TU defines its own class of that name (global namespace, all members
// inline, no other TU of the harness may define it).
//
// Online monitors (after every operation):
//   * in-tree AddrManImpl::CheckAddrman(): even cases construct the AddrMan with consistency_check_ratio=0 and call it
//     explicitly (error code logged as data); odd cases use consistency_check_ratio=1, the production -checkaddrman path
//     (a failure aborts the process; the driver reports that as a violation).
//   * own recomputation from the raw tables: every id in mapInfo sits in 1..8 new slots XOR exactly 1 tried slot; no slot
//     holds an unknown id; nNew/nTried/Size()/vRandom/mapAddr agree with the counts; table occupancy within
//     BUCKET_COUNT*BUCKET_SIZE; Size(net, new/tried) equal to own per-network counts; pending tried collisions <= 10.
//   * serialize -> deserialize: same address records (address, port, services, time, source, last success, attempts), same
//     new/tried membership and multiplicity, same Size() for every network; the reloaded object passes the same audit.
//   * GetAddr: subset of the contents, no duplicates, count <= max_addresses and <= max_pct * size / 100, network filter.
//   * Select / SelectTriedCollision: a returned address is an entry of the table / network it must come from.
// A per-case summary with the raw counts is logged and re-checked by checks/C37.py.
//
// params: ops (operations per case, default 500)
#include <common/vh.h>

#include <addrman.h>
#include <addrman_impl.h>
#include <netaddress.h>
#include <netgroup.h>
#include <protocol.h>
#include <random.h>
#include <streams.h>
#include <test/util/setup_common.h>
#include <uint256.h>
#include <util/time.h>

#include <algorithm>
#include <array>
#include <map>
#include <memory>
#include <optional>
#include <set>
#include <string>
#include <string_view>
#include <unordered_map>
#include <unordered_set>
#include <vector>

// ---- friend of AddrManImpl (must be in the global namespace under exactly this name) ----
class AddrManDeterministic : public AddrMan
{
public:
    struct Entry {
        std::vector<unsigned char> key; // CService::GetKey(): address bytes + port
        uint64_t services;
        int64_t time;
        std::vector<unsigned char> source;
        int src_net;
        int64_t last_success;
        int attempts;
        bool tried;
        int refcount;     // as stored
        int new_slots;    // recounted from vvNew
        int tried_slots;  // recounted from vvTried
        int net;          // GetNetwork()
        bool operator==(const Entry& o) const
        {
            return key == o.key && services == o.services && time == o.time && source == o.source && src_net == o.src_net &&
                   last_success == o.last_success && attempts == o.attempts && tried == o.tried && new_slots == o.new_slots &&
                   tried_slots == o.tried_slots && net == o.net;
        }
    };
    struct Raw {
        int nNew, nTried;
        size_t vrandom, mapinfo, mapaddr, collisions;
        size_t new_slots_used, tried_slots_used;
        size_t unknown_slot_ids;
        size_t mapaddr_bad; // mapAddr entries whose id is missing or whose record has another address
        std::array<int, 10> refhist; // ids by number of new slots (index 9 = more than 8)
        size_t multi_tried;          // ids in more than one tried slot
        size_t both_tables;          // ids with new and tried slots
        size_t nowhere;              // ids in no slot
        size_t flag_mismatch;        // fInTried / nRefCount disagree with the recount
        std::map<int, std::pair<size_t, size_t>> per_net; // own count: net -> (new, tried)
        std::map<int, std::pair<size_t, size_t>> stored_net; // m_network_counts
        bool key_null;
    };

    explicit AddrManDeterministic(const NetGroupManager& ngm, int32_t ratio) : AddrMan(ngm, /*deterministic=*/true, ratio) {}

    void SetKeyAndSeed(const uint256& key, const uint256& seed)
    {
        LOCK(m_impl->cs);
        m_impl->nKey = key;
        m_impl->insecure_rand.Reseed(seed);
    }
    int InTreeCheck() const
    {
        LOCK(m_impl->cs);
        return m_impl->CheckAddrman();
    }
    Raw Audit(std::vector<Entry>* entries) const
    {
        LOCK(m_impl->cs);
        Raw r{};
        r.nNew = m_impl->nNew;
        r.nTried = m_impl->nTried;
        r.vrandom = m_impl->vRandom.size();
        r.mapinfo = m_impl->mapInfo.size();
        r.mapaddr = m_impl->mapAddr.size();
        r.collisions = m_impl->m_tried_collisions.size();
        r.key_null = m_impl->nKey.IsNull();
        std::unordered_map<nid_type, std::pair<int, int>> cnt;
        cnt.reserve(m_impl->mapInfo.size() * 2 + 16);
        for (int b = 0; b < ADDRMAN_NEW_BUCKET_COUNT; ++b) {
            for (int p = 0; p < ADDRMAN_BUCKET_SIZE; ++p) {
                const nid_type id = m_impl->vvNew[b][p];
                if (id == -1) continue;
                ++r.new_slots_used;
                ++cnt[id].first;
            }
        }
        for (int b = 0; b < ADDRMAN_TRIED_BUCKET_COUNT; ++b) {
            for (int p = 0; p < ADDRMAN_BUCKET_SIZE; ++p) {
                const nid_type id = m_impl->vvTried[b][p];
                if (id == -1) continue;
                ++r.tried_slots_used;
                ++cnt[id].second;
            }
        }
        for (const auto& [id, c] : cnt) {
            if (!m_impl->mapInfo.contains(id)) ++r.unknown_slot_ids;
        }
        for (const auto& [id, info] : m_impl->mapInfo) {
            int ns = 0, ts = 0;
            if (auto it = cnt.find(id); it != cnt.end()) {
                ns = it->second.first;
                ts = it->second.second;
            }
            ++r.refhist[std::min(ns, 9)];
            if (ts > 1) ++r.multi_tried;
            if (ns > 0 && ts > 0) ++r.both_tables;
            if (ns == 0 && ts == 0) ++r.nowhere;
            if (info.fInTried != (ts > 0) || info.nRefCount != ns) ++r.flag_mismatch;
            auto& pn = r.per_net[static_cast<int>(info.GetNetwork())];
            if (ts > 0) ++pn.second;
            else ++pn.first;
            if (entries) {
                Entry e;
                e.key = info.GetKey();
                e.services = info.nServices;
                e.time = TicksSinceEpoch<std::chrono::seconds>(info.nTime);
                e.source = info.source.GetAddrBytes();
                e.src_net = static_cast<int>(info.source.GetNetwork());
                e.last_success = TicksSinceEpoch<std::chrono::seconds>(info.m_last_success);
                e.attempts = info.nAttempts;
                e.tried = info.fInTried;
                e.refcount = info.nRefCount;
                e.new_slots = ns;
                e.tried_slots = ts;
                e.net = static_cast<int>(info.GetNetwork());
                entries->push_back(std::move(e));
            }
        }
        for (const auto& [svc, id] : m_impl->mapAddr) {
            const auto it = m_impl->mapInfo.find(id);
            if (it == m_impl->mapInfo.end() || !(static_cast<const CService&>(it->second) == svc)) ++r.mapaddr_bad;
        }
        for (const auto& [net, c] : m_impl->m_network_counts) r.stored_net[static_cast<int>(net)] = {c.n_new, c.n_tried};
        return r;
    }
    // 0 = absent, 1 = new, 2 = tried
    int Where(const CService& s) const
    {
        LOCK(m_impl->cs);
        const auto it = m_impl->mapAddr.find(s);
        if (it == m_impl->mapAddr.end()) return 0;
        const auto it2 = m_impl->mapInfo.find(it->second);
        if (it2 == m_impl->mapInfo.end()) return 0;
        return it2->second.fInTried ? 2 : 1;
    }
    std::optional<AddrInfo> Info(const CService& s) const
    {
        LOCK(m_impl->cs);
        const auto it = m_impl->mapAddr.find(s);
        if (it == m_impl->mapAddr.end()) return std::nullopt;
        const auto it2 = m_impl->mapInfo.find(it->second);
        if (it2 == m_impl->mapInfo.end()) return std::nullopt;
        return it2->second;
    }
    std::vector<CAddress> SomeNewEntries(size_t max) const
    {
        LOCK(m_impl->cs);
        std::vector<CAddress> r;
        for (const auto& [id, info] : m_impl->mapInfo) {
            if (!info.fInTried) r.push_back(info);
            if (r.size() >= max) break;
        }
        return r;
    }
};

namespace {

const BasicTestingSetup& Setup()
{
    static const auto setup = MakeNoLogFileContext<const BasicTestingSetup>(ChainType::REGTEST);
    return *setup;
}

constexpr int64_t T0 = 1700000000;

struct World {
    vh::Rng& rng;
    std::vector<CNetAddr> group_v4;  // /16 prefixes in use
    std::vector<CService> pool;
    std::vector<CNetAddr> sources;
};

CNetAddr FromBip155(uint8_t id, std::vector<uint8_t> bytes)
{
    DataStream s;
    s << id << bytes;
    CNetAddr a;
    s >> CAddress::V2_NETWORK(a);
    return a;
}

// net: 0 ipv4, 1 ipv6, 2 onion, 3 i2p, 4 cjdns, 5 ipv6-embedded-ipv4 (6to4), 6 unroutable ipv4 (rfc1918), 7 internal
CNetAddr MakeAddr(vh::Rng& rng, int net, uint32_t groups)
{
    switch (net) {
    case 0: {
        // first two bytes drawn from a small set of /16 groups
        const uint32_t g = static_cast<uint32_t>(rng.below(groups));
        std::vector<uint8_t> b{static_cast<uint8_t>(11 + (g % 97)), static_cast<uint8_t>(1 + (g / 97) % 250), static_cast<uint8_t>(rng.below(256)), static_cast<uint8_t>(rng.below(256))};
        return FromBip155(1, b);
    }
    case 1: {
        auto b = rng.bytes(16);
        b[0] = 0x20;
        b[1] = 0x01;
        b[2] = 0x41; // 2001:41xx::/24, not teredo (2001:0::/32), not documentation (2001:db8::/32)
        const uint32_t g = static_cast<uint32_t>(rng.below(groups));
        b[3] = static_cast<uint8_t>(g);
        return FromBip155(2, b);
    }
    case 2: return FromBip155(4, rng.bytes(32));
    case 3: return FromBip155(5, rng.bytes(32));
    case 4: {
        auto b = rng.bytes(16);
        b[0] = 0xfc;
        return FromBip155(6, b);
    }
    case 5: {
        auto b = rng.bytes(16);
        b[0] = 0x20;
        b[1] = 0x02; // 6to4: 2002:AABB:CCDD::/48 embeds IPv4 A.B.C.D
        b[2] = static_cast<uint8_t>(11 + rng.below(groups) % 97);
        b[3] = 7;
        return FromBip155(2, b);
    }
    case 6: {
        std::vector<uint8_t> b{10, static_cast<uint8_t>(rng.below(256)), static_cast<uint8_t>(rng.below(256)), static_cast<uint8_t>(rng.below(256))};
        return FromBip155(1, b);
    }
    default: {
        CNetAddr a;
        const auto v = rng.bytes(8);
        a.SetInternal(std::string{v.begin(), v.end()});
        return a;
    }
    }
}

const char* OPN[] = {"add", "hammer", "good", "attempt", "connected", "setservices", "resolve", "selcoll", "select", "getaddr", "size", "time", "roundtrip"};
enum Op { ADD, HAMMER, GOOD, ATTEMPT, CONNECTED, SETSERVICES, RESOLVE, SELCOLL, SELECT, GETADDR, SIZE, TIME, ROUNDTRIP, NOPS };

const std::array<Network, 7> NETS{NET_UNROUTABLE, NET_IPV4, NET_IPV6, NET_ONION, NET_I2P, NET_CJDNS, NET_INTERNAL};

std::string RawJson(const AddrManDeterministic::Raw& r, size_t size_api)
{
    std::string hist = "[";
    for (size_t i = 0; i < r.refhist.size(); ++i) hist += (i ? "," : "") + std::to_string(r.refhist[i]);
    hist += "]";
    std::string pn = "{";
    bool first = true;
    for (const auto& [net, c] : r.per_net) {
        pn += std::string(first ? "" : ",") + "\"" + std::to_string(net) + "\":[" + std::to_string(c.first) + "," + std::to_string(c.second) + "]";
        first = false;
    }
    pn += "}";
    return vh::J().i("nNew", r.nNew).i("nTried", r.nTried).u("size_api", size_api).u("vrandom", r.vrandom).u("mapinfo", r.mapinfo).u("mapaddr", r.mapaddr)
        .u("new_slots", r.new_slots_used).u("tried_slots", r.tried_slots_used).u("unknown_slot_ids", r.unknown_slot_ids).raw("refhist", hist)
        .u("multi_tried", r.multi_tried).u("both", r.both_tables).u("nowhere", r.nowhere).u("collisions", r.collisions).raw("per_net", pn).done();
}

// returns "" when consistent, else a stable key
std::string Judge(const AddrManDeterministic& am, const AddrManDeterministic::Raw& r, bool full)
{
    int in_new = 0;
    for (int i = 1; i <= 9; ++i) in_new += r.refhist[i];
    if (r.refhist[9] > 0) return "addr-in-more-than-8-new-slots";
    if (r.multi_tried > 0) return "addr-in-more-than-one-tried-slot";
    if (r.both_tables > 0) return "addr-in-new-and-tried";
    if (r.nowhere > 0) return "addr-in-no-table";
    if (r.unknown_slot_ids > 0) return "slot-holds-unknown-id";
    if (r.flag_mismatch > 0) return "entry-flags-disagree-with-tables";
    if (r.nNew != in_new) return "nNew-differs-from-count";
    if (static_cast<size_t>(r.nTried) != r.tried_slots_used) return "nTried-differs-from-count";
    if (r.mapinfo != static_cast<size_t>(r.nNew + r.nTried) || r.vrandom != r.mapinfo || r.mapaddr != r.mapinfo) return "index-sizes-differ";
    if (r.mapaddr_bad > 0) return "mapAddr-inconsistent";
    if (r.nNew < 0 || r.nNew > ADDRMAN_NEW_BUCKET_COUNT * ADDRMAN_BUCKET_SIZE || r.nTried < 0 || r.nTried > ADDRMAN_TRIED_BUCKET_COUNT * ADDRMAN_BUCKET_SIZE) return "table-over-capacity";
    if (r.collisions > ADDRMAN_SET_TRIED_COLLISION_SIZE) return "too-many-pending-collisions";
    if (r.key_null) return "key-null";
    // stored per-network statistics (what Size(net, ...) reports) against the own count; zero entries may linger
    for (const auto& [net, c] : r.stored_net) {
        size_t wn = 0, wt = 0;
        if (auto it = r.per_net.find(net); it != r.per_net.end()) {
            wn = it->second.first;
            wt = it->second.second;
        }
        if (c.first != wn || c.second != wt) return "network-counts-differ";
    }
    for (const auto& [net, c] : r.per_net) {
        if (!r.stored_net.contains(net)) return "network-counts-differ";
    }
    if (!full) return "";
    // public statistics (every public call runs the in-tree check twice when consistency_check_ratio=1, so not after every operation)
    if (am.Size() != r.mapinfo || am.Size(std::nullopt, true) != static_cast<size_t>(r.nNew) || am.Size(std::nullopt, false) != static_cast<size_t>(r.nTried)) return "size-api-differs";
    for (Network n : NETS) {
        size_t wn = 0, wt = 0;
        if (auto it = r.per_net.find(static_cast<int>(n)); it != r.per_net.end()) {
            wn = it->second.first;
            wt = it->second.second;
        }
        if (am.Size(n, true) != wn || am.Size(n, false) != wt || am.Size(n) != wn + wt) return "size-per-network-differs";
    }
    return "";
}

struct Cmp {
    bool operator()(const AddrManDeterministic::Entry& a, const AddrManDeterministic::Entry& b) const { return a.key < b.key; }
};

} // namespace

VH_CMD(addrman)
{
    Setup();
    const int64_t nops = args.geti("ops", 500);
    for (uint64_t c = args.from; c < args.to; ++c) {
        vh::set_case(c);
        vh::Rng rng(args.seed, c);
        int64_t now = T0 + static_cast<int64_t>(rng.below(100000000));
        SetMockTime(now);
        const NetGroupManager ngm{NetGroupManager::NoAsmap()};
        const int32_t ratio = (c % 4 == 1) ? 1 : 0;
        auto am = std::make_unique<AddrManDeterministic>(ngm, ratio);
        {
            uint256 key, seed;
            rng.fill(key.begin(), 32);
            rng.fill(seed.begin(), 32);
            if (key.IsNull()) *key.begin() = 1;
            am->SetKeyAndSeed(key, seed);
        }
        // density class: few groups => dense bucket collisions
        // every third case: collisions in the tried table are provoked in bursts and rarely resolved, so that the bounded set of
        // pending test-before-evict collisions fills up
        const bool lazy_resolve = (c % 3 == 2);
        const uint32_t groups = lazy_resolve ? 1 + static_cast<uint32_t>(rng.below(2)) : std::array<uint32_t, 5>{1, 2, 5, 40, 2000}[rng.below(5)];
        const size_t pool_n = lazy_resolve ? 700 : std::array<size_t, 4>{30, 120, 400, 1200}[rng.below(4)];
        const size_t src_n = lazy_resolve ? 60 : 1 + rng.below(rng.coin() ? 3 : 60);
        // network mix
        std::vector<uint32_t> netw{40, 15, 10, 8, 8, 5, 3, 2};
        if (rng.chance(1, 4)) netw = {10, 10, 10, 10, 10, 5, 2, 2};
        if (lazy_resolve) netw = {80, 5, 3, 3, 3, 3, 2, 1};
        std::vector<CService> pool;
        for (size_t i = 0; i < pool_n; ++i) {
            const CNetAddr a = MakeAddr(rng, static_cast<int>(rng.weighted(netw)), groups);
            const uint16_t port = rng.chance(3, 4) ? 8333 : static_cast<uint16_t>(1 + rng.below(65535));
            pool.emplace_back(a, port);
            if (rng.chance(1, 20)) pool.emplace_back(a, static_cast<uint16_t>(port + 1)); // same host, other port
        }
        std::vector<CNetAddr> sources;
        for (size_t i = 0; i < src_n; ++i) sources.push_back(MakeAddr(rng, static_cast<int>(rng.weighted({50, 15, 10, 5, 5, 5, 5, 5})), (rng.coin() && !lazy_resolve) ? groups : 2000));

        std::array<uint64_t, NOPS> opcount{};
        uint64_t bad = 0, roundtrips = 0, getaddr_n = 0, evictions = 0, good_moved = 0, coll_queued = 0, add_true = 0, select_hit = 0, max_coll = 0, reloaded_switch = 0;
        int max_ref = 0;
        std::vector<std::string> rts;
        std::set<int> nets_seen;
        std::vector<CService> pending; // addresses whose Good() was deferred because of a tried collision
        auto violation = [&](const std::string& key, const std::string& msg, const vh::J& d) {
            if (bad++ < 3) vh::log().violation(key, msg, d);
        };
        auto audit = [&](const char* after, int64_t step) -> AddrManDeterministic::Raw {
            if (ratio == 0) {
                const int code = am->InTreeCheck();
                if (code != 0) violation("checkaddrman-failed", "AddrManImpl::CheckAddrman returned an error", vh::J().i("code", code).str("after", after).i("step", step));
            }
            auto r = am->Audit(nullptr);
            const std::string k = Judge(*am, r, step % 16 == 0 || std::string_view{after} == "roundtrip");
            if (!k.empty()) violation(k, "address manager tables are inconsistent (own recomputation)", vh::J().str("after", after).i("step", step).raw("raw", RawJson(r, am->Size())));
            for (int i = 1; i <= 9; ++i)
                if (r.refhist[i] > 0) max_ref = std::max(max_ref, i);
            max_coll = std::max<uint64_t>(max_coll, r.collisions);
            return r;
        };
        std::vector<uint32_t> w{30, 6, 18, 10, 5, 3, 6, 5, 6, 4, 2, 8, 1};
        if (lazy_resolve) w[RESOLVE] = 1, w[GOOD] = 30, w[SELCOLL] = 2;
        for (int64_t step = 0; step < nops && bad == 0; ++step) {
            const Op op = static_cast<Op>(rng.weighted(w));
            ++opcount[op];
            switch (op) {
            case ADD: {
                std::vector<CAddress> v;
                const size_t n = 1 + rng.below((rng.chance(1, 5) || lazy_resolve) ? 60 : 6);
                for (size_t i = 0; i < n; ++i) {
                    int64_t t;
                    const auto cls = rng.below(10);
                    if (cls < 6) t = now - static_cast<int64_t>(rng.below(3 * 3600));
                    else if (cls < 8) t = now - static_cast<int64_t>(rng.below(40 * 86400));
                    else if (cls < 9) t = now + static_cast<int64_t>(rng.below(3600));
                    else t = static_cast<int64_t>(rng.below(100000)); // ancient
                    v.emplace_back(rng.pick(pool), static_cast<ServiceFlags>(rng.chance(1, 3) ? rng.next() : (NODE_NETWORK | NODE_WITNESS)), NodeSeconds{std::chrono::seconds{t}});
                }
                const CNetAddr src = rng.chance(1, 10) ? static_cast<CNetAddr>(v[0]) : rng.pick(sources);
                const auto pen = std::chrono::seconds{rng.chance(1, 2) ? 0 : static_cast<int64_t>(rng.below(7200))};
                if (am->Add(v, src, pen)) ++add_true;
                break;
            }
            case HAMMER: {
                // the same new-table address announced by many sources with a newer timestamp: multiplicity grows (at most to 8)
                auto cands = am->SomeNewEntries(8);
                if (cands.empty()) break;
                CAddress a = rng.pick(cands);
                const size_t n = 16 + rng.below(120);
                for (size_t i = 0; i < n; ++i) {
                    a.nTime = NodeSeconds{std::chrono::seconds{now + static_cast<int64_t>(i % 7)}};
                    const CNetAddr src = MakeAddr(rng, 0, 60000);
                    am->Add({a}, src, std::chrono::seconds{1 + static_cast<int64_t>(rng.below(600))});
                }
                break;
            }
            case GOOD: {
                if (rng.chance(1, 4)) {
                    // a burst of successful connections: fills tried buckets, provokes tried collisions
                    const size_t n = 10 + rng.below(30);
                    for (size_t i = 0; i < n; ++i) {
                        const CService s = rng.pick(pool);
                        const int before = am->Where(s);
                        const bool r = am->Good(s, NodeSeconds{std::chrono::seconds{now - static_cast<int64_t>(rng.below(30))}});
                        if (r) ++good_moved;
                        else if (before == 1 && am->Where(s) == 1) {
                            ++coll_queued;
                            if (pending.size() < 64) pending.push_back(s);
                        }
                    }
                    break;
                }
                const CService s = rng.pick(pool);
                const int before = am->Where(s);
                const bool r = am->Good(s, NodeSeconds{std::chrono::seconds{now - static_cast<int64_t>(rng.below(120))}});
                const int after = am->Where(s);
                if (r) {
                    ++good_moved;
                    if (before != 1 || after != 2) violation("good-true-without-move", "Good() returned true but the address did not move from new to tried", vh::J().i("before", before).i("after", after));
                } else if (before == 1 && after == 1) {
                    ++coll_queued;
                    if (pending.size() < 64) pending.push_back(s);
                }
                if (before == 0 && after != 0) violation("good-created-entry", "Good() on an unknown address created an entry", vh::J().i("after", after));
                break;
            }
            case ATTEMPT: am->Attempt(rng.pick(pool), rng.coin(), NodeSeconds{std::chrono::seconds{now}}); break;
            case CONNECTED: am->Connected(rng.pick(pool), NodeSeconds{std::chrono::seconds{now}}); break;
            case SETSERVICES: am->SetServices(rng.pick(pool), static_cast<ServiceFlags>(rng.next())); break;
            case RESOLVE: {
                am->ResolveCollisions();
                // an address whose move to tried was deferred (test-before-evict) and that is in tried now has evicted the old entry
                for (size_t i = 0; i < pending.size();) {
                    const int wh = am->Where(pending[i]);
                    if (wh == 2) ++evictions;
                    if (wh != 1) {
                        pending[i] = pending.back();
                        pending.pop_back();
                    } else {
                        ++i;
                    }
                }
                break;
            }
            case SELCOLL: {
                const auto [addr, last_try] = am->SelectTriedCollision();
                if (addr.IsValid()) {
                    if (am->Where(addr) != 2) violation("selectcollision-not-tried", "SelectTriedCollision returned an address that is not in the tried table", vh::J().str("addr", addr.ToStringAddrPort()));
                    // behave like the node: test the old entry (feeler)
                    if (rng.coin()) am->Attempt(addr, true, NodeSeconds{std::chrono::seconds{now}});
                    else if (rng.chance(1, 3)) am->Good(addr, NodeSeconds{std::chrono::seconds{now}});
                }
                break;
            }
            case SELECT: {
                const bool new_only = rng.coin();
                std::unordered_set<Network> nets;
                if (rng.coin())
                    for (Network n : NETS)
                        if (rng.chance(1, 3)) nets.insert(n);
                const auto [addr, last_try] = am->Select(new_only, nets);
                if (addr.IsValid()) {
                    ++select_hit;
                    const int wh = am->Where(addr);
                    if (wh == 0) violation("select-unknown-address", "Select returned an address that is not in the address manager", vh::J().str("addr", addr.ToStringAddrPort()));
                    else if (new_only && wh != 1) violation("select-newonly-returned-tried", "Select(new_only) returned a tried address", vh::J().str("addr", addr.ToStringAddrPort()));
                    if (!nets.empty() && !nets.contains(addr.GetNetwork())) violation("select-wrong-network", "Select returned an address outside the requested networks", vh::J().str("addr", addr.ToStringAddrPort()));
                }
                break;
            }
            case GETADDR: {
                ++getaddr_n;
                const size_t max_addr = rng.coin() ? 0 : 1 + rng.below(rng.coin() ? 30 : 3000);
                const size_t max_pct = rng.chance(1, 3) ? 0 : 1 + rng.below(100);
                std::optional<Network> net;
                if (rng.chance(1, 3)) net = rng.pick(NETS);
                const bool filtered = rng.coin();
                const size_t total = am->Size();
                const auto res = am->GetAddr(max_addr, max_pct, net, filtered);
                size_t limit = total;
                if (max_pct) limit = max_pct * total / 100;
                if (max_addr) limit = std::min(limit, max_addr);
                if (res.size() > limit) violation("getaddr-too-many", "GetAddr returned more than max_addresses / max_pct allow", vh::J().u("returned", res.size()).u("limit", limit).u("total", total).u("max_pct", max_pct).u("max_addresses", max_addr));
                std::set<std::vector<unsigned char>> seen;
                for (const auto& a : res) {
                    if (!seen.insert(a.GetKey()).second) violation("getaddr-duplicate", "GetAddr returned an address twice", vh::J().str("addr", a.ToStringAddrPort()));
                    const auto info = am->Info(a);
                    if (!info) {
                        violation("getaddr-not-in-contents", "GetAddr returned an address that is not in the address manager", vh::J().str("addr", a.ToStringAddrPort()));
                    } else if (info->nServices != a.nServices || info->nTime != a.nTime) {
                        violation("getaddr-record-differs", "GetAddr returned a record whose services/time differ from the stored entry", vh::J().str("addr", a.ToStringAddrPort()));
                    }
                    if (net && a.GetNetClass() != *net) violation("getaddr-wrong-network", "GetAddr returned an address of another network", vh::J().str("addr", a.ToStringAddrPort()));
                }
                break;
            }
            case SIZE: (void)am->Size(rng.pick(NETS), rng.coin() ? std::optional<bool>{rng.coin()} : std::nullopt); break;
            case TIME: {
                const auto cls = rng.below(10);
                int64_t d;
                if (cls < 4) d = 1 + static_cast<int64_t>(rng.below(120));
                else if (cls < 7) d = 60 + static_cast<int64_t>(rng.below(3600));
                else if (cls < 9) d = 3600 + static_cast<int64_t>(rng.below(6 * 3600));
                else d = 86400 * (1 + static_cast<int64_t>(rng.below(20)));
                now += d;
                SetMockTime(now);
                break;
            }
            case ROUNDTRIP: {
                ++roundtrips;
                std::vector<AddrManDeterministic::Entry> e1, e2;
                const auto r1 = am->Audit(&e1);
                DataStream ds;
                ds << static_cast<const AddrMan&>(*am);
                const size_t ser_size = ds.size();
                auto am2 = std::make_unique<AddrManDeterministic>(ngm, ratio);
                bool loaded = true;
                try {
                    ds >> static_cast<AddrMan&>(*am2);
                } catch (const std::exception& ex) {
                    loaded = false;
                    violation("roundtrip-deserialize-failed", "an address manager could not load its own serialization", vh::J().str("what", ex.what()));
                }
                if (!loaded) break;
                if (!ds.empty()) violation("roundtrip-trailing-bytes", "deserialization left bytes unread", vh::J().u("left", ds.size()));
                const auto r2 = am2->Audit(&e2);
                const std::string k2 = Judge(*am2, r2, true);
                if (!k2.empty()) violation("reloaded-" + k2, "reloaded address manager is inconsistent", vh::J().raw("raw", RawJson(r2, am2->Size())));
                const int code2 = am2->InTreeCheck();
                if (code2 != 0) violation("checkaddrman-failed", "CheckAddrman fails on the reloaded address manager", vh::J().i("code", code2));
                std::sort(e1.begin(), e1.end(), Cmp{});
                std::sort(e2.begin(), e2.end(), Cmp{});
                if (e1.size() != e2.size()) {
                    violation("roundtrip-address-count-differs", "reloaded address manager has a different number of addresses", vh::J().u("before", e1.size()).u("after", e2.size()));
                } else {
                    for (size_t i = 0; i < e1.size(); ++i) {
                        if (!(e1[i] == e2[i])) {
                            violation("roundtrip-entry-differs", "an address record differs after reload",
                                      vh::J().hex("key", e1[i].key).hex("key2", e2[i].key).b("tried", e1[i].tried).b("tried2", e2[i].tried).i("mult", e1[i].new_slots).i("mult2", e2[i].new_slots)
                                          .i("time", e1[i].time).i("time2", e2[i].time).i("succ", e1[i].last_success).i("succ2", e2[i].last_success).i("att", e1[i].attempts).i("att2", e2[i].attempts)
                                          .u("srv", e1[i].services).u("srv2", e2[i].services));
                            break;
                        }
                    }
                }
                for (Network n : NETS) {
                    for (int t = 0; t < 3; ++t) {
                        const std::optional<bool> in_new = t == 2 ? std::nullopt : std::optional<bool>{t == 0};
                        if (am->Size(n, in_new) != am2->Size(n, in_new)) violation("roundtrip-size-differs", "Size() per network differs after reload", vh::J().i("net", n).i("table", t).u("before", am->Size(n, in_new)).u("after", am2->Size(n, in_new)));
                    }
                }
                if (rts.size() < 4) rts.push_back(vh::J().i("step", step).u("bytes", ser_size).raw("before", RawJson(r1, am->Size())).raw("after", RawJson(r2, am2->Size())).done());
                // continue the history on the reloaded object half of the time (ids renumbered, vRandom rebuilt)
                if (rng.coin()) {
                    am = std::move(am2);
                    ++reloaded_switch;
                }
                break;
            }
            default: break;
            }
            audit(OPN[op], step);
        }
        std::vector<AddrManDeterministic::Entry> fin;
        const auto rf = am->Audit(&fin);
        if (bad == 0) {
            const std::string kf = Judge(*am, rf, true);
            if (!kf.empty()) violation(kf, "address manager tables are inconsistent at the end of the history", vh::J().raw("raw", RawJson(rf, am->Size())));
        }
        for (const auto& e : fin) nets_seen.insert(e.net);
        std::string ops = "{";
        for (int i = 0; i < NOPS; ++i) ops += std::string(i ? "," : "") + "\"" + OPN[i] + "\":" + std::to_string(opcount[i]);
        ops += "}";
        const bool nt = rf.nTried > 0 && rf.nNew > 0 && roundtrips + getaddr_n > 0;
        vh::log().rec(vh::J().u("case", c).i("ratio", ratio).u("groups", groups).u("pool", pool.size()).u("sources", sources.size()).raw("ops", ops)
                          .raw("final", RawJson(rf, am->Size())).raw("rts", vh::JArr(rts)).i("max_ref", max_ref).u("max_coll", max_coll).u("evictions", evictions)
                          .u("good_moved", good_moved).u("coll_queued", coll_queued).u("add_true", add_true).u("select_hit", select_hit).u("roundtrips", roundtrips)
                          .u("switched", reloaded_switch).u("getaddr", getaddr_n).b("nt", nt).u("bad", bad)
                          .str("sig", std::to_string(groups) + "/" + std::to_string(pool.size()) + "/" + std::to_string(rf.nNew) + "/" + std::to_string(rf.nTried) + "/" + std::to_string(rf.new_slots_used) + "/" + std::to_string(max_ref)));
        for (int i = 0; i < NOPS; ++i) vh::log().obs(std::string("op_") + OPN[i], static_cast<int64_t>(opcount[i]));
        for (int n : nets_seen) vh::log().obs("net_" + std::to_string(n));
        if (max_ref == 8) vh::log().obs("multiplicity_8_reached");
        vh::log().obs_max("multiplicity", max_ref);
        vh::log().obs("tried_evictions", static_cast<int64_t>(evictions));
        vh::log().obs("tried_collisions_queued", static_cast<int64_t>(coll_queued));
        vh::log().obs("moved_to_tried", static_cast<int64_t>(good_moved));
        vh::log().obs_max("pending_collisions", static_cast<int64_t>(max_coll));
        if (max_coll >= ADDRMAN_SET_TRIED_COLLISION_SIZE) vh::log().obs("pending_collisions_cap_reached");
        vh::log().obs("audits", nops);
    }
    SetMockTime(0);
    return 0;
}
