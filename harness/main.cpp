// vh: multi-command harness binary. `vh <cmd> --seed S --from A --to B --out file [--p key=value]...`
#include <common/vh.h>

#include <cinttypes>
#include <cstdlib>
#include <functional>
#include <stdexcept>
#include <string>
#include <vector>

// Globals the repository's test_util library expects the test binary to define.
extern const std::function<std::vector<const char*>()> G_TEST_COMMAND_LINE_ARGUMENTS;
extern const std::function<std::string()> G_TEST_GET_FULL_NAME;
static std::vector<const char*> g_extra_node_args;
const std::function<std::vector<const char*>()> G_TEST_COMMAND_LINE_ARGUMENTS = []() { return g_extra_node_args; };
const std::function<std::string()> G_TEST_GET_FULL_NAME = []() { return std::string{"vh"}; };

// Force test/util/setup_common.cpp.o (which defines G_TRANSLATION_FUN and the testing fixtures) into every link,
// also for binaries whose engines do not use the fixtures.
class ArgsManager;
void SetupCommonTestArgs(ArgsManager& argsman);
void (*volatile g_vh_force_link_setup_common)(ArgsManager&) = &SetupCommonTestArgs;

namespace vh {

static std::map<std::string, CmdFn>& registry()
{
    static std::map<std::string, CmdFn> r;
    return r;
}
Reg::Reg(const char* name, CmdFn fn) { registry()[name] = fn; }

int64_t Args::geti(const std::string& k, int64_t def) const
{
    auto it = params.find(k);
    if (it == params.end()) return def;
    return std::strtoll(it->second.c_str(), nullptr, 0);
}
std::string Args::gets(const std::string& k, const std::string& def) const
{
    auto it = params.find(k);
    return it == params.end() ? def : it->second;
}

static uint64_t splitmix(uint64_t& x)
{
    uint64_t z = (x += 0x9e3779b97f4a7c15ULL);
    z = (z ^ (z >> 30)) * 0xbf58476d1ce4e5b9ULL;
    z = (z ^ (z >> 27)) * 0x94d049bb133111ebULL;
    return z ^ (z >> 31);
}
Rng::Rng(uint64_t seed, uint64_t stream)
{
    uint64_t x = seed * 0x9E3779B97F4A7C15ULL ^ (stream + 0x632BE59BD9B4E019ULL) * 0xD1342543DE82EF95ULL;
    for (auto& v : s) v = splitmix(x);
}
static inline uint64_t rotl(uint64_t x, int k) { return (x << k) | (x >> (64 - k)); }
uint64_t Rng::next()
{
    const uint64_t result = rotl(s[1] * 5, 7) * 9;
    const uint64_t t = s[1] << 17;
    s[2] ^= s[0];
    s[3] ^= s[1];
    s[1] ^= s[2];
    s[0] ^= s[3];
    s[2] ^= t;
    s[3] = rotl(s[3], 45);
    return result;
}
uint64_t Rng::below(uint64_t n)
{
    if (n <= 1) return 0;
    // rejection sampling, unbiased
    const uint64_t lim = UINT64_MAX - (UINT64_MAX % n);
    uint64_t r;
    do {
        r = next();
    } while (r >= lim);
    return r % n;
}
int64_t Rng::range(int64_t lo, int64_t hi)
{
    const uint64_t span = static_cast<uint64_t>(hi) - static_cast<uint64_t>(lo);
    if (span == UINT64_MAX) return static_cast<int64_t>(next());
    return static_cast<int64_t>(static_cast<uint64_t>(lo) + below(span + 1));
}
void Rng::fill(unsigned char* p, size_t n)
{
    while (n >= 8) {
        uint64_t v = next();
        std::memcpy(p, &v, 8);
        p += 8;
        n -= 8;
    }
    if (n) {
        uint64_t v = next();
        std::memcpy(p, &v, n);
    }
}
std::vector<unsigned char> Rng::bytes(size_t n)
{
    std::vector<unsigned char> v(n);
    if (n) fill(v.data(), n);
    return v;
}
size_t Rng::weighted(const std::vector<uint32_t>& w)
{
    uint64_t tot = 0;
    for (auto x : w) tot += x;
    uint64_t r = below(tot);
    for (size_t i = 0; i < w.size(); ++i) {
        if (r < w[i]) return i;
        r -= w[i];
    }
    return w.size() - 1;
}

std::string Hex(const unsigned char* p, size_t n)
{
    static const char* d = "0123456789abcdef";
    std::string r;
    r.resize(n * 2);
    for (size_t i = 0; i < n; ++i) {
        r[2 * i] = d[p[i] >> 4];
        r[2 * i + 1] = d[p[i] & 15];
    }
    return r;
}
std::vector<unsigned char> UnHex(std::string_view s)
{
    auto nib = [](char c) -> int {
        if (c >= '0' && c <= '9') return c - '0';
        if (c >= 'a' && c <= 'f') return c - 'a' + 10;
        if (c >= 'A' && c <= 'F') return c - 'A' + 10;
        return -1;
    };
    std::vector<unsigned char> r;
    for (size_t i = 0; i + 1 < s.size(); i += 2) {
        int a = nib(s[i]), b = nib(s[i + 1]);
        if (a < 0 || b < 0) throw std::runtime_error("UnHex: bad digit");
        r.push_back(static_cast<unsigned char>(a * 16 + b));
    }
    return r;
}
std::string JsonEscape(std::string_view s)
{
    std::string r;
    r.reserve(s.size() + 2);
    for (unsigned char c : s) {
        switch (c) {
        case '"': r += "\\\""; break;
        case '\\': r += "\\\\"; break;
        case '\n': r += "\\n"; break;
        case '\r': r += "\\r"; break;
        case '\t': r += "\\t"; break;
        default:
            if (c < 0x20 || c >= 0x7f) {
                char buf[8];
                std::snprintf(buf, sizeof buf, "\\u%04x", c);
                r += buf;
            } else {
                r += static_cast<char>(c);
            }
        }
    }
    return r;
}
std::string JStr(std::string_view s) { return "\"" + JsonEscape(s) + "\""; }
std::string JArr(const std::vector<std::string>& items)
{
    std::string r = "[";
    for (size_t i = 0; i < items.size(); ++i) {
        if (i) r += ",";
        r += items[i];
    }
    return r + "]";
}
void J::key(std::string_view k)
{
    if (!first) s += ",";
    first = false;
    s += "\"";
    s += k;
    s += "\":";
}
J& J::i(std::string_view k, int64_t v)
{
    key(k);
    s += std::to_string(v);
    return *this;
}
J& J::u(std::string_view k, uint64_t v)
{
    key(k);
    s += std::to_string(v);
    return *this;
}
J& J::b(std::string_view k, bool v)
{
    key(k);
    s += v ? "true" : "false";
    return *this;
}
J& J::str(std::string_view k, std::string_view v)
{
    key(k);
    s += JStr(v);
    return *this;
}
J& J::hex(std::string_view k, const unsigned char* p, size_t n)
{
    key(k);
    s += "\"" + Hex(p, n) + "\"";
    return *this;
}
J& J::raw(std::string_view k, std::string_view json)
{
    key(k);
    s += json;
    return *this;
}
J& J::null(std::string_view k)
{
    key(k);
    s += "null";
    return *this;
}

static uint64_t g_case = 0;
void set_case(uint64_t c) { g_case = c; }
uint64_t cur_case() { return g_case; }

void Log::open(const std::string& path)
{
    f = path.empty() || path == "-" ? stdout : std::fopen(path.c_str(), "w");
    if (!f) throw std::runtime_error("cannot open log " + path);
    std::setvbuf(f, nullptr, _IOLBF, 1 << 16);
}
void Log::line(const std::string& json)
{
    std::fputs(json.c_str(), f);
    std::fputc('\n', f);
}
void Log::rec(const J& j) { line(j.done()); }
void Log::violation(std::string_view key, std::string_view msg, const J& details)
{
    ++m_violations;
    J j;
    j.raw("v", J().str("key", key).str("msg", msg).u("case", g_case).raw("details", details.done()).done());
    line(j.done());
    std::fflush(f);
}
void Log::close()
{
    if (!f) return;
    std::string o = "{";
    bool first = true;
    for (auto& [k, v] : m_obs) {
        if (!first) o += ",";
        first = false;
        o += JStr(k) + ":" + std::to_string(v);
    }
    o += "}";
    line(J().raw("obs", o).b("end", true).done());
    std::fflush(f);
    if (f != stdout) std::fclose(f);
    f = nullptr;
}
Log& log()
{
    static Log l;
    return l;
}

} // namespace vh

int main(int argc, char** argv)
{
    using namespace vh;
    if (argc < 2) {
        std::fprintf(stderr, "usage: vh <cmd> [--seed S] [--from A] [--to B] [--out file] [--p k=v]... [--node-arg -x=y]...\ncommands:\n");
        for (auto& [k, v] : registry()) std::fprintf(stderr, "  %s\n", k.c_str());
        return 2;
    }
    std::string cmd = argv[1];
    if (cmd == "--list") {
        for (auto& [k, v] : registry()) std::printf("%s\n", k.c_str());
        return 0;
    }
    Args a;
    for (int i = 2; i < argc; ++i) {
        std::string s = argv[i];
        auto need = [&]() -> std::string {
            if (i + 1 >= argc) {
                std::fprintf(stderr, "missing value for %s\n", s.c_str());
                std::exit(2);
            }
            return argv[++i];
        };
        if (s == "--seed") a.seed = std::strtoull(need().c_str(), nullptr, 0);
        else if (s == "--from") a.from = std::strtoull(need().c_str(), nullptr, 0);
        else if (s == "--to") a.to = std::strtoull(need().c_str(), nullptr, 0);
        else if (s == "--out") a.out = need();
        else if (s == "--p") {
            std::string kv = need();
            auto eq = kv.find('=');
            if (eq == std::string::npos) a.params[kv] = "1";
            else a.params[kv.substr(0, eq)] = kv.substr(eq + 1);
        } else if (s == "--node-arg") {
            g_extra_node_args.push_back(argv[++i]);
        } else {
            std::fprintf(stderr, "unknown argument %s\n", s.c_str());
            return 2;
        }
    }
    auto it = registry().find(cmd);
    if (it == registry().end()) {
        std::fprintf(stderr, "unknown command %s\n", cmd.c_str());
        return 2;
    }
    log().open(a.out);
    int rc;
    try {
        rc = it->second(a);
    } catch (const std::exception& e) {
        // An exception escaping an engine is a harness-level failure (engines catch what the code under
        // test is allowed to throw). Report it, the driver treats it as a crash of this shard.
        std::fprintf(stderr, "vh: uncaught exception in %s case %" PRIu64 ": %s\n", cmd.c_str(), cur_case(), e.what());
        log().line(J().str("uncaught", e.what()).u("case", cur_case()).done());
        log().close();
        return 3;
    }
    log().close();
    return rc;
}
