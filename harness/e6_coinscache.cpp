// C15: stacked CCoinsViewCache layers over an in-memory CCoinsViewDB, in lock-step with a per-layer map model.
//
// Model (written from the documentation in coins.h, not from coins.cpp): every cache layer owns a map
// outpoint -> (coin or "spent", dirty?). A layer's view of an outpoint is its own entry if it has one, else its
// parent's view. Get/Have/Access/Spend load a parent's unspent coin into the layer (clean entry); Peek does not.
// Add/Spend/Emplace create dirty entries. Flush/Sync move every dirty entry into the parent (or the database),
// Flush then wipes the layer, Sync keeps unspent entries as clean ones. Reset wipes the layer without writing.
// The FRESH flag is *not* modelled (it is an optimisation); it is checked through the documented safety rule
// "a FRESH entry's coin is not unspent in the parent view", and a layer may drop a spent entry exactly when that
// is unobservable (the parent view has no such coin).
//
// Workload preconditions (caller obligations documented in coins.h / required by layered use):
//  * AddCoin(possible_overwrite=false) only when the layer's view has no unspent coin (else only when the unspent coin
//    is in the layer's own cache, where std::logic_error is the documented outcome and is expected);
//  * a layer is modified (Add/Spend/Emplace/Reset) only for outpoints that no layer above it holds an entry for
//    (a child cache is a snapshot of its parent; changing the parent underneath a child entry is caller misuse);
//  * EmplaceCoinInternalDANGER only for outpoints the layer holds no entry for;
//  * Flush/Sync with a non-null best block (set first if needed; the database asserts this).
#include <common/vh.h>

#include <coins.h>
#include <dbwrapper.h>
#include <memusage.h>
#include <primitives/transaction.h>
#include <script/script.h>
#include <txdb.h>
#include <uint256.h>

#include <map>
#include <memory>
#include <numeric>
#include <optional>
#include <set>
#include <stdexcept>
#include <string>
#include <vector>

namespace {

constexpr int MAXO = 4;

struct MCoin {
    int64_t v{0};
    std::vector<unsigned char> spk;
    bool cb{false};
    uint32_t h{0};
    bool operator==(const MCoin&) const = default;
};
using OptCoin = std::optional<MCoin>;

MCoin FromReal(const Coin& c)
{
    return MCoin{c.out.nValue, std::vector<unsigned char>(c.out.scriptPubKey.begin(), c.out.scriptPubKey.end()), static_cast<bool>(c.fCoinBase), c.nHeight};
}
OptCoin FromRealOpt(const std::optional<Coin>& c)
{
    if (!c) return std::nullopt;
    return FromReal(*c);
}
Coin ToReal(const MCoin& m) { return Coin(CTxOut(m.v, CScript(m.spk.begin(), m.spk.end())), static_cast<int>(m.h), m.cb); }

uint64_t Fnv(const std::string& s)
{
    uint64_t h = 1469598103934665603ULL;
    for (unsigned char c : s) {
        h ^= c;
        h *= 1099511628211ULL;
    }
    return h;
}
std::string CoinId(const OptCoin& c)
{
    if (!c) return "-";
    std::string s = std::to_string(c->v) + "/" + std::to_string(c->h) + (c->cb ? "c" : "n") + "/" + std::to_string(c->spk.size());
    if (!c->spk.empty()) s += ":" + std::to_string(static_cast<int>(c->spk[0])) + "." + std::to_string(static_cast<int>(c->spk.back()));
    return s;
}

COutPoint Outpoint(int o)
{
    static const unsigned char tags[MAXO] = {0x11, 0x11, 0x22, 0x33};
    static const uint32_t ns[MAXO] = {0, 1, 0, 5};
    uint256 h;
    std::memset(h.begin(), tags[o], 32);
    return COutPoint(Txid::FromUint256(h), ns[o]);
}
uint256 BlockHash(int id)
{
    uint256 h;
    if (id == 0) return h;
    for (int i = 0; i < 4; ++i) h.begin()[i] = static_cast<unsigned char>((id >> (8 * i)) & 0xff);
    h.begin()[31] = 0xbb;
    return h;
}
int BlockId(const uint256& h)
{
    if (h.IsNull()) return 0;
    if (h.begin()[31] != 0xbb) return -1;
    return h.begin()[0] | (h.begin()[1] << 8) | (h.begin()[2] << 16) | ((h.begin()[3] & 0x7f) << 24);
}

enum Kind { ADD, SPEND, GET, HAVE, ACCESS, PEEK, UNCACHE, EMPLACE, FLUSH, SYNC, RESET, SETBEST, GETBEST, NKINDS };
const char* const KNAME[NKINDS] = {"add", "spend", "get", "have", "access", "peek", "uncache", "emplace", "flush", "sync", "reset", "setbest", "getbest"};

struct Op {
    Kind kind;
    int layer; // 1..n
    int o{0};
    bool flag{false}; // add: possible_overwrite ; spend: moveout ; flush: reallocate
    MCoin coin;       // add / emplace
    std::string Str() const
    {
        std::string s = std::string(KNAME[kind]) + "(L" + std::to_string(layer);
        if (kind <= EMPLACE) s += ",o" + std::to_string(o);
        if (kind == ADD) s += flag ? ",ow" : ",noow";
        if (kind == SPEND && flag) s += ",moveout";
        if (kind == FLUSH && flag) s += ",realloc";
        if (kind == ADD || kind == EMPLACE) s += "," + CoinId(coin);
        return s + ")";
    }
};

struct MEntry {
    OptCoin coin; // nullopt = spent
    bool dirty{false};
};
struct MLayer {
    std::map<int, MEntry> ent;
    int bb{0};
};
struct Model {
    std::map<int, MCoin> db;
    int dbbb{0};
    std::vector<MLayer> L; // L[0] unused; L[k] = cache layer k
    int n() const { return static_cast<int>(L.size()) - 1; }

    OptCoin View(int k, int o) const
    {
        for (int j = k; j >= 1; --j) {
            auto it = L[j].ent.find(o);
            if (it != L[j].ent.end()) return it->second.coin;
        }
        auto it = db.find(o);
        if (it == db.end()) return std::nullopt;
        return it->second;
    }
    // caching lookup (GetCoin/HaveCoin/AccessCoin/SpendCoin path)
    OptCoin Fetch(int k, int o)
    {
        if (k == 0) return View(0, o);
        auto it = L[k].ent.find(o);
        if (it != L[k].ent.end()) return it->second.coin;
        OptCoin c = Fetch(k - 1, o);
        if (c) L[k].ent[o] = MEntry{c, false};
        return c;
    }
    bool HeldAbove(int k, int o) const
    {
        for (int j = k + 1; j <= n(); ++j)
            if (L[j].ent.count(o)) return true;
        return false;
    }
    int BestBlock(int k)
    {
        if (k == 0) return dbbb;
        if (L[k].bb == 0) L[k].bb = BestBlock(k - 1);
        return L[k].bb;
    }
    // Is op within the workload preconditions in this state?
    bool Valid(const Op& op) const
    {
        const int k = op.layer;
        switch (op.kind) {
        case ADD:
            if (HeldAbove(k, op.o)) return false;
            if (!op.flag) {
                if (View(k, op.o)) {
                    // documented logic_error only when the unspent coin is in this layer's own cache
                    auto it = L[k].ent.find(op.o);
                    return it != L[k].ent.end() && it->second.coin.has_value();
                }
            }
            return true;
        case SPEND:
            return !HeldAbove(k, op.o);
        case EMPLACE:
            return !HeldAbove(k, op.o) && !L[k].ent.count(op.o);
        case RESET:
            for (const auto& [o, e] : L[k].ent)
                if (e.dirty && HeldAbove(k, o)) return false;
            return true;
        default:
            return true;
        }
    }
};

class TCache : public CCoinsViewCache
{
public:
    using CCoinsViewCache::CCoinsViewCache;
    const CCoinsMap& Map() const { return cacheCoins; }
    size_t CachedUsage() const { return cachedCoinsUsage; }
    const uint256& RawBest() const { return m_block_hash; }
    void DoReset() { auto guard{CreateResetGuard()}; }
};

struct Counters {
    uint64_t ops{0}, merges{0};
};

class Sim
{
public:
    std::unique_ptr<CCoinsViewDB> db;
    std::vector<std::unique_ptr<TCache>> caches; // caches[k-1] = layer k
    Model m;
    int nlayers, nout;
    int next_bb{1};
    bool bad{false};
    std::vector<std::string> history;
    std::string sig, asig; // concrete / abstract state signature after the last Observe()
    Counters cnt;
    bool last_merged{false};

    Sim(int layers, int outpoints, uint64_t batch_bytes) : nlayers(layers), nout(outpoints)
    {
        db = std::make_unique<CCoinsViewDB>(DBParams{.path = "", .cache_bytes = 1 << 20, .memory_only = true}, CoinsViewOptions{.batch_write_bytes = batch_bytes});
        CCoinsView* base = db.get();
        for (int k = 1; k <= layers; ++k) {
            caches.push_back(std::make_unique<TCache>(base, /*deterministic=*/true));
            base = caches.back().get();
        }
        m.L.resize(layers + 1);
    }
    TCache& C(int k) { return *caches[k - 1]; }

    void Violation(const std::string& key, const std::string& msg, const vh::J& extra = vh::J())
    {
        bad = true;
        static int logged = 0;
        if (logged++ >= 25) {
            vh::log().obs("violations_suppressed");
            return;
        }
        std::vector<std::string> h;
        for (const auto& s : history) h.push_back(vh::JStr(s));
        vh::J j;
        j.raw("ops", vh::JArr(h)).i("layers", nlayers).i("outpoints", nout).raw("extra", extra.done());
        vh::log().violation(key, msg, j);
    }

    OptCoin RealView(int k, int o)
    {
        if (k == 0) return FromRealOpt(db->GetCoin(Outpoint(o)));
        return FromRealOpt(C(k).PeekCoin(Outpoint(o)));
    }

    // Full comparison of every layer with the model. Produces the state signatures.
    void Observe()
    {
        std::string s, a;
        for (int k = nlayers; k >= 1 && !bad; --k) {
            TCache& c = C(k);
            const CCoinsMap& map = c.Map();
            size_t ndirty = 0, usage = 0;
            std::set<int> seen;
            s += "L" + std::to_string(k) + "b" + std::to_string(BlockId(c.RawBest())) + "[";
            a += "L[";
            for (int o = 0; o < nout && !bad; ++o) {
                const COutPoint op = Outpoint(o);
                auto rit = map.find(op);
                auto mit = m.L[k].ent.find(o);
                const OptCoin parent = m.View(k - 1, o);
                const std::string where = "L" + std::to_string(k) + " o" + std::to_string(o);
                if (rit == map.end()) {
                    if (mit != m.L[k].ent.end()) {
                        const MEntry& e = mit->second;
                        if (!(e.dirty && !e.coin && !parent)) {
                            Violation("entry-missing", "cache layer lost an entry that the model holds (" + where + ")", vh::J().str("model", CoinId(e.coin)).b("model_dirty", e.dirty));
                            break;
                        }
                        s += "m";
                    }
                    s += "x,";
                    a += ".";
                    continue;
                }
                seen.insert(o);
                const CCoinsCacheEntry& e = rit->second;
                const OptCoin rc = e.coin.IsSpent() ? std::nullopt : OptCoin(FromReal(e.coin));
                usage += e.coin.DynamicMemoryUsage();
                if (e.IsDirty()) ++ndirty;
                // documented valid flag/state combinations
                if (!rc && (!e.IsDirty() || e.IsFresh())) Violation("invalid-entry-state", "spent entry that is not DIRTY or is FRESH (" + where + ")");
                if (rc && e.IsFresh() && !e.IsDirty()) Violation("invalid-entry-state", "FRESH entry that is not DIRTY (" + where + ")");
                // FRESH => the parent view has no unspent coin ; not DIRTY => identical to the parent view
                if (e.IsFresh() && parent) Violation("fresh-misapplied", "entry is FRESH although the parent view holds the coin unspent (" + where + ")", vh::J().str("parent", CoinId(parent)));
                if (!e.IsDirty() && rc != parent) Violation("clean-entry-differs-from-parent", "entry not DIRTY but different from the parent view (" + where + ")", vh::J().str("entry", CoinId(rc)).str("parent", CoinId(parent)));
                if (bad) break;
                if (mit == m.L[k].ent.end()) {
                    Violation("entry-unexpected", "cache layer holds an entry the model does not (" + where + ")", vh::J().str("entry", CoinId(rc)).b("dirty", e.IsDirty()).b("fresh", e.IsFresh()));
                    break;
                }
                if (rc != mit->second.coin) {
                    Violation("entry-coin-mismatch", "cached coin differs from the model (" + where + ")", vh::J().str("entry", CoinId(rc)).str("model", CoinId(mit->second.coin)));
                    break;
                }
                if (e.IsDirty() != mit->second.dirty) {
                    Violation("dirty-flag-mismatch", std::string("entry DIRTY flag differs from the model (") + where + ")", vh::J().b("dirty", e.IsDirty()).b("model_dirty", mit->second.dirty));
                    break;
                }
                s += std::string(e.IsDirty() ? "d" : "c") + (e.IsFresh() ? "f" : "") + CoinId(rc) + ",";
                a += !rc ? "s" : (e.IsFresh() ? "f" : (e.IsDirty() ? "d" : "c"));
                a += (rc == parent) ? "=" : (parent ? "!" : "+");
            }
            if (bad) break;
            if (map.size() != seen.size()) {
                Violation("entry-unexpected", "cache layer holds entries outside the outpoint domain (L" + std::to_string(k) + ")");
                break;
            }
            s += "]";
            a += "]";
            // accounting
            if (c.GetCacheSize() != map.size()) Violation("cache-size", "GetCacheSize differs from the number of entries");
            if (c.GetDirtyCount() != ndirty) Violation("dirty-count", "GetDirtyCount differs from the number of DIRTY entries", vh::J().u("reported", c.GetDirtyCount()).u("counted", ndirty));
            if (c.CachedUsage() != usage) Violation("coins-usage", "cachedCoinsUsage differs from the recomputed coin usage", vh::J().u("cached", c.CachedUsage()).u("recomputed", usage));
            if (c.DynamicMemoryUsage() != memusage::DynamicUsage(map) + usage) Violation("memory-usage", "DynamicMemoryUsage differs from map usage + recomputed coin usage");
            if (bad) break;
            // public interface, non-mutating
            for (int o = 0; o < nout && !bad; ++o) {
                const OptCoin want = m.View(k, o);
                const OptCoin got = RealView(k, o);
                if (got != want) {
                    const char* key = (got && !want) ? "coin-resurrected" : (!got && want) ? "coin-lost" : "coin-mismatch";
                    Violation(key, "PeekCoin of layer " + std::to_string(k) + " outpoint " + std::to_string(o) + " differs from the model", vh::J().str("got", CoinId(got)).str("want", CoinId(want)));
                    break;
                }
                auto mit = m.L[k].ent.find(o);
                const bool want_in_cache = mit != m.L[k].ent.end() && mit->second.coin.has_value();
                if (c.HaveCoinInCache(Outpoint(o)) != want_in_cache) {
                    Violation("have-coin-in-cache", "HaveCoinInCache differs from the model", vh::J().i("layer", k).i("o", o).b("want", want_in_cache));
                    break;
                }
            }
        }
        if (!bad) {
            s += "DB" + std::to_string(m.dbbb) + "[";
            a += "D[";
            for (int o = 0; o < nout && !bad; ++o) {
                const OptCoin want = m.View(0, o);
                const COutPoint op = Outpoint(o);
                const OptCoin g1 = FromRealOpt(db->GetCoin(op));
                const OptCoin g2 = FromRealOpt(db->PeekCoin(op));
                const bool h = db->HaveCoin(op);
                if (g1 != want || g2 != want || h != want.has_value()) {
                    const char* key = (g1 && !want) ? "coin-resurrected" : (!g1 && want) ? "coin-lost" : "coin-mismatch";
                    Violation(key, "database view of outpoint " + std::to_string(o) + " differs from the model", vh::J().str("got", CoinId(g1)).str("peek", CoinId(g2)).b("have", h).str("want", CoinId(want)));
                }
                s += CoinId(want) + ",";
                a += want ? "u" : ".";
            }
            s += "]";
            a += "]";
        }
        if (!bad) {
            for (int k = 1; k <= nlayers; ++k) C(k).SanityCheck();
            sig = s;
            asig = a;
        }
    }

    void ClassifyMerge(int k)
    {
        // evidence only: which merge situation does each dirty child entry meet in the parent?
        last_merged = false;
        const CCoinsMap& child = C(k).Map();
        for (const auto& [op, e] : child) {
            if (!e.IsDirty()) continue;
            last_merged = true;
            ++cnt.merges;
            const bool cspent = e.coin.IsSpent();
            if (k == 1) {
                vh::log().obs(cspent ? "bw_db_erase" : "bw_db_write");
                continue;
            }
            const CCoinsMap& par = C(k - 1).Map();
            auto pit = par.find(op);
            if (pit == par.end()) {
                if (e.IsFresh() && cspent) vh::log().obs("bw_absent_fresh_spent");
                else vh::log().obs(e.IsFresh() ? "bw_insert_fresh" : (cspent ? "bw_insert_spent" : "bw_insert_nonfresh"));
            } else if (e.IsFresh() && !pit->second.coin.IsSpent()) {
                vh::log().obs("bw_fresh_over_unspent_parent");
            } else if (pit->second.IsFresh() && cspent) {
                vh::log().obs("bw_erase_parent_fresh");
            } else {
                std::string n = "bw_modify_parent_";
                n += pit->second.IsDirty() ? (pit->second.coin.IsSpent() ? "spent" : (pit->second.IsFresh() ? "fresh" : "dirty")) : "clean";
                n += cspent ? "_by_spend" : "_by_coin";
                vh::log().obs(n);
            }
        }
    }

    // Apply one (valid) operation to the real stack and the model; compares direct results.
    void Step(const Op& op)
    {
        history.push_back(op.Str());
        ++cnt.ops;
        const int k = op.layer;
        const COutPoint outp = Outpoint(op.o);
        TCache& c = C(k);
        last_merged = false;
        try {
            switch (op.kind) {
            case ADD: {
                const bool unspendable = CScript(op.coin.spk.begin(), op.coin.spk.end()).IsUnspendable();
                auto mit = m.L[k].ent.find(op.o);
                const bool expect_throw = !op.flag && !unspendable && mit != m.L[k].ent.end() && mit->second.coin.has_value();
                bool thrown = false;
                try {
                    c.AddCoin(outp, ToReal(op.coin), op.flag);
                } catch (const std::logic_error&) {
                    thrown = true;
                }
                if (thrown != expect_throw) {
                    Violation(thrown ? "unexpected-logic-error" : "missing-logic-error", "AddCoin(possible_overwrite=false) over an unspent cached coin must throw std::logic_error, and only then");
                    return;
                }
                if (thrown) {
                    vh::log().obs("logic_error_expected");
                } else if (unspendable) {
                    vh::log().obs("add_unspendable_ignored");
                } else {
                    m.L[k].ent[op.o] = MEntry{op.coin, true};
                    vh::log().obs(op.flag ? "add_overwrite" : "add_no_overwrite");
                }
                break;
            }
            case EMPLACE: {
                c.EmplaceCoinInternalDANGER(outp, ToReal(op.coin));
                m.L[k].ent[op.o] = MEntry{op.coin, true};
                break;
            }
            case SPEND: {
                const OptCoin want = m.Fetch(k, op.o);
                Coin moved;
                const bool r = c.SpendCoin(outp, op.flag ? &moved : nullptr);
                // The return value is only pinned down when an unspent coin exists (the header documents "no effect" otherwise,
                // not the result; the implementation answers true for an entry it holds as spent).
                if (want && !r) {
                    Violation("spend-result", "SpendCoin returned false although the view holds the coin unspent", vh::J().b("got", r).b("want", true));
                    return;
                }
                if (!want && r) vh::log().obs("spend_of_spent_entry_returned_true");
                if (want && op.flag && OptCoin(FromReal(moved)) != want) {
                    Violation("spend-moveout", "SpendCoin moved-out coin differs from the model", vh::J().str("got", CoinId(FromReal(moved))).str("want", CoinId(want)));
                    return;
                }
                if (want) {
                    m.L[k].ent[op.o] = MEntry{std::nullopt, true};
                    vh::log().obs(op.flag ? "spend_moveout" : "spend_plain");
                } else {
                    vh::log().obs("spend_nothing");
                }
                break;
            }
            case GET: {
                const OptCoin want = m.Fetch(k, op.o);
                const OptCoin got = FromRealOpt(c.GetCoin(outp));
                if (got != want) Violation((got && !want) ? "coin-resurrected" : (!got && want) ? "coin-lost" : "coin-mismatch", "GetCoin differs from the model", vh::J().str("got", CoinId(got)).str("want", CoinId(want)));
                vh::log().obs(want ? "read_hit" : "read_miss");
                break;
            }
            case HAVE: {
                const OptCoin want = m.Fetch(k, op.o);
                const bool got = c.HaveCoin(outp);
                if (got != want.has_value()) Violation(got ? "coin-resurrected" : "coin-lost", "HaveCoin differs from the model", vh::J().b("got", got));
                break;
            }
            case ACCESS: {
                const OptCoin want = m.Fetch(k, op.o);
                const Coin& r = c.AccessCoin(outp);
                const OptCoin got = r.IsSpent() ? std::nullopt : OptCoin(FromReal(r));
                if (got != want) Violation((got && !want) ? "coin-resurrected" : (!got && want) ? "coin-lost" : "coin-mismatch", "AccessCoin differs from the model", vh::J().str("got", CoinId(got)).str("want", CoinId(want)));
                break;
            }
            case PEEK: {
                const OptCoin want = m.View(k, op.o);
                const OptCoin got = FromRealOpt(c.PeekCoin(outp));
                if (got != want) Violation((got && !want) ? "coin-resurrected" : (!got && want) ? "coin-lost" : "coin-mismatch", "PeekCoin differs from the model", vh::J().str("got", CoinId(got)).str("want", CoinId(want)));
                break;
            }
            case UNCACHE: {
                c.Uncache(outp);
                auto mit = m.L[k].ent.find(op.o);
                if (mit != m.L[k].ent.end() && !mit->second.dirty) {
                    m.L[k].ent.erase(mit);
                    vh::log().obs("uncache_clean");
                } else if (mit != m.L[k].ent.end()) {
                    vh::log().obs("uncache_dirty_kept");
                }
                break;
            }
            case FLUSH:
            case SYNC: {
                if (m.L[k].bb == 0) {
                    const int id = next_bb++;
                    c.SetBestBlock(BlockHash(id));
                    m.L[k].bb = id;
                }
                std::vector<OptCoin> pre(nout);
                for (int o = 0; o < nout; ++o) pre[o] = RealView(k, o);
                ClassifyMerge(k);
                if (op.kind == FLUSH) c.Flush(/*reallocate_cache=*/op.flag);
                else c.Sync();
                // model
                for (auto& [o, e] : m.L[k].ent) {
                    if (!e.dirty) continue;
                    if (k == 1) {
                        if (e.coin) m.db[o] = *e.coin;
                        else m.db.erase(o);
                    } else {
                        m.L[k - 1].ent[o] = MEntry{e.coin, true};
                    }
                }
                if (k == 1) m.dbbb = m.L[k].bb;
                else m.L[k - 1].bb = m.L[k].bb;
                if (op.kind == FLUSH) {
                    m.L[k].ent.clear();
                } else {
                    for (auto it = m.L[k].ent.begin(); it != m.L[k].ent.end();) {
                        if (!it->second.coin) {
                            it = m.L[k].ent.erase(it);
                        } else {
                            it->second.dirty = false;
                            ++it;
                        }
                    }
                }
                // direct (model-free) post-conditions of the statement
                for (int o = 0; o < nout && !bad; ++o) {
                    const OptCoin child = RealView(k, o), parent = RealView(k - 1, o);
                    if (child != pre[o]) Violation((child && !pre[o]) ? "coin-resurrected" : (!child && pre[o]) ? "coin-lost" : "coin-mismatch", "Flush/Sync changed the view of the flushed layer", vh::J().i("o", o).str("before", CoinId(pre[o])).str("after", CoinId(child)));
                    else if (parent != child) Violation((parent && !child) ? "coin-resurrected" : (!parent && child) ? "coin-lost" : "coin-mismatch", "after Flush/Sync the parent's view differs from the child's", vh::J().i("o", o).str("parent", CoinId(parent)).str("child", CoinId(child)));
                }
                if (c.GetDirtyCount() != 0) Violation("dirty-count", "GetDirtyCount() != 0 after Flush/Sync");
                if (op.kind == FLUSH && c.GetCacheSize() != 0) Violation("cache-size", "GetCacheSize() != 0 after Flush");
                vh::log().obs(op.kind == FLUSH ? (last_merged ? "flush_with_changes" : "flush_empty") : (last_merged ? "sync_with_changes" : "sync_empty"));
                break;
            }
            case RESET: {
                bool had = false;
                for (const auto& [o, e] : m.L[k].ent) had |= e.dirty;
                c.DoReset();
                m.L[k].ent.clear();
                m.L[k].bb = 0;
                if (c.GetDirtyCount() != 0 || c.GetCacheSize() != 0) Violation("reset-counts", "Reset left a non-zero dirty count or cache size");
                vh::log().obs(had ? "reset_discarding_changes" : "reset_clean");
                break;
            }
            case SETBEST: {
                const int id = next_bb++;
                c.SetBestBlock(BlockHash(id));
                m.L[k].bb = id;
                break;
            }
            case GETBEST: {
                const int want = m.BestBlock(k);
                const int got = BlockId(c.GetBestBlock());
                if (got != want) Violation("best-block", "GetBestBlock differs from the model", vh::J().i("got", got).i("want", want).i("layer", k));
                break;
            }
            default:
                break;
            }
        } catch (const std::logic_error& e) {
            Violation("unexpected-logic-error", std::string("std::logic_error escaped: ") + e.what());
            return;
        }
        vh::log().obs(std::string("op_") + KNAME[op.kind]);
        if (!bad) Observe();
    }

    // End-of-sequence checks: best blocks top-down, full database scan.
    void Finish(bool full_scan = true)
    {
        if (bad) return;
        for (int k = nlayers; k >= 1 && !bad; --k) {
            const int want = m.BestBlock(k);
            const int got = BlockId(C(k).GetBestBlock());
            if (got != want) Violation("best-block", "GetBestBlock differs from the model at the end of the sequence", vh::J().i("got", got).i("want", want).i("layer", k));
        }
        if (bad) return;
        if (BlockId(db->GetBestBlock()) != m.dbbb) Violation("best-block", "database best block differs from the model");
        if (!db->GetHeadBlocks().empty()) Violation("head-blocks", "database left in a partially-written state (head blocks set)");
        if (!full_scan) return;
        std::map<int, MCoin> found;
        std::unique_ptr<CCoinsViewCursor> cur{db->Cursor()};
        size_t n = 0;
        for (; cur->Valid(); cur->Next()) {
            COutPoint key;
            Coin coin;
            if (!cur->GetKey(key) || !cur->GetValue(coin)) {
                Violation("db-cursor", "database cursor entry unreadable");
                return;
            }
            ++n;
            for (int o = 0; o < nout; ++o)
                if (key == Outpoint(o)) found[o] = FromReal(coin);
        }
        if (n != found.size() || found != m.db) Violation("db-content", "database content differs from the model at the end of the sequence", vh::J().u("db_entries", n).u("model_entries", m.db.size()));
    }

    // Bring stack and database back to the empty state (used between exhaustive sequences of one case).
    // The result is checked against a fresh model, so a defective Reset/Flush cannot hide here.
    bool Recycle()
    {
        if (bad) return false;
        history.clear();
        history.push_back("<recycle>");
        int newbb = m.dbbb;
        try {
            for (int k = nlayers; k >= 1; --k) C(k).DoReset();
            bool any = false;
            for (int o = 0; o < nout; ++o) {
                if (m.db.count(o)) {
                    C(1).SpendCoin(Outpoint(o));
                    any = true;
                }
            }
            if (any) {
                newbb = next_bb++;
                C(1).SetBestBlock(BlockHash(newbb));
                C(1).Flush(false);
                C(1).DoReset();
            }
        } catch (const std::logic_error&) {
            bad = true;
            return false;
        }
        Model fresh;
        fresh.L.resize(nlayers + 1);
        fresh.dbbb = newbb;
        m = fresh;
        Observe();
        if (bad) return false;
        history.clear();
        return true;
    }
};

MCoin MakeCoin(uint64_t id, int script_class, vh::Rng* rng)
{
    // script classes: 0 empty, 1 short (inline prevector), 2 exactly 28 bytes, 3 29 bytes (heap), 4 P2PKH-shaped, 5 P2SH-shaped,
    // 6 long (100), 7 P2PK-shaped 35 bytes, 8 unspendable (OP_RETURN)
    MCoin c;
    c.v = static_cast<int64_t>(1000 + id * 7);
    c.h = static_cast<uint32_t>(1 + id % 100000);
    c.cb = (id & 1) != 0;
    auto fillb = [&](size_t n) {
        c.spk.resize(n);
        for (size_t i = 0; i < n; ++i) c.spk[i] = rng ? static_cast<unsigned char>(rng->below(256)) : static_cast<unsigned char>(0x51 + ((id + i) % 16));
        if (n && c.spk[0] == 0x6a) c.spk[0] = 0x51;
    };
    switch (script_class) {
    case 0: break;
    case 1: fillb(5); break;
    case 2: fillb(28); break;
    case 3: fillb(29); break;
    case 4:
        fillb(25);
        c.spk[0] = 0x76; c.spk[1] = 0xa9; c.spk[2] = 20; c.spk[23] = 0x88; c.spk[24] = 0xac;
        break;
    case 5:
        fillb(23);
        c.spk[0] = 0xa9; c.spk[1] = 20; c.spk[22] = 0x87;
        break;
    case 6: fillb(100); break;
    case 7:
        fillb(35);
        c.spk[0] = 33; c.spk[1] = 0x02 + (id & 1); c.spk[34] = 0xac;
        break;
    default:
        fillb(10);
        c.spk[0] = 0x6a;
        break;
    }
    return c;
}

// ---- exhaustive small-scope enumeration -------------------------------------------------------------------------

struct AlphaOp {
    int kind; // 0 add-noow 1 add-ow 2 spend 3 read 4 uncache 5 emplace | 6 flush 7 sync 8 reset
    int layer, o;
};

std::vector<AlphaOp> Alphabet(int layers, int outs)
{
    std::vector<AlphaOp> a;
    for (int k = 1; k <= layers; ++k) {
        for (int o = 0; o < outs; ++o)
            for (int kind = 0; kind < 6; ++kind) a.push_back({kind, k, o});
        for (int kind = 6; kind < 9; ++kind) a.push_back({kind, k, -1});
    }
    return a;
}

Op Concrete(const AlphaOp& a, int pos, uint64_t salt)
{
    Op op;
    op.layer = a.layer;
    op.o = a.o < 0 ? 0 : a.o;
    const uint64_t id = static_cast<uint64_t>(pos + 1);
    switch (a.kind) {
    case 0:
    case 1:
        op.kind = ADD;
        op.flag = a.kind == 1;
        op.coin = MakeCoin(id, ((pos + salt) & 1) ? 3 : 1, nullptr);
        break;
    case 2:
        op.kind = SPEND;
        op.flag = ((pos + salt) & 1) != 0;
        break;
    case 3:
        op.kind = static_cast<Kind>(GET + (pos + a.layer + a.o + salt) % 3);
        break;
    case 4: op.kind = UNCACHE; break;
    case 5:
        op.kind = EMPLACE;
        op.coin = MakeCoin(id + 50, ((pos + salt) & 1) ? 6 : 2, nullptr);
        break;
    case 6:
        op.kind = FLUSH;
        op.flag = ((pos + salt) % 3) == 0;
        break;
    case 7: op.kind = SYNC; break;
    default: op.kind = RESET; break;
    }
    return op;
}

struct ExState {
    std::unique_ptr<Sim> sim;
    std::vector<AlphaOp> alpha;
    int layers, outs, maxlen;
    uint64_t salt;
    uint64_t recycled{0}, nseq{0}, nops{0}, pruned_noop{0}, pruned_invalid{0}, pruned_sym{0}, nmerge_seq{0};
    std::set<uint64_t> sigs;
    int maxdepth{0};
    bool failed{false};
};

// Runs seq (all ops known to be within the preconditions) from the empty state.
// noop: the last op left the complete state unchanged. snap: model state after the sequence.
void RunSeq(ExState& ex, const std::vector<int>& seq, bool& noop, bool& merged, Model& snap)
{
    Sim& sim = *ex.sim;
    noop = false;
    merged = false;
    std::string prev_sig = sim.sig;
    for (size_t i = 0; i < seq.size(); ++i) {
        const Op op = Concrete(ex.alpha[seq[i]], static_cast<int>(i), ex.salt);
        prev_sig = sim.sig;
        sim.Step(op);
        merged |= sim.last_merged;
        if (sim.bad) break;
    }
    // the database object is reused by the sequences of a case: a full cursor scan walks over all tombstones written so
    // far, so it is done for a fraction of the sequences only (the per-outpoint database reads happen after every op)
    if (!sim.bad) sim.Finish(/*full_scan=*/ex.nseq % 16 == 0);
    ++ex.nseq;
    ex.nops += seq.size();
    if (!sim.bad) {
        noop = (sim.sig == prev_sig);
        ex.sigs.insert(Fnv(sim.asig));
        snap = sim.m;
    }
}

void ResetSim(ExState& ex)
{
    if (ex.sim && !ex.sim->bad && ++ex.recycled % 400 != 0 && ex.sim->Recycle()) return;
    if (ex.sim && ex.sim->bad) ex.failed = true;
    ex.sim = std::make_unique<Sim>(ex.layers, ex.outs, /*batch_bytes=*/1);
    ex.sim->Observe();
}

bool SymOk(const ExState& ex, const std::vector<int>& seq)
{
    // outpoints are interchangeable: the first touch of outpoint o must come after a touch of every smaller one
    int next = 0;
    for (int idx : seq) {
        const int o = ex.alpha[idx].o;
        if (o < 0) continue;
        if (o > next) return false;
        if (o == next) ++next;
    }
    return true;
}

// Try seq + [a]; recurse when it changed the state. snap = model state after seq.
void Explore(ExState& ex, std::vector<int>& seq, const Model& snap);

// returns true when the sequence was executed, held, and changed the state (so it is worth extending)
bool TryLast(ExState& ex, std::vector<int>& seq, const Model& before, Model& after, bool count)
{
    if (!SymOk(ex, seq)) {
        ++ex.pruned_sym;
        return false;
    }
    const Op last = Concrete(ex.alpha[seq.back()], static_cast<int>(seq.size()) - 1, ex.salt);
    if (!before.Valid(last)) {
        ++ex.pruned_invalid;
        return false;
    }
    bool noop, merged;
    RunSeq(ex, seq, noop, merged, after);
    if (!count) {
        --ex.nseq;
        ex.nops -= seq.size();
    }
    const bool bad = ex.sim->bad;
    ResetSim(ex);
    if (bad) return false;
    if (noop) {
        ++ex.pruned_noop;
        return false;
    }
    if (merged && count) ++ex.nmerge_seq;
    ex.maxdepth = std::max<int>(ex.maxdepth, seq.size());
    return true;
}

void Explore(ExState& ex, std::vector<int>& seq, const Model& snap)
{
    if (static_cast<int>(seq.size()) >= ex.maxlen) return;
    for (int a = 0; a < static_cast<int>(ex.alpha.size()); ++a) {
        seq.push_back(a);
        Model after;
        if (TryLast(ex, seq, snap, after, true)) Explore(ex, seq, after);
        seq.pop_back();
    }
}

} // namespace

// Exhaustive: case c selects the first two operations (scrambled so that shards are balanced); the case enumerates every
// valid continuation up to `len` operations. Params: layers (2), outpoints (2), len (5).
VH_CMD(coinscache_ex)
{
    const int layers = static_cast<int>(args.geti("layers", 2));
    const int outs = static_cast<int>(args.geti("outpoints", 2));
    const int maxlen = static_cast<int>(args.geti("len", 5));
    if (layers < 1 || layers > 3 || outs < 1 || outs > MAXO || maxlen < 2) return 2;
    const std::vector<AlphaOp> alpha = Alphabet(layers, outs);
    const uint64_t A = alpha.size();
    uint64_t mul = 7919;
    while (std::gcd<uint64_t, uint64_t>(mul, A * A) != 1) mul += 2;
    for (uint64_t c = args.from; c < args.to; ++c) {
        vh::set_case(c);
        if (c >= A * A) break;
        const uint64_t p = (c * mul) % (A * A);
        const int a = static_cast<int>(p / A), b = static_cast<int>(p % A);
        ExState ex;
        ex.alpha = alpha;
        ex.layers = layers;
        ex.outs = outs;
        ex.maxlen = maxlen;
        ex.salt = args.seed % 6; // varies script sizes / read flavours / moveout with the seed; the op structure is exhaustive
        ResetSim(ex);
        Model empty;
        empty.L.resize(layers + 1);
        std::vector<int> seq{a};
        Model m1, m2;
        // the length-1 sequence is counted once (by the case with b == 0)
        if (TryLast(ex, seq, empty, m1, /*count=*/b == 0)) {
            seq.push_back(b);
            if (TryLast(ex, seq, m1, m2, true)) Explore(ex, seq, m2);
        }
        if (ex.sim->bad) ex.failed = true;
        std::vector<std::string> sg;
        for (uint64_t s : ex.sigs) sg.push_back(std::to_string(s));
        vh::log().obs("sequences", ex.nseq);
        vh::log().obs("ops_executed", ex.nops);
        vh::log().obs("pruned_noop_prefix", ex.pruned_noop);
        vh::log().obs("pruned_precondition", ex.pruned_invalid);
        vh::log().obs("sequences_with_merge", ex.nmerge_seq);
        vh::log().obs_max("sequence_length", ex.maxdepth);
        vh::log().rec(vh::J().u("case", c).str("mode", "ex").str("prefix", Concrete(alpha[a], 0, ex.salt).Str() + ";" + Concrete(alpha[b], 1, ex.salt).Str()).u("n", ex.nseq).u("ops", ex.nops).b("nt", ex.nmerge_seq > 0).raw("sigs", vh::JArr(sg)).b("failed", ex.failed));
    }
    return 0;
}

// Random: one long random sequence per case over 1..3 layers and 3..4 outpoints. Params: len (200).
VH_CMD(coinscache_rand)
{
    const int len = static_cast<int>(args.geti("len", 200));
    for (uint64_t c = args.from; c < args.to; ++c) {
        vh::set_case(c);
        vh::Rng rng(args.seed, c);
        const int layers = 1 + static_cast<int>(rng.below(3));
        const int outs = 3 + static_cast<int>(rng.below(2));
        static const uint64_t batches[] = {1, 40, 150, 1 << 20};
        Sim sim(layers, outs, batches[rng.below(4)]);
        sim.Observe();
        // per-case op weights so that some cases are flush-heavy, others read-heavy
        std::vector<uint32_t> w(NKINDS);
        w[ADD] = 20 + rng.below(20); w[SPEND] = 15 + rng.below(20); w[GET] = 4 + rng.below(8); w[HAVE] = 4 + rng.below(8); w[ACCESS] = 4 + rng.below(8);
        w[PEEK] = 3; w[UNCACHE] = 4 + rng.below(8); w[EMPLACE] = 2 + rng.below(4); w[FLUSH] = 3 + rng.below(10); w[SYNC] = 3 + rng.below(10);
        w[RESET] = 1 + rng.below(3); w[SETBEST] = 2; w[GETBEST] = 2;
        std::set<uint64_t> sigs;
        std::map<int, int> kinds;
        uint64_t id = 0, skipped = 0, merges = 0;
        for (int i = 0; i < len && !sim.bad; ++i) {
            Op op;
            // draw until an op within the preconditions comes up (bounded)
            bool found = false;
            for (int attempt = 0; attempt < 20 && !found; ++attempt) {
                op.kind = static_cast<Kind>(rng.weighted(w));
                // upper layers are modified more often than lower ones
                op.layer = layers - static_cast<int>(rng.below(layers) * rng.below(2));
                if (rng.chance(1, 4)) op.layer = 1 + static_cast<int>(rng.below(layers));
                op.o = static_cast<int>(rng.below(outs));
                op.flag = rng.coin();
                if (op.kind == ADD || op.kind == EMPLACE) {
                    int cls = static_cast<int>(rng.below(8));
                    if (op.kind == ADD && rng.chance(1, 25)) cls = 8;
                    op.coin = MakeCoin(++id, cls, &rng);
                    if (op.kind == ADD && !op.flag && rng.chance(1, 2)) {
                        // prefer the legal form for the current state
                        op.flag = sim.m.View(op.layer, op.o).has_value() && rng.chance(9, 10);
                    }
                }
                found = sim.m.Valid(op);
                if (!found) ++skipped;
            }
            if (!found) continue;
            sim.Step(op);
            ++kinds[op.kind];
            if (sim.last_merged) ++merges;
            if (!sim.bad) sigs.insert(Fnv(sim.asig));
        }
        sim.Finish();
        std::string ks;
        for (auto [k, n] : kinds) ks += std::string(KNAME[k]) + "=" + std::to_string(n) + " ";
        std::vector<std::string> sg;
        for (uint64_t s : sigs) sg.push_back(std::to_string(s));
        vh::log().obs("sequences");
        vh::log().obs("ops_executed", sim.cnt.ops);
        vh::log().obs("layers_" + std::to_string(layers));
        vh::log().obs("precondition_redraws", skipped);
        vh::J j;
        j.u("case", c).str("mode", "rand").u("n", 1).u("ops", sim.cnt.ops).i("layers", layers).i("outpoints", outs).b("nt", merges > 0).u("merges", merges).raw("sigs", vh::JArr(sg)).b("failed", sim.bad);
        if (c < 3) j.raw("sample", vh::J().str("kinds", ks).i("layers", layers).i("outpoints", outs).str("final_state", sim.sig).done());
        vh::log().rec(j);
    }
    return 0;
}
