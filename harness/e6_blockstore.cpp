// E6 `blockstore` (C17): BlockManager with fast_prune (64 KiB block files, 16 KiB chunks) on a real directory, with and without the
// XOR obfuscation key. Lock-step with an own model of record positions and contents; then byte-level corruption of stored records.
//
// Per case: random-size blocks (200 B .. 60 KB) and undo records are written; every record is read back through
// ReadBlock(pos,hash) / ReadBlock(pos) / ReadBlock(index) / ReadRawBlock (whole and part) / ReadBlockUndo and, independently of the
// read path, straight from the file (own de-obfuscation): magic | size | payload (| checksum) at the position the index records.
// Re-opening (WriteBlockIndexDB + new BlockManager + LoadBlockIndexDB) and pruning of whole files are interleaved.
// Corruption: flips / byte replacement / zero-fill / truncation in every region of selected records; see checks/C17.py for the oracle.
#include <common/vh.h>

#include <chain.h>
#include <chainparams.h>
#include <coins.h>
#include <consensus/merkle.h>
#include <crypto/sha256.h>
#include <flatfile.h>
#include <kernel/notifications_interface.h>
#include <node/blockstorage.h>
#include <pow.h>
#include <primitives/block.h>
#include <primitives/transaction.h>
#include <script/script.h>
#include <streams.h>
#include <test/util/setup_common.h>
#include <undo.h>
#include <util/fs.h>
#include <util/translation.h>
#include <validation.h>

#include <fcntl.h>
#include <sys/stat.h>
#include <unistd.h>

#include <map>
#include <memory>
#include <optional>
#include <set>
#include <stdexcept>
#include <string>
#include <vector>

namespace {
using Bytes = std::vector<unsigned char>;

class BsNotif : public kernel::Notifications
{
public:
    int fatal{0}, flush{0};
    void flushError(const bilingual_str&) override { ++flush; }
    void fatalError(const bilingual_str&) override { ++fatal; }
};

class BM : public node::BlockManager
{
public:
    using node::BlockManager::BlockManager;
    using node::BlockManager::m_blockfile_info;
    using node::BlockManager::m_dirty_blockindex;
};

struct Rec {
    uint256 hash;
    uint256 prev;
    int height{0};
    Bytes bytes;       // serialized block (with witness)
    bool witness{false};
    int file{-1};
    unsigned pos{0};   // payload position as returned by WriteBlock
    bool pruned{false};
    bool has_undo{false};
    Bytes undo;        // serialized CBlockUndo
    unsigned undo_pos{0};
    std::shared_ptr<CBlock> block;
};

template <typename T>
Bytes Ser(const T& obj)
{
    DataStream ss;
    ss << obj;
    Bytes b(ss.size());
    if (!b.empty()) std::memcpy(b.data(), ss.data(), ss.size());
    return b;
}

Bytes Sha256d(const Bytes& a, const Bytes& b)
{
    unsigned char h1[32], h2[32];
    CSHA256 s;
    if (!a.empty()) s.Write(a.data(), a.size());
    if (!b.empty()) s.Write(b.data(), b.size());
    s.Finalize(h1);
    CSHA256().Write(h1, 32).Finalize(h2);
    return Bytes(h2, h2 + 32);
}

// ---- direct file access (independent of AutoFile / Obfuscation)
bool PRead(const fs::path& p, uint64_t off, size_t n, Bytes& out)
{
    int fd = ::open(fs::PathToString(p).c_str(), O_RDONLY | O_CLOEXEC);
    if (fd < 0) return false;
    out.resize(n);
    size_t got = 0;
    while (got < n) {
        ssize_t r = ::pread(fd, out.data() + got, n - got, off + got);
        if (r <= 0) break;
        got += r;
    }
    ::close(fd);
    out.resize(got);
    return got == n;
}
bool PWrite(const fs::path& p, uint64_t off, const unsigned char* d, size_t n)
{
    int fd = ::open(fs::PathToString(p).c_str(), O_WRONLY | O_CLOEXEC);
    if (fd < 0) return false;
    size_t done = 0;
    while (done < n) {
        ssize_t r = ::pwrite(fd, d + done, n - done, off + done);
        if (r <= 0) break;
        done += r;
    }
    ::close(fd);
    return done == n;
}
int64_t FileSize(const fs::path& p)
{
    struct stat st;
    if (::stat(fs::PathToString(p).c_str(), &st) != 0) return -1;
    return st.st_size;
}
void DeXor(Bytes& b, uint64_t file_off, const Bytes& key)
{
    for (size_t i = 0; i < b.size(); ++i) b[i] ^= key[(file_off + i) % key.size()];
}

struct Store {
    BasicTestingSetup& basic;
    BsNotif notif;
    fs::path dir;
    bool use_xor;
    Bytes key;
    std::unique_ptr<BM> bm;
    const CChainParams& params;

    Store(BasicTestingSetup& b, fs::path d, bool x, Bytes k) : basic(b), dir(std::move(d)), use_xor(x), key(std::move(k)), params(Params()) {}

    void Open()
    {
        node::BlockManager::Options o{
            .chainparams = params,
            .use_xor = use_xor,
            .prune_target = node::BlockManager::PRUNE_TARGET_MANUAL,
            .fast_prune = true,
            .blocks_dir = dir / "blocks",
            .notifications = notif,
            .block_tree_db_params = DBParams{.path = dir / "blocks" / "index", .cache_bytes = 1 << 20, .memory_only = false, .wipe_data = false},
        };
        bm = std::make_unique<BM>(basic.m_interrupt, o);
    }
    fs::path BlkPath(int f) const { return dir / "blocks" / fs::u8path(strprintf("blk%05u.dat", f)); }
    fs::path RevPath(int f) const { return dir / "blocks" / fs::u8path(strprintf("rev%05u.dat", f)); }
};

// Random block of roughly `target` serialized bytes on top of prev. Header carries regtest proof of work and the merkle root.
std::shared_ptr<CBlock> MakeBlock(vh::Rng& rng, const uint256& prev, int height, uint32_t time, size_t target, bool witness, const Consensus::Params& cp)
{
    auto blk = std::make_shared<CBlock>();
    blk->nVersion = 0x20000000;
    blk->hashPrevBlock = prev;
    blk->nTime = time;
    blk->nBits = 0x207fffff;
    CMutableTransaction cb;
    cb.version = 2;
    cb.vin.resize(1);
    cb.vin[0].prevout.SetNull();
    cb.vin[0].scriptSig = CScript() << height << rng.bytes(8);
    cb.vout.emplace_back(5000000000, CScript() << OP_TRUE);
    blk->vtx.push_back(MakeTransactionRef(cb));
    size_t sz = 81 + 70;
    while (sz + 70 < target) {
        CMutableTransaction tx;
        tx.version = 1 + rng.below(2);
        const int nin = 1 + rng.below(3);
        for (int i = 0; i < nin; ++i) {
            CTxIn in{COutPoint{Txid::FromUint256(uint256{rng.bytes(32)}), static_cast<uint32_t>(rng.below(6))}};
            const size_t room = target > sz ? target - sz : 0;
            const size_t sl = std::min<size_t>(room, rng.chance(1, 8) ? rng.below(9000) : rng.below(160));
            Bytes sd = rng.bytes(sl);
            in.scriptSig = CScript(sd.begin(), sd.end());
            in.nSequence = static_cast<uint32_t>(rng.next());
            sz += 41 + sl;
            tx.vin.push_back(in);
        }
        const int nout = 1 + rng.below(3);
        for (int i = 0; i < nout; ++i) {
            Bytes sd = rng.bytes(rng.below(60));
            tx.vout.emplace_back(static_cast<CAmount>(rng.below(2100000000000000ULL)), CScript(sd.begin(), sd.end()));
            sz += 9 + sd.size();
        }
        if (witness && rng.coin()) {
            for (auto& in : tx.vin) {
                const int items = rng.below(3);
                for (int k = 0; k < items; ++k) in.scriptWitness.stack.push_back(rng.bytes(rng.below(80)));
            }
        }
        tx.nLockTime = static_cast<uint32_t>(rng.next());
        sz += 10;
        blk->vtx.push_back(MakeTransactionRef(tx));
    }
    blk->hashMerkleRoot = BlockMerkleRoot(*blk);
    while (!CheckProofOfWork(blk->GetHash(), blk->nBits, cp)) ++blk->nNonce;
    return blk;
}

CBlockUndo MakeUndo(vh::Rng& rng, size_t ntx)
{
    CBlockUndo u;
    const size_t n = std::min<size_t>(ntx > 0 ? ntx - 1 : 0, 40);
    for (size_t t = 0; t < n; ++t) {
        CTxUndo tu;
        const int nc = 1 + rng.below(3);
        for (int i = 0; i < nc; ++i) {
            Bytes sd;
            switch (rng.below(4)) {
            case 0: { // P2PKH (compressible)
                sd = {0x76, 0xa9, 20};
                auto h = rng.bytes(20);
                sd.insert(sd.end(), h.begin(), h.end());
                sd.push_back(0x88);
                sd.push_back(0xac);
                break;
            }
            case 1: { // P2SH (compressible)
                sd = {0xa9, 20};
                auto h = rng.bytes(20);
                sd.insert(sd.end(), h.begin(), h.end());
                sd.push_back(0x87);
                break;
            }
            default: sd = rng.bytes(1 + rng.below(70));
            }
            CTxOut out{static_cast<CAmount>(rng.below(2100000000000000ULL)), CScript(sd.begin(), sd.end())};
            tu.vprevout.emplace_back(std::move(out), static_cast<int>(1 + rng.below(800000)), rng.coin());
        }
        u.vtxundo.push_back(std::move(tu));
    }
    return u;
}

struct Ctx {
    Store& st;
    vh::Rng& rng;
    uint64_t c;
    std::vector<Rec> recs;
    std::map<uint256, size_t> by_hash;
    // own model of the flat-file allocator
    int m_file{0};
    std::vector<uint32_t> m_size{0}, m_usize{0};
    uint64_t bad{0};
    uint64_t reads{0}, straddle_chunk{0}, files_rolled{0};

    void V(const char* key, const std::string& msg, const vh::J& d)
    {
        if (bad++ < 8) vh::log().violation(key, msg, d);
    }
    CBlockIndex* Index(const Rec& r)
    {
        LOCK(cs_main);
        return st.bm->LookupBlockIndex(r.hash);
    }

    // ---------------------------------------------------------------- round trip of one record through every API
    void CheckRecord(size_t i, const char* when)
    {
        const Rec& r = recs[i];
        CBlockIndex* pi = Index(r);
        vh::J d;
        d.u("rec", i).str("when", when).i("file", r.file).u("pos", r.pos).u("size", r.bytes.size()).b("xor", st.use_xor);
        if (!pi) {
            V("index-entry-lost", "block index entry missing", d);
            return;
        }
        FlatFilePos ipos;
        {
            LOCK(cs_main);
            ipos = pi->GetBlockPos();
        }
        ++reads;
        if (r.pruned) {
            CBlock b;
            if (st.bm->ReadBlock(b, *pi)) V("pruned-block-read", "ReadBlock(index) succeeded for a block whose file was pruned", d);
            return;
        }
        if (ipos.nFile != r.file || ipos.nPos != r.pos) {
            V("index-position-changed", "block index position differs from the position WriteBlock returned", d);
            return;
        }
        const FlatFilePos pos{r.file, r.pos};
        CBlock b1, b2, b3;
        if (!st.bm->ReadBlock(b1, pos, r.hash) || Ser(TX_WITH_WITNESS(b1)) != r.bytes) V("roundtrip-mismatch", "ReadBlock(pos, hash) failed or returned different bytes", d);
        if (!st.bm->ReadBlock(b2, pos, std::nullopt) || Ser(TX_WITH_WITNESS(b2)) != r.bytes) V("roundtrip-mismatch", "ReadBlock(pos) failed or returned different bytes", d);
        if (!st.bm->ReadBlock(b3, *pi) || Ser(TX_WITH_WITNESS(b3)) != r.bytes) V("roundtrip-mismatch", "ReadBlock(index) failed or returned different bytes", d);
        auto raw = st.bm->ReadRawBlock(pos);
        if (!raw || raw->size() != r.bytes.size() || std::memcmp(raw->data(), r.bytes.data(), r.bytes.size()) != 0) V("roundtrip-mismatch", "ReadRawBlock failed or returned different bytes", d);
        if (r.bytes.size() > 2) {
            const size_t off = rng.below(r.bytes.size() - 1);
            const size_t len = 1 + rng.below(r.bytes.size() - off);
            auto part = st.bm->ReadRawBlock(pos, std::make_pair(off, len));
            if (!part || part->size() != len || std::memcmp(part->data(), r.bytes.data() + off, len) != 0) V("roundtrip-mismatch", "ReadRawBlock(part) failed or returned different bytes", d);
            auto beyond = st.bm->ReadRawBlock(pos, std::make_pair(off, r.bytes.size() - off + 1));
            if (beyond) V("raw-part-beyond-record", "ReadRawBlock(part) returned data beyond the end of the record", d);
        }
        // straight from the file
        Bytes disk;
        if (!PRead(st.BlkPath(r.file), r.pos - 8, r.bytes.size() + 8, disk)) {
            V("raw-file-mismatch", "record is not completely inside its block file", d);
        } else {
            DeXor(disk, r.pos - 8, st.key);
            const auto& ms = st.params.MessageStart();
            const uint32_t n = static_cast<uint32_t>(r.bytes.size());
            const unsigned char hdr[8] = {ms[0], ms[1], ms[2], ms[3], static_cast<unsigned char>(n), static_cast<unsigned char>(n >> 8), static_cast<unsigned char>(n >> 16), static_cast<unsigned char>(n >> 24)};
            if (std::memcmp(disk.data(), hdr, 8) != 0 || std::memcmp(disk.data() + 8, r.bytes.data(), n) != 0) V("raw-file-mismatch", "bytes in the block file at the indexed position are not magic|size|block", d);
        }
        if (r.has_undo) {
            unsigned upos;
            bool have;
            {
                LOCK(cs_main);
                upos = pi->nUndoPos;
                have = pi->nStatus & BLOCK_HAVE_UNDO;
            }
            if (!have || upos != r.undo_pos) {
                V("index-position-changed", "undo position in the block index differs from the one recorded at write time", d);
            } else {
                CBlockUndo u;
                if (!st.bm->ReadBlockUndo(u, *pi) || Ser(u) != r.undo) V("roundtrip-mismatch", "ReadBlockUndo failed or returned different bytes", d);
                Bytes ud;
                if (!PRead(st.RevPath(r.file), r.undo_pos - 8, r.undo.size() + 40, ud)) {
                    V("raw-file-mismatch", "undo record is not completely inside its undo file", d);
                } else {
                    DeXor(ud, r.undo_pos - 8, st.key);
                    const auto& ms = st.params.MessageStart();
                    const uint32_t n = static_cast<uint32_t>(r.undo.size());
                    Bytes want = {ms[0], ms[1], ms[2], ms[3], static_cast<unsigned char>(n), static_cast<unsigned char>(n >> 8), static_cast<unsigned char>(n >> 16), static_cast<unsigned char>(n >> 24)};
                    want.insert(want.end(), r.undo.begin(), r.undo.end());
                    Bytes prevh(r.prev.begin(), r.prev.end());
                    Bytes ck = Sha256d(prevh, r.undo);
                    want.insert(want.end(), ck.begin(), ck.end());
                    if (ud != want) V("raw-file-mismatch", "bytes in the undo file are not magic|size|undo|sha256d(prevhash|undo)", d);
                }
            }
        }
    }

    void WriteOne(size_t target, bool witness)
    {
        Rec r;
        const bool first = recs.empty();
        r.height = static_cast<int>(recs.size());
        if (first) {
            r.block = std::make_shared<CBlock>(st.params.GenesisBlock());
        } else {
            r.block = MakeBlock(rng, recs.back().hash, r.height, recs.back().block->nTime + 1, target, witness, st.params.GetConsensus());
        }
        r.witness = witness && !first;
        r.hash = r.block->GetHash();
        r.prev = r.block->hashPrevBlock;
        r.bytes = Ser(TX_WITH_WITNESS(*r.block));
        // model: position the record must get
        const uint32_t add = static_cast<uint32_t>(r.bytes.size()) + 8;
        uint32_t maxsz = 0x10000;
        if (add >= maxsz) maxsz = add + 1;
        while (m_size[m_file] + add >= maxsz) {
            ++m_file;
            m_size.resize(m_file + 1, 0);
            m_usize.resize(m_file + 1, 0);
            ++files_rolled;
        }
        const int want_file = m_file;
        const uint32_t want_pos = m_size[m_file] + 8;
        if (want_pos / 0x4000 != (want_pos + r.bytes.size()) / 0x4000) ++straddle_chunk;
        m_size[m_file] += add;
        FlatFilePos pos;
        CBlockIndex* pi;
        {
            LOCK(cs_main);
            CBlockIndex* best = nullptr;
            pi = st.bm->AddToBlockIndex(*r.block, best);
            pos = st.bm->WriteBlock(*r.block, r.height);
            if (!pos.IsNull()) {
                // what ReceivedBlockTransactions records for a stored block
                pi->nTx = r.block->vtx.size();
                pi->nFile = pos.nFile;
                pi->nDataPos = pos.nPos;
                pi->nStatus |= BLOCK_HAVE_DATA;
                pi->RaiseValidity(BLOCK_VALID_TRANSACTIONS);
                st.bm->m_dirty_blockindex.insert(pi);
            }
        }
        vh::J d;
        d.u("rec", recs.size()).u("size", r.bytes.size()).i("want_file", want_file).u("want_pos", want_pos).i("got_file", pos.nFile).u("got_pos", pos.nPos).b("xor", st.use_xor);
        if (pos.IsNull()) {
            V("write-failed", "WriteBlock returned a null position", d);
            throw std::runtime_error("WriteBlock failed");
        }
        if (pos.nFile != want_file || pos.nPos != want_pos) {
            V("position-model-mismatch", "WriteBlock position differs from the sequential allocation model (overlap or gap)", d);
            // follow the code so that the remaining checks stay meaningful
            m_file = pos.nFile;
            m_size.resize(m_file + 1, 0);
            m_usize.resize(m_file + 1, 0);
            m_size[m_file] = pos.nPos + r.bytes.size();
        }
        r.file = pos.nFile;
        r.pos = pos.nPos;
        by_hash[r.hash] = recs.size();
        recs.push_back(std::move(r));
        vh::log().obs("blocks_written");
    }

    void WriteUndo(size_t i)
    {
        Rec& r = recs[i];
        if (r.has_undo || r.pruned || r.height == 0) return;
        CBlockUndo u = MakeUndo(rng, r.block->vtx.size());
        r.undo = Ser(u);
        const uint32_t want = m_usize[r.file] + 8;
        m_usize[r.file] += static_cast<uint32_t>(r.undo.size()) + 40;
        BlockValidationState state;
        bool ok;
        unsigned got;
        CBlockIndex* pi = Index(r);
        {
            LOCK(cs_main);
            ok = st.bm->WriteBlockUndo(u, state, *pi);
            got = pi->nUndoPos;
        }
        vh::J d;
        d.u("rec", i).u("size", r.undo.size()).i("file", r.file).u("want_pos", want).u("got_pos", got);
        if (!ok) {
            V("write-failed", "WriteBlockUndo failed", d);
            throw std::runtime_error("WriteBlockUndo failed");
        }
        if (got != want) {
            V("position-model-mismatch", "undo position differs from the sequential allocation model", d);
            m_usize[r.file] = got + r.undo.size() + 32;
        }
        r.undo_pos = got;
        r.has_undo = true;
        vh::log().obs("undos_written");
    }

    void Reopen()
    {
        {
            LOCK(cs_main);
            st.bm->WriteBlockIndexDB();
        }
        st.bm.reset();
        st.Open();
        bool ok;
        {
            LOCK(cs_main);
            ok = st.bm->LoadBlockIndexDB(std::nullopt);
        }
        if (!ok) {
            V("reopen-failed", "LoadBlockIndexDB failed after WriteBlockIndexDB", vh::J().u("records", recs.size()));
            throw std::runtime_error("reopen failed");
        }
        vh::log().obs("reopens");
        for (int k = 0; k < 6 && !recs.empty(); ++k) CheckRecord(rng.below(recs.size()), "after-reopen");
    }

    void Prune()
    {
        if (m_file < 2) return;
        const int f = static_cast<int>(rng.below(m_file)); // never the current file
        bool any = false;
        for (auto& r : recs) any = any || (r.file == f && !r.pruned);
        if (!any) return;
        {
            LOCK(cs_main);
            st.bm->PruneOneBlockFile(f);
        }
        st.bm->UnlinkPrunedFiles({f});
        for (auto& r : recs) {
            if (r.file == f) r.pruned = true;
        }
        vh::log().obs("files_pruned");
        for (size_t i = 0; i < recs.size(); ++i) {
            if (recs[i].file == f || rng.chance(1, 10)) CheckRecord(i, "after-prune");
        }
    }
};

// ---------------------------------------------------------------------------------------------------------------
// corruption
// ---------------------------------------------------------------------------------------------------------------
struct Corr {
    const char* kind; // bitflip | byte | zerofill | truncate
    uint64_t off;     // offset relative to the record start (magic)
    uint64_t len;
    unsigned char val;
};

const char* BlockRegion(uint64_t off)
{
    if (off < 4) return "magic";
    if (off < 8) return "size";
    if (off < 88) return "header";
    return "tx";
}

void CorruptBlocks(Ctx& cx, size_t i, int per_region)
{
    Store& st = cx.st;
    vh::Rng& rng = cx.rng;
    const Rec& r = cx.recs[i];
    CBlockIndex* pi = cx.Index(r);
    const fs::path path = st.BlkPath(r.file);
    const uint64_t start = r.pos - 8;
    const uint64_t total = r.bytes.size() + 8;
    const int64_t fsize = FileSize(path);
    Bytes orig;
    if (!PRead(path, 0, fsize, orig)) throw std::runtime_error("cannot read block file for corruption");
    std::vector<Corr> plan;
    auto add_pos = [&](uint64_t off) {
        plan.push_back({"bitflip", off, 1, static_cast<unsigned char>(1u << rng.below(8))});
        if (rng.coin()) plan.push_back({"byte", off, 1, static_cast<unsigned char>(1 + rng.below(255))});
    };
    for (uint64_t o = 0; o < 88 && o < total; ++o) add_pos(o); // every byte of magic, size field and header
    const uint64_t txlen = total > 88 ? total - 88 : 0;
    if (txlen <= static_cast<uint64_t>(per_region)) {
        for (uint64_t o = 88; o < total; ++o) add_pos(o);
    } else {
        for (int k = 0; k < per_region; ++k) add_pos(88 + rng.below(txlen));
        add_pos(88);
        add_pos(total - 1);
    }
    for (int k = 0; k < 12; ++k) {
        const uint64_t o = rng.below(total);
        plan.push_back({"zerofill", o, 1 + rng.below(std::min<uint64_t>(64, total - o)), 0});
    }
    for (uint64_t o : {uint64_t{0}, uint64_t{3}, uint64_t{4}, uint64_t{7}, uint64_t{8}, uint64_t{50}, uint64_t{88}, total / 2, total - 1}) {
        if (o < total) plan.push_back({"truncate", o, 0, 0});
    }
    for (const Corr& c : plan) {
        const std::string kind = c.kind;
        Bytes mod;
        bool changed = false;
        if (kind == "truncate") {
            if (::truncate(fs::PathToString(path).c_str(), start + c.off) != 0) throw std::runtime_error("truncate failed");
            changed = true;
        } else {
            mod.assign(orig.begin() + start + c.off, orig.begin() + start + c.off + c.len);
            for (auto& b : mod) {
                const unsigned char o = b;
                if (kind == "bitflip") b ^= c.val;
                else if (kind == "byte") b ^= c.val; // xor with a non-zero value: always a different byte
                else b = 0;
                changed = changed || b != o;
            }
            if (!PWrite(path, start + c.off, mod.data(), mod.size())) throw std::runtime_error("pwrite failed");
        }
        // decoded content of the record region after the corruption (what a faithful reader would see)
        Bytes now;
        const bool whole = PRead(path, start, total, now);
        DeXor(now, start, st.key);
        Bytes dec_orig(orig.begin() + start, orig.begin() + start + total);
        DeXor(dec_orig, start, st.key);
        auto region_changed = [&](size_t a, size_t b) { return now.size() < b || std::memcmp(now.data() + a, dec_orig.data() + a, b - a) != 0; };
        const bool magic_changed = region_changed(0, 4);
        const bool size_changed = region_changed(4, 8);
        const bool header_changed = region_changed(8, 88);
        const bool tx_changed = !whole || region_changed(88, total);
        const FlatFilePos pos{r.file, r.pos};
        CBlock bh, bp, bi;
        const bool ok_h = st.bm->ReadBlock(bh, pos, r.hash);
        const bool ok_p = st.bm->ReadBlock(bp, pos, std::nullopt);
        const bool ok_i = st.bm->ReadBlock(bi, *pi);
        auto raw = st.bm->ReadRawBlock(pos);
        auto same = [&](const CBlock& b) { return Ser(TX_WITH_WITNESS(b)) == r.bytes; };
        const bool raw_ok = bool(raw);
        const bool raw_same = raw_ok && raw->size() == r.bytes.size() && std::memcmp(raw->data(), r.bytes.data(), r.bytes.size()) == 0;
        // a block returned with corrupted transaction bytes must be detectable: own recomputation of the merkle root over what was returned
        char merkle = '-';
        if (ok_i && !same(bi)) merkle = BlockMerkleRoot(bi) != bi.hashMerkleRoot ? '1' : '0';
        // flags: changed magic size header tx | ok,same,hashok for (pos,hash) (pos) (index) | ok,same raw | merkle-bad
        std::string f;
        for (bool b : {changed, magic_changed, size_changed, header_changed, tx_changed, ok_h, ok_h && same(bh), ok_h && bh.GetHash() == r.hash, ok_p, ok_p && same(bp),
                       ok_p && bp.GetHash() == r.hash, ok_i, ok_i && same(bi), ok_i && bi.GetHash() == r.hash, raw_ok, raw_same}) f.push_back(b ? '1' : '0');
        f.push_back(merkle);
        vh::log().rec(vh::J().u("case", cx.c).str("t", "blk").u("rec", i).str("k", kind).u("off", c.off).u("len", c.len).str("f", f).u("rawlen", raw_ok ? raw->size() : 0).u("size", r.bytes.size()));
        // restore
        if (kind == "truncate") {
            if (::truncate(fs::PathToString(path).c_str(), fsize) != 0) throw std::runtime_error("truncate back failed");
            if (!PWrite(path, start + c.off, orig.data() + start + c.off, fsize - (start + c.off))) throw std::runtime_error("restore failed");
        } else {
            if (!PWrite(path, start + c.off, orig.data() + start + c.off, c.len)) throw std::runtime_error("restore failed");
        }
    }
    cx.CheckRecord(i, "after-restore");
}

void CorruptUndo(Ctx& cx, size_t i, int per_region)
{
    Store& st = cx.st;
    vh::Rng& rng = cx.rng;
    const Rec& r = cx.recs[i];
    CBlockIndex* pi = cx.Index(r);
    const fs::path path = st.RevPath(r.file);
    const uint64_t start = r.undo_pos - 8;
    const uint64_t total = r.undo.size() + 40;
    const int64_t fsize = FileSize(path);
    Bytes orig;
    if (!PRead(path, 0, fsize, orig)) throw std::runtime_error("cannot read undo file for corruption");
    std::vector<Corr> plan;
    auto add_pos = [&](uint64_t off) {
        plan.push_back({"bitflip", off, 1, static_cast<unsigned char>(1u << rng.below(8))});
        if (rng.coin()) plan.push_back({"byte", off, 1, static_cast<unsigned char>(1 + rng.below(255))});
    };
    for (uint64_t o = 0; o < 8; ++o) add_pos(o);
    const uint64_t plen = r.undo.size();
    if (plen <= static_cast<uint64_t>(per_region)) {
        for (uint64_t o = 8; o < 8 + plen; ++o) add_pos(o);
    } else {
        for (int k = 0; k < per_region; ++k) add_pos(8 + rng.below(plen));
        add_pos(8);
        add_pos(8 + plen - 1);
    }
    for (uint64_t o = 8 + plen; o < total; ++o) add_pos(o); // every byte of the checksum
    for (int k = 0; k < 8; ++k) {
        const uint64_t o = 8 + rng.below(total - 8);
        plan.push_back({"zerofill", o, 1 + rng.below(std::min<uint64_t>(48, total - o)), 0});
    }
    for (uint64_t o : {uint64_t{8}, 8 + plen / 2, 8 + plen, 8 + plen + 16, total - 1}) {
        if (o < total) plan.push_back({"truncate", o, 0, 0});
    }
    for (const Corr& c : plan) {
        const std::string kind = c.kind;
        bool changed = false;
        if (kind == "truncate") {
            if (::truncate(fs::PathToString(path).c_str(), start + c.off) != 0) throw std::runtime_error("truncate failed");
            changed = true;
        } else {
            Bytes mod(orig.begin() + start + c.off, orig.begin() + start + c.off + c.len);
            for (auto& b : mod) {
                const unsigned char o = b;
                if (kind == "zerofill") b = 0;
                else b ^= c.val;
                changed = changed || b != o;
            }
            if (!PWrite(path, start + c.off, mod.data(), mod.size())) throw std::runtime_error("pwrite failed");
        }
        CBlockUndo u;
        const bool ok = st.bm->ReadBlockUndo(u, *pi);
        const bool same = ok && Ser(u) == r.undo;
        const char* region = c.off < 4 ? "magic" : c.off < 8 ? "size" : c.off < 8 + plen ? "payload" : "checksum";
        const bool touches_data = changed && (kind == "truncate" || c.off + c.len > 8);
        std::string f;
        for (bool b : {changed, touches_data, ok, same}) f.push_back(b ? '1' : '0');
        vh::log().rec(vh::J().u("case", cx.c).str("t", "undo").u("rec", i).str("k", kind).u("off", c.off).u("len", c.len).str("region", region).str("f", f).u("size", r.undo.size()));
        if (kind == "truncate") {
            if (::truncate(fs::PathToString(path).c_str(), fsize) != 0) throw std::runtime_error("truncate back failed");
            if (!PWrite(path, start + c.off, orig.data() + start + c.off, fsize - (start + c.off))) throw std::runtime_error("restore failed");
        } else {
            if (!PWrite(path, start + c.off, orig.data() + start + c.off, c.len)) throw std::runtime_error("restore failed");
        }
    }
    cx.CheckRecord(i, "after-restore");
}

} // namespace

// cases: c -> one store (xor = c odd). p: nwrites (blocks per case), ncorrupt (records of each kind corrupted per case), per_region
VH_CMD(blockstore)
{
    const int nwrites = static_cast<int>(args.geti("nwrites", 300));
    const int ncorrupt = static_cast<int>(args.geti("ncorrupt", 3));
    const int per_region = static_cast<int>(args.geti("per_region", 200));
    BasicTestingSetup basic(ChainType::REGTEST, TestOpts{.extra_args = {"-debug=0"}});
    for (uint64_t c = args.from; c < args.to; ++c) {
        vh::set_case(c);
        vh::Rng rng(args.seed, c);
        const bool use_xor = c & 1;
        const fs::path dir = basic.m_path_root / fs::u8path("bs" + std::to_string(c));
        fs::create_directories(dir / "blocks");
        Bytes key(8, 0);
        if (use_xor) {
            // a pre-existing key file has priority over a fresh random key: makes the case replayable
            do {
                key = rng.bytes(8);
            } while (key == Bytes(8, 0));
            std::FILE* f = std::fopen(fs::PathToString(dir / "blocks" / "xor.dat").c_str(), "wb");
            if (!f || std::fwrite(key.data(), 1, 8, f) != 8) throw std::runtime_error("cannot write xor.dat");
            std::fclose(f);
        }
        Store st(basic, dir, use_xor, key);
        st.Open();
        Ctx cx{st, rng, c};
        size_t undo_next = 1;
        for (int w = 0; w < nwrites; ++w) {
            const uint64_t pick = rng.below(100);
            const size_t target = pick < 60 ? 200 + rng.below(1800) : pick < 85 ? 2000 + rng.below(12000) : pick < 96 ? 14000 + rng.below(20000) : 34000 + rng.below(26000);
            cx.WriteOne(target, rng.chance(1, 4));
            // undo data follows block data, sometimes lagging behind by several blocks (also across a file roll-over)
            if (rng.chance(2, 3)) {
                const size_t upto = cx.recs.size() - (rng.chance(1, 4) ? std::min<size_t>(cx.recs.size() - 1, rng.below(4)) : 0);
                for (; undo_next < upto; ++undo_next) cx.WriteUndo(undo_next);
            }
            for (int k = 0; k < 2; ++k) cx.CheckRecord(rng.below(cx.recs.size()), "interleaved");
            cx.CheckRecord(cx.recs.size() - 1, "just-written");
            if (rng.chance(1, 70)) cx.Reopen();
            if (rng.chance(1, 90)) cx.Prune();
        }
        for (; undo_next < cx.recs.size(); ++undo_next) cx.WriteUndo(undo_next);
        cx.Reopen();
        for (size_t i = 0; i < cx.recs.size(); ++i) cx.CheckRecord(i, "final-sweep");
        // records to corrupt: unpruned, without witness (every transaction byte is then committed to by the merkle root)
        std::vector<size_t> cand, small;
        for (size_t i = 1; i < cx.recs.size(); ++i) {
            const Rec& r = cx.recs[i];
            if (r.pruned || r.witness || !r.has_undo) continue;
            cand.push_back(i);
            if (r.bytes.size() <= 1000) small.push_back(i);
        }
        uint64_t ncorr = 0;
        for (int k = 0; k < ncorrupt && !cand.empty(); ++k) {
            // the first record of a case is a small one whose every byte is corrupted
            const size_t i = (k == 0 && !small.empty()) ? small[rng.below(small.size())] : cand[rng.below(cand.size())];
            CorruptBlocks(cx, i, k == 0 ? 1 << 30 : per_region);
            CorruptUndo(cx, i, k == 0 ? 1 << 30 : per_region);
            ++ncorr;
        }
        uint64_t nund = 0, npruned = 0, nwit = 0, maxsz = 0;
        for (const auto& r : cx.recs) {
            nund += r.has_undo;
            npruned += r.pruned;
            nwit += r.witness;
            maxsz = std::max<uint64_t>(maxsz, r.bytes.size());
        }
        vh::log().rec(vh::J().u("case", c).str("t", "case").b("xor", use_xor).u("blocks", cx.recs.size()).u("undos", nund).u("pruned", npruned).u("witness_blocks", nwit)
                          .u("files", cx.m_file + 1).u("reads", cx.reads).u("straddle_chunk", cx.straddle_chunk).u("rollovers", cx.files_rolled).u("max_block", maxsz)
                          .u("records_corrupted", ncorr).u("violations", cx.bad).i("fatal", st.notif.fatal).i("flush_err", st.notif.flush));
        vh::log().obs("roundtrip_reads", cx.reads);
        st.bm.reset();
        fs::remove_all(dir);
    }
    return 0;
}
