// E3 `netsim`: an in-process regtest node (ChainstateManager + CTxMemPool + PeerManager + ConnmanTestMsg) with scripted
// peers and a message-boundary event log. Used by e3_netsim.cpp (C36 C39 C58 C64); reusable by other net-level engines.
//
// Everything the node sends is captured at CConnman::PushMessage through the overridable global `CaptureMessage`;
// everything a scripted peer sends goes through the node's own transport (ConnmanTestMsg::ReceiveMsgFrom) and one
// PeerManager::ProcessMessages call. Time is mock time only. One `Net` object = one node; peers are added to it.
#pragma once

#include <common/vh.h>

#include <arith_uint256.h>
#include <consensus/amount.h>
#include <key.h>
#include <net.h>
#include <net_permissions.h>
#include <node/connection_types.h>
#include <primitives/block.h>
#include <primitives/transaction.h>
#include <protocol.h>
#include <script/script.h>
#include <test/util/setup_common.h>
#include <uint256.h>

#include <cstdint>
#include <map>
#include <memory>
#include <optional>
#include <span>
#include <string>
#include <vector>

class CBlockIndex;
struct ConnmanTestMsg;
class PeerManager;
class BanMan;

namespace simnet {

//! Node-level options.
struct NodeOpts {
    std::vector<std::string> extra_args;          //!< e.g. "-blocksonly=1", "-peerbloomfilters=1"
    std::optional<arith_uint256> min_chain_work;  //!< overrides regtest's minimum chain work (0)
    int chain_len{110};                           //!< blocks mined at construction (height of the tip)
    int rich_blocks{10};                          //!< coinbases of blocks 1..rich_blocks carry many spendable outputs
    bool setup_net{true};
    bool debuglog{false};
};

enum class CoinKind { P2WPKH = 0, P2WSH_DROP = 1, P2TR = 2, P2PKH = 3 };
const char* CoinKindName(CoinKind k);

//! A spendable output owned by the fixture key.
struct Utxo {
    COutPoint op;
    CTxOut out;
    CoinKind kind{CoinKind::P2WPKH};
};

//! How a witness / signature is deliberately broken when spending a Utxo.
enum class Mall {
    NONE,       //!< genuine
    BADSIG,     //!< well-formed signature over a different message (script fails)
    STRIPPED,   //!< all witness data removed
    PAD_NONSTD, //!< (P2WSH_DROP only) ignored witness item of 81 bytes: consensus-valid, non-standard
    PAD_ALT,    //!< (P2WSH_DROP only) ignored witness item changed: valid and standard, different wtxid
};
const char* MallName(Mall m);

struct PeerSpec {
    ConnectionType conn{ConnectionType::INBOUND};
    NetPermissionFlags perm{NetPermissionFlags::None};
    bool relay{true};        //!< fRelay flag in the peer's version message
    bool wtxidrelay{true};   //!< send wtxidrelay before verack
    bool sendaddrv2{true};
    int sendcmpct{-1};       //!< -1: none; 0/1: send sendcmpct(hb, 2) after verack
    bool sendheaders{false};
    bool local_addr{false};  //!< peer address is 127.x.y.z (CNetAddr::IsLocal)
    bool inbound_onion{false};
    ServiceFlags services{ServiceFlags(NODE_NETWORK | NODE_WITNESS)}; //!< services the peer claims
    ServiceFlags our_services{ServiceFlags(NODE_NETWORK | NODE_WITNESS)}; //!< services we offer on this connection
    int32_t version{PROTOCOL_VERSION};
};

const char* ConnName(ConnectionType c);
std::string PermNames(NetPermissionFlags f);

struct Captured {
    uint64_t t;
    int peer;
    std::string type;
    std::vector<unsigned char> data;
};

struct BlockSpec {
    uint256 prev;
    int height{0};
    uint32_t time{0};
    std::vector<CTransactionRef> txs;   //!< non-coinbase transactions
    CAmount fees{0};                    //!< fees of txs (claimed by the coinbase)
    CAmount cb_delta{0};                //!< added to the coinbase value (1 => overpays by 1 sat)
    std::vector<CTxOut> cb_outs;        //!< if empty: one P2WPKH output to the fixture key
    uint32_t extranonce{0};
    bool bad_pow{false};                //!< grind to a hash that does NOT meet nBits
    bool bad_merkle{false};             //!< merkle root of a different tx list (mutated)
    bool dup_last_tx{false};            //!< duplicate the last transaction (CVE-2012-2459 shape; needs txs non-empty)
    int32_t version{0x20000000};
    std::optional<uint32_t> bits;       //!< override nBits
    bool no_commitment{false};          //!< omit the witness commitment although txs carry witnesses
};

struct BlkStatus {
    bool known{false};
    bool have_data{false};
    bool failed{false};
    int height{-1};
    unsigned ntx{0};
    bool in_active{false};
    unsigned valid_level{0};
};

class Impl;

class Net
{
public:
    explicit Net(const NodeOpts& opts);
    ~Net();
    Net(const Net&) = delete;
    Net& operator=(const Net&) = delete;

    // ------------------------------------------------------------------ node access
    node::NodeContext& node();
    ChainstateManager& chainman();
    CTxMemPool& mempool();
    PeerManager& peerman();
    ConnmanTestMsg& connman();
    BanMan& banman();

    // ------------------------------------------------------------------ time (mock, seconds)
    int64_t Now() const;
    void Advance(int64_t secs);

    // ------------------------------------------------------------------ chain
    int TipHeight();
    uint256 TipHash();
    uint32_t TipTime();
    arith_uint256 TipWork();
    uint32_t Bits() const;
    CAmount Subsidy(int height) const;
    std::shared_ptr<CBlock> BuildBlock(const BlockSpec& s);
    //! ProcessNewBlock; returns its return value; *new_block as reported. Validation-interface queue is drained afterwards.
    bool SubmitBlock(const std::shared_ptr<const CBlock>& b, bool force, bool* new_block = nullptr, bool min_pow_checked = true);
    bool SubmitHeaders(const std::vector<CBlockHeader>& h, std::string* reject = nullptr);
    //! Mine one valid block on the active tip containing txs (fees given) through ProcessNewBlock(force).
    std::shared_ptr<CBlock> MineOnTip(const std::vector<CTransactionRef>& txs = {}, CAmount fees = 0);
    BlkStatus Status(const uint256& hash);
    //! Bytes used in blk*.dat files according to the block manager (sum over files).
    uint64_t BlockFileBytes();
    //! Last BlockChecked verdict seen for this block hash ("" if none): "valid" or "<result>:<reject reason>".
    std::string Verdict(const uint256& hash) const;
    void SyncSignals();

    // ------------------------------------------------------------------ coins and transactions
    const CKey& key() const;
    CScript ScriptFor(CoinKind k) const;
    //! Take an unspent mature coin of this kind (created by the rich coinbases). Throws when exhausted.
    Utxo TakeCoin(CoinKind k);
    size_t CoinsLeft(CoinKind k) const;
    //! Build and sign a transaction spending `in` (all owned by the fixture key).
    CMutableTransaction Spend(const std::vector<Utxo>& in, const std::vector<CTxOut>& outs, const std::vector<Mall>& mall = {}, uint32_t sequence = 0xfffffffd);
    //! Re-create the witness of input i with malleation m (other inputs untouched).
    void SignInput(CMutableTransaction& tx, size_t i, const Utxo& c, const std::vector<Utxo>& all_in, Mall m) const;
    static Utxo OutputAsCoin(const CTransaction& tx, uint32_t n, CoinKind k);

    // ------------------------------------------------------------------ peers
    int AddPeer(const PeerSpec& spec);
    size_t NumPeers() const;
    const PeerSpec& Spec(int p) const;
    CNode& NodeOf(int p);
    std::string AddrOf(int p) const;
    //! Full version handshake done by hand (version, [wtxidrelay], [sendaddrv2], verack, [sendcmpct], [sendheaders]).
    //! Returns fSuccessfullyConnected && !fDisconnect.
    bool Handshake(int p);
    //! Peer -> node: flush node's send buffer, push the message through the node's transport, one ProcessMessages call.
    //! Returns false when the peer is already marked for disconnection (message not delivered).
    bool Send(int p, const std::string& type, std::span<const unsigned char> payload, const std::string& cls = "", const std::string& meta_json = "");
    //! Additional ProcessMessages calls without new input (orphan work sets, queued getdata). Returns fMoreWork.
    bool Process(int p);
    //! PeerManager::SendMessages for this peer (skipped if marked for disconnection).
    void SendMessages(int p);
    //! Messages captured for this peer since the last Take (in order).
    std::vector<Captured> Take(int p);
    //! SendMessages + Take.
    std::vector<Captured> Drain(int p);
    bool Disconnected(int p);
    bool Discouraged(int p);
    //! FinalizeNode + forget (the address stays reserved).
    void RemovePeer(int p);
    //! record {"ev":"obs","p":p,"disc":..,"dscg":..} in the event log and return (disc, dscg)
    std::pair<bool, bool> Observe(int p);

    // ------------------------------------------------------------------ event log (message boundary)
    uint64_t Tick();                      //!< next logical time stamp
    void Ev(const vh::J& j);              //!< append an engine-level event (gets "t")
    std::string TakeEvents();             //!< JSON array of all events since the last call
    void SetHexCap(size_t cap);           //!< payloads up to this size are logged as hex (default 4096)
    std::string PeersJson() const;

private:
    std::unique_ptr<Impl> m;
};

// ---------------------------------------------------------------------- payload helpers
std::vector<unsigned char> SerTx(const CTransaction& tx, bool witness = true);
std::vector<unsigned char> SerBlock(const CBlock& b);
std::vector<unsigned char> SerHeaders(const std::vector<CBlockHeader>& h);
std::vector<unsigned char> SerInv(const std::vector<CInv>& v);
std::vector<CInv> ParseInv(std::span<const unsigned char> d); //!< throws on malformed input
void Grind(CBlockHeader& h, bool want_valid_pow);
std::string TxMeta(const CTransaction& tx);

} // namespace simnet
