// sim_chain: reusable building blocks of engine E1 `chainsim` (DESIGN §3-E1).
//
//   SimNode    in-process regtest node (ChainstateManager + BlockManager + optional mempool) whose options are
//              case parameters; delivery helpers; verdict capture through the BlockChecked validation signal.
//   RefLedger  independent reference model: block tree, own 256-bit chain work, own consensus rule evaluation
//              (no calls into the repo's consensus code; containers/serialization/hashing only), UTXO per tip
//              by replay from genesis, and a mirror of what the node has been told (header known / data stored /
//              failure flag) needed to decide which tips are eligible.
//   KeyRing / TxBuilder / BlockBuilder   generator side: keys, output templates, valid spends (signed with the
//              repo's signing code - signing is not under test here), hand-assembled blocks, regtest PoW.
//   Monitors   M-tip, M-utxo (PeekCoin probe + coins-DB cursor), M-index, M-revisit content hash.
//
// Everything lives in namespace `sim`. Other engines (mempool, net, wallet, crash, pruning) build on this API:
// add to it, do not rename.
//
// Typical use:
//     sim::NodeOpts o; o.worker_threads = 2; o.extra_args = {"-testactivationheight=csv@150"};
//     sim::SimNode node(o);                              // regtest, genesis active, mock time = o.start_time
//     sim::RefLedger led(sim::RefParams::FromNodeOpts(o));
//     sim::KeyRing keys(rng, 8);
//     sim::BlockBuilder bb(led, keys);
//     auto blk = bb.Build(led.Genesis(), {/*txs*/}, {});  // valid block on a given parent
//     sim::RefBlock* rb = led.Add(blk);                   // model evaluates it (rb->faults empty => valid)
//     auto d = sim::Deliver(node, led, rb, {});           // ProcessNewBlock + verdict capture + mirror update
//     auto v = sim::CheckTip(node, led); auto w = sim::CheckUtxoProbe(node, led);
#ifndef VERIF_HARNESS_SIM_CHAIN_H
#define VERIF_HARNESS_SIM_CHAIN_H

#include <common/vh.h>

#include <coins.h>
#include <consensus/amount.h>
#include <consensus/validation.h>
#include <key.h>
#include <primitives/block.h>
#include <primitives/transaction.h>
#include <script/script.h>
#include <script/signingprovider.h>
#include <test/util/setup_common.h>
#include <uint256.h>
#include <validation.h>
#include <validationinterface.h>

#include <array>
#include <cstdint>
#include <deque>
#include <map>
#include <memory>
#include <mutex>
#include <optional>
#include <set>
#include <string>
#include <vector>

namespace sim {

// ---------------------------------------------------------------------------------------------------------
// Violations returned by monitors (the engine forwards them to vh::log().violation()).
struct Violation {
    std::string key;     //!< stable class name
    std::string msg;     //!< human text
    std::string details; //!< JSON object text
};
using Violations = std::vector<Violation>;

// ---------------------------------------------------------------------------------------------------------
// Own 256-bit unsigned arithmetic (only what chain work needs). Little-endian limbs.
struct U256 {
    std::array<uint64_t, 4> w{0, 0, 0, 0};
    static U256 From64(uint64_t v)
    {
        U256 r;
        r.w[0] = v;
        return r;
    }
    bool IsZero() const { return !(w[0] | w[1] | w[2] | w[3]); }
    int Cmp(const U256& o) const
    {
        for (int i = 3; i >= 0; --i) {
            if (w[i] != o.w[i]) return w[i] < o.w[i] ? -1 : 1;
        }
        return 0;
    }
    bool operator<(const U256& o) const { return Cmp(o) < 0; }
    bool operator==(const U256& o) const { return Cmp(o) == 0; }
    bool operator>(const U256& o) const { return Cmp(o) > 0; }
    bool operator>=(const U256& o) const { return Cmp(o) >= 0; }
    U256 operator+(const U256& o) const;
    U256 operator-(const U256& o) const;
    U256 operator~() const;
    U256 Shl(unsigned n) const;
    U256 Shr1() const;
    bool Bit(unsigned n) const { return (w[n / 64] >> (n % 64)) & 1; }
    //! this / d (d != 0), schoolbook bitwise division
    U256 Div(const U256& d) const;
    std::string Hex() const; //!< big-endian hex, 64 digits
    //! Decode the compact "nBits" form. Sets negative/overflow like the Bitcoin rule set describes.
    static U256 FromCompact(uint32_t bits, bool* negative = nullptr, bool* overflow = nullptr);
    //! Interpret a uint256 (block hash) as a number (little-endian bytes).
    static U256 FromHash(const uint256& h);
    //! Expected number of hashes for a target: floor(2^256 / (target+1)) computed as (~target / (target+1)) + 1
    static U256 WorkFromBits(uint32_t bits);
};

// ---------------------------------------------------------------------------------------------------------
// Node under test.
struct NodeOpts {
    int worker_threads{2};          //!< script-check worker threads (ChainstateManager::Options::worker_threads_num)
    int prevoutfetch_threads{2};    //!< input prefetch threads (prevoutfetch_threads_num)
    uint64_t coins_cache_bytes{8 << 20};    //!< CoinsTip cache budget (tiny => frequent IF_NEEDED flushes; needs with_mempool=false to bite)
    uint64_t coins_db_cache_bytes{1 << 20}; //!< leveldb cache of the coins DB
    uint64_t block_tree_db_cache_bytes{1 << 20};
    bool coins_db_in_memory{true};
    bool block_tree_db_in_memory{true};
    uint64_t db_batch_bytes{0};     //!< -dbbatchsize equivalent (CoinsViewOptions::batch_write_bytes); 0 = default
    int64_t sig_cache_bytes{-1};    //!< -1 = default
    int64_t script_cache_bytes{-1}; //!< -1 = default
    uint64_t prune_target{0};       //!< bytes; 0 = no pruning
    bool fast_prune{false};         //!< 64 KiB block files
    int check_block_index{1};       //!< in-tree CheckBlockIndex every call
    bool with_mempool{true};        //!< false: chainstate without mempool (coins cache limit is then exactly coins_cache_bytes)
    bool setup_net{false};          //!< also create addrman/connman(ConnmanTestMsg)/peerman like TestingSetup does
    bool debug_log{false};          //!< write debug.log (slow); default off
    int64_t start_time{1600000000}; //!< initial mock time
    //! deployment heights moved by -testactivationheight=name@h (only these five exist); -1 = regtest default
    int h_bip34{-1}, h_dersig{-1}, h_cltv{-1}, h_csv{-1}, h_segwit{-1};
    std::vector<std::string> extra_args; //!< further node args ("-foo=bar")
    std::optional<uint256> assumed_valid_block; //!< ChainstateManager::Options::assumed_valid_block (-assumevalid); unset = chain default
    std::optional<uint256> minimum_chain_work;  //!< ChainstateManager::Options::minimum_chain_work (-minimumchainwork); unset = chain default
    std::string Describe() const;   //!< JSON object
};

struct Verdict {
    bool valid{false};
    BlockValidationResult result{BlockValidationResult::BLOCK_RESULT_UNSET};
    std::string reason; //!< reject reason ("" when valid)
    std::string debug;
    std::string ResultName() const;
};
std::string ResultName(BlockValidationResult r);

//! One validation-interface event, in the order the node emitted them.
struct ChainEvent {
    enum Kind { CHECKED, CONNECTED, DISCONNECTED, TIP, FLUSHED } kind;
    uint256 hash;
    int height{-1};
    Verdict verdict; //!< for CHECKED
};

//! CValidationInterface subscriber: BlockChecked verdicts per block hash (synchronous signal) and the ordered
//! connect/disconnect/tip events (asynchronous: call SimNode::Sync() before reading).
class VerdictRecorder final : public CValidationInterface
{
    mutable std::mutex m_mutex;
    std::map<uint256, std::vector<Verdict>> m_verdicts;
    std::vector<ChainEvent> m_events;

public:
    //! all BlockChecked verdicts ever seen for this block (oldest first)
    std::vector<Verdict> Get(const uint256& hash) const;
    std::optional<Verdict> Last(const uint256& hash) const;
    size_t Count(const uint256& hash) const;
    //! take (and clear) the ordered event list
    std::vector<ChainEvent> TakeEvents();

protected:
    void BlockChecked(const std::shared_ptr<const CBlock>& block, const BlockValidationState& state) override;
    void BlockConnected(const kernel::ChainstateRole& role, const std::shared_ptr<const CBlock>& block, const CBlockIndex* pindex) override;
    void BlockDisconnected(const std::shared_ptr<const CBlock>& block, const CBlockIndex* pindex) override;
    void UpdatedBlockTip(const CBlockIndex* pindexNew, const CBlockIndex* pindexFork, bool fInitialDownload) override;
    void ChainStateFlushed(const kernel::ChainstateRole& role, const CBlockLocator& locator) override;
};

//! State of a block's index entry as the node sees it.
struct IndexInfo {
    bool exists{false};
    bool have_data{false};
    bool have_undo{false};
    bool failed{false};
    bool in_active_chain{false};
    int height{-1};
    unsigned validity{0}; //!< nStatus & BLOCK_VALID_MASK
    std::string work_hex; //!< nChainWork (big-endian hex)
    std::string Str() const;
};

struct SubmitResult {
    bool ret{false};       //!< ProcessNewBlock / ProcessNewBlockHeaders return value
    bool new_block{false}; //!< ProcessNewBlock's new_block out-parameter
    size_t n_checked{0};   //!< number of BlockChecked signals for this hash during the call
    std::optional<Verdict> verdict; //!< last BlockChecked verdict emitted for this hash during the call (headers: the returned state when !ret)
};

//! In-process regtest node. Derived from the repo's ChainTestingSetup; the ChainstateManager/BlockManager options
//! are taken from NodeOpts. Genesis is active after construction. Not copyable; at most one alive per process at
//! a time (the fixtures use process globals).
class SimNode : public ChainTestingSetup
{
public:
    explicit SimNode(const NodeOpts& opts);
    ~SimNode();
    SimNode(const SimNode&) = delete;

    const NodeOpts& Opts() const { return m_opts; }
    ChainstateManager& Chainman() { return *m_node.chainman; }
    Chainstate& ActiveCs();
    CTxMemPool* Mempool() { return m_node.mempool.get(); }
    node::NodeContext& Node() { return m_node; }
    VerdictRecorder& Verdicts() { return *m_rec; }

    // --- time
    void SetTime(int64_t t); //!< mock time (seconds)
    int64_t Time() const { return m_time; }

    // --- delivery (all drain nothing by themselves: call Sync() before reading asynchronous events)
    SubmitResult SubmitBlock(const std::shared_ptr<const CBlock>& block, bool force_processing = true, bool min_pow_checked = true);
    SubmitResult SubmitHeaders(const std::vector<CBlockHeader>& headers, bool min_pow_checked = true);
    //! InvalidateBlock followed (like the RPC) by ActivateBestChain when `activate`
    bool Invalidate(const uint256& hash, bool activate = true);
    //! ResetBlockFailureFlags + ActivateBestChain (the reconsiderblock RPC)
    bool Reconsider(const uint256& hash);
    bool Precious(const uint256& hash);
    bool ActivateBest();
    //! FlushStateToDisk with the given mode (FORCE_FLUSH writes and empties the cache, FORCE_SYNC writes and keeps it)
    bool Flush(FlushStateMode mode);
    //! TestBlockValidity on the current tip (block must build on it); returns the state as a Verdict
    Verdict TestValidity(const CBlock& block, bool check_pow = true, bool check_merkle = true);
    void Sync(); //!< SyncWithValidationInterfaceQueue

    // --- inspection (take cs_main internally)
    uint256 TipHash();
    int TipHeight();
    IndexInfo Index(const uint256& hash);
    size_t IndexSize();
    std::optional<Coin> PeekCoin(const COutPoint& o);  //!< CoinsTip().PeekCoin: does not touch cache state
    bool HaveCoinInCache(const COutPoint& o);
    size_t CoinsCacheSize();
    void CoinsSanityCheck();                           //!< CCoinsViewCache::SanityCheck on CoinsTip()
    //! iterate the coins DB (call after Flush); returns best block of the cursor
    uint256 ForEachDbCoin(const std::function<void(const COutPoint&, const Coin&)>& fn);
    //! kernel::ComputeUTXOStats over the coins DB (after a flush); nullopt on failure
    struct DbStats { uint64_t coins; std::optional<CAmount> total; uint256 best; int height; };
    std::optional<DbStats> ComputeDbStats();
    //! block files usage (bytes) as the block manager accounts it
    uint64_t BlockFilesUsage();

    //! Tear down and re-create the ChainstateManager on the same datadir (needs on-disk DBs to be meaningful).
    //! Flushes first when `clean`. Returns false if loading failed.
    bool RestartChainman(bool clean = true);

private:
    NodeOpts m_opts;
    std::shared_ptr<VerdictRecorder> m_rec;
    int64_t m_time{0};
    void MakeChainman();
    void LoadChainstate();
};

// ---------------------------------------------------------------------------------------------------------
// Reference ledger.

//! Consensus parameters of the model (regtest defaults; moved by the same options the node gets).
struct RefParams {
    int h_bip34{1}, h_dersig{1}, h_cltv{1}, h_csv{1}, h_segwit{0};
    int halving_interval{150};
    uint32_t pow_limit_bits{0x207fffff};
    int coinbase_maturity{100};
    int64_t max_block_weight{4000000};
    int64_t max_sigops_cost{80000};
    int64_t max_money{int64_t{21000000} * 100000000};
    int64_t max_future_s{7200};
    static RefParams FromNodeOpts(const NodeOpts& o);
};

struct RefCoin {
    CAmount value{0};
    CScript spk;
    int height{0};
    bool coinbase{false};
    bool operator==(const RefCoin& o) const { return value == o.value && spk == o.spk && height == o.height && coinbase == o.coinbase; }
};
using RefUtxo = std::map<COutPoint, RefCoin>;

//! Where the node is expected to notice a fault (decides return value / storage / index flags; DESIGN §3-E1 table).
enum class Stage {
    CHECKBLOCK,   //!< context-free (ProcessNewBlock returns false, nothing stored, no index entry created by this delivery)
    HEADER,       //!< contextual header rule (header refused, no index entry)
    CONTEXTUAL,   //!< contextual block rule before storage (index entry marked failed, no data)
    MUTATED_CTX,  //!< witness malleation found before storage (index entry kept clean, no data)
    CONNECT,      //!< found when connecting (block stored; index entry failed + data once the node tries it)
};
const char* StageName(Stage s);

struct Fault {
    std::string reason;
    Stage stage;
    BlockValidationResult result;
};

//! Generator's knowledge that the model cannot derive (script validity is not modelled).
struct BlockMeta {
    std::string tag;                 //!< generator's label of the block ("valid", "cb+1", ...)
    std::set<size_t> bad_script_txs; //!< indices of txs with (exactly one) deliberately invalid input script
};

struct RefBlock {
    uint256 hash;
    RefBlock* parent{nullptr};
    std::vector<RefBlock*> children;
    int height{0};
    std::shared_ptr<const CBlock> block;
    BlockMeta meta;
    U256 work;      //!< own work of this header
    U256 chainwork; //!< sum from genesis
    int64_t mtp{0}; //!< median time past of this block (median of the last 11 block times ending here)
    uint64_t seq{0}; //!< order of creation in the ledger

    // --- model verdict
    bool evaluated{false};      //!< faults were computed against the parent's UTXO (parent chain fully valid)
    std::vector<Fault> faults;  //!< own rule violations; empty && evaluated => valid on a valid parent chain
    bool ctx_free_only{false};  //!< parent chain invalid/unknown: only context-free + header faults were computed
    CAmount fees{0};            //!< sum of fees (model UTXO), when evaluated and inputs exist
    int64_t sigop_cost{0};      //!< own counter
    int64_t weight{0};          //!< own calculator
    bool time_future_at_delivery{false};

    // --- mirror of what the node has been told / is known to have concluded
    bool hdr_known{false};  //!< node has an index entry
    bool have_data{false};  //!< node stored the block
    bool failed{false};     //!< node's failure flag as far as the model can tell (user invalidation, observed invalid verdict, propagation)
    bool user_invalid{false};

    bool SelfValid() const { return evaluated && faults.empty(); }
    //! single tagged fault => reason to expect; otherwise nullptr
    const Fault* SingleFault() const { return faults.size() == 1 ? &faults[0] : nullptr; }
};

class RefLedger
{
public:
    explicit RefLedger(const RefParams& p);
    ~RefLedger();
    const RefParams& Params() const { return m_p; }

    RefBlock* Genesis() { return m_genesis; }
    RefBlock* Find(const uint256& hash);
    const std::deque<std::unique_ptr<RefBlock>>& Blocks() const { return m_blocks; }

    //! Insert a block (parent = hashPrevBlock must be known, else nullptr is returned and nothing is stored) and
    //! evaluate it with the model's own rules. Re-adding a known hash returns the existing entry.
    RefBlock* Add(const std::shared_ptr<const CBlock>& block, const BlockMeta& meta = {});

    //! true iff b and every ancestor is model-valid
    bool ChainValid(const RefBlock* b) const;
    //! deepest model-invalid ancestor-or-self closest to genesis, or nullptr
    const RefBlock* FirstInvalid(const RefBlock* b) const;

    //! UTXO set at tip `b` by replaying b's chain from genesis (memoised, LRU). Requires ChainValid(b).
    const RefUtxo& Utxo(const RefBlock* b);
    //! Σ subsidy(1..h)  (genesis coinbase is not spendable / not in the UTXO set)
    CAmount SubsidySum(int h) const;
    CAmount Subsidy(int h) const;

    // --- rule helpers (reusable by mempool/wallet models): all own code
    int64_t MtpOf(const RefBlock* b) const { return b->mtp; }
    bool CsvActiveFor(int height) const { return height >= m_p.h_csv; }
    bool Bip34ActiveFor(int height) const { return height >= m_p.h_bip34; }
    bool SegwitActiveFor(int height) const { return height >= m_p.h_segwit; }
    //! nLockTime rule for a tx in a block at `height` on `parent`, block time `block_time`
    bool IsFinal(const CTransaction& tx, int height, const RefBlock* parent, int64_t block_time) const;
    //! BIP68 for a tx in a block at `height` on `parent`; coin_heights[i] = confirmation height of input i
    bool Bip68Ok(const CTransaction& tx, int height, const RefBlock* parent, const std::vector<int>& coin_heights) const;
    const RefBlock* Ancestor(const RefBlock* b, int height) const;
    static int64_t TxBaseSize(const CTransaction& tx);    //!< own serializer size without witness
    static int64_t TxTotalSize(const CTransaction& tx);   //!< with witness (if any)
    static int64_t TxWeight(const CTransaction& tx) { return TxBaseSize(tx) * 3 + TxTotalSize(tx); }
    static int64_t BlockWeight(const CBlock& b);
    static int64_t BlockBaseSize(const CBlock& b);
    //! legacy (inaccurate) or accurate sigop count of one script, own opcode parser
    static unsigned ScriptSigOps(const CScript& s, bool accurate);
    static unsigned LegacySigOps(const CTransaction& tx);
    //! total sigop cost of tx given the coins it spends (nullptr coins for coinbase)
    static int64_t SigOpCost(const CTransaction& tx, const std::vector<const RefCoin*>& spent);
    static bool IsUnspendable(const CScript& s);
    static bool IsP2SH(const CScript& s);
    static bool IsWitnessProgram(const CScript& s, int& version, std::vector<unsigned char>& program);
    static bool IsPushOnly(const CScript& s);
    static uint256 MerkleRoot(std::vector<uint256> leaves, bool* mutated);
    //! BIP34 coinbase prefix for a height (own script-number encoding)
    static std::vector<unsigned char> Bip34Prefix(int height);

    // --- mirror of node knowledge
    void NoteHeader(RefBlock* b) { b->hdr_known = true; }
    void NoteStored(RefBlock* b) { b->hdr_known = true; b->have_data = true; }
    //! node marks b failed: b and all descendants the node has an index entry for
    void MarkFailed(RefBlock* b);
    //! ResetBlockFailureFlags(b): clears the flag on b, its ancestors and its descendants
    void ClearFailed(RefBlock* b);
    bool AncestryHasData(const RefBlock* b) const;
    bool AncestryFailed(const RefBlock* b) const; //!< b or an ancestor carries the failed flag
    //! blocks the node may legitimately have as tip: hdr+data along the whole ancestry, no failed flag on the ancestry
    std::vector<RefBlock*> EligibleTips() const;
    bool IsDescendantOrSelf(const RefBlock* b, const RefBlock* anc) const;

    //! every outpoint ever created by any block added to the ledger (for the PeekCoin probe)
    const std::set<COutPoint>& AllOutpoints() const { return m_all_outpoints; }
    //! extra outpoints to probe (e.g. never-created ones used by adversarial spends)
    void AddProbeOutpoint(const COutPoint& o) { m_all_outpoints.insert(o); }

    //! content hash of a UTXO set (order independent of history: std::map order)
    static uint256 HashUtxo(const RefUtxo& u);

private:
    RefParams m_p;
    std::deque<std::unique_ptr<RefBlock>> m_blocks;
    std::map<uint256, RefBlock*> m_by_hash;
    RefBlock* m_genesis{nullptr};
    std::set<COutPoint> m_all_outpoints;
    // memoised UTXO sets
    struct Memo { const RefBlock* b; std::unique_ptr<RefUtxo> utxo; uint64_t used; };
    std::vector<Memo> m_memo;
    uint64_t m_clock{0};
    size_t m_memo_cap{40};
    void Evaluate(RefBlock* b);
    void ContextFreeFaults(const RefBlock* b, std::vector<Fault>& out) const;
    void HeaderFaults(const RefBlock* b, std::vector<Fault>& out) const;
    void ApplyBlock(RefUtxo& u, const RefBlock* b) const;
};

// ---------------------------------------------------------------------------------------------------------
// Generator side.

enum class OutType { P2PK, P2PKH, P2WPKH, P2WSH, P2TR, MULTISIG, ANYONE, P2SH_P2WPKH, OP_RETURN_ };
const char* OutTypeName(OutType t);

//! Keys the generator holds; knows how to produce scriptPubKeys and to sign spends of them.
class KeyRing
{
public:
    KeyRing(vh::Rng& rng, size_t nkeys);
    size_t Size() const { return m_keys.size(); }
    const CKey& Key(size_t i) const { return m_keys[i % m_keys.size()]; }
    //! scriptPubKey of the given template paying to key i (MULTISIG: 1-of-2 with keys i, i+1; P2WSH: witness script
    //! "<pk> CHECKSIG"; ANYONE: OP_TRUE)
    CScript Spk(OutType t, size_t i) const;
    //! register an arbitrary redeem/witness script so P2SH / P2WSH outputs paying to it can be signed/satisfied
    void AddScript(const CScript& s);
    const FlatSigningProvider& Provider() const { return m_provider; }
    //! Sign all inputs of mtx; spent[i] = the output input i spends. Returns false when some input could not be signed.
    bool Sign(CMutableTransaction& mtx, const std::vector<CTxOut>& spent, std::string* err = nullptr) const;

private:
    std::vector<CKey> m_keys;
    FlatSigningProvider m_provider;
};

//! An output the generator may spend.
struct Spendable {
    COutPoint op;
    CTxOut out;
    int height{0};
    bool coinbase{false};
};

struct CoinbaseSpec {
    std::optional<CAmount> value;        //!< total coinbase output value; default = subsidy + fees (model)
    CScript spk;                         //!< empty = OP_TRUE
    std::vector<CTxOut> extra_outputs;   //!< appended before the witness commitment
    std::optional<int> bip34_height;     //!< height encoded in scriptSig; default = real height
    std::vector<unsigned char> extranonce; //!< pushed after the height (default 4 random-looking bytes from `salt`)
    std::optional<CScript> raw_script_sig; //!< replaces the whole scriptSig
    size_t split{1};                     //!< number of equal-ish outputs the value is split into
    std::optional<std::vector<CTxOut>> raw_outputs; //!< replaces value/spk/split/extra_outputs (a commitment may still be appended)
    bool no_witness_nonce{false};        //!< leave the coinbase witness empty even when a commitment is added
};

struct BlockSpec {
    std::optional<uint32_t> time;  //!< default parent time + 1..; must be > MTP(parent) to be valid
    std::optional<uint32_t> bits;  //!< default regtest limit
    int32_t version{0x20000000};
    CoinbaseSpec cb;
    bool commit_witness{true};     //!< add witness commitment when any tx has a witness (or always if force_commitment)
    bool force_commitment{false};
    bool solve{true};              //!< grind the nonce until the hash meets the target
    bool bad_merkle{false};
    uint64_t salt{0};              //!< makes coinbases of sibling blocks distinct
};

class BlockBuilder
{
public:
    BlockBuilder(RefLedger& led, const KeyRing& keys) : m_led(led), m_keys(keys) {}
    //! Assemble a block on `parent` with the given non-coinbase txs (in that order).
    std::shared_ptr<CBlock> Build(const RefBlock* parent, const std::vector<CTransactionRef>& txs, const BlockSpec& spec, CAmount fees_hint = -1);
    //! Recompute merkle root (+ witness commitment if one is present) and re-solve after the caller edited block.vtx
    void Finalize(CBlock& block, const RefBlock* parent, bool fix_commitment = true, bool solve = true) const;
    static void Solve(CBlock& block);    //!< grind nNonce for block.nBits (own target decode)
    static void UnSolve(CBlock& block);  //!< grind nNonce until the hash is ABOVE the target
    //! model fees of txs on top of parent's UTXO (in-block chaining allowed); -1 if some input is unknown
    CAmount FeesOf(const RefBlock* parent, const std::vector<CTransactionRef>& txs);

private:
    RefLedger& m_led;
    const KeyRing& m_keys;
};

//! Build + sign a spend. inputs are Spendables (must be signable by keys unless ANYONE); outputs as given.
CMutableTransaction MakeTx(const KeyRing& keys, const std::vector<Spendable>& inputs, const std::vector<CTxOut>& outputs,
                           uint32_t locktime = 0, const std::vector<uint32_t>& sequences = {}, int32_t version = 2, bool sign = true);
//! Flip one bit of one signature of input `n` (witness or scriptSig) so that exactly that script check fails.
bool BreakSignature(CMutableTransaction& mtx, size_t n);

// ---------------------------------------------------------------------------------------------------------
// Delivery + monitors.

struct DeliverOpts {
    bool force_processing{true};
    bool headers_first{false}; //!< ProcessNewBlockHeaders before ProcessNewBlock
    bool header_only{false};   //!< only the header
};

struct DeliverResult {
    SubmitResult hdr, blk;
    IndexInfo index_after;
    uint256 tip_before, tip_after;
    std::string expect; //!< what the model expected (text, for samples)
    Violations violations; //!< M-verdict findings of this delivery
    std::vector<ChainEvent> events; //!< validation-interface events emitted during the delivery (already absorbed)
};

//! Deliver b to the node, update the ledger's mirror (hdr_known/have_data/failed) from the model's rules, and
//! compare return value / BlockChecked verdict / index flags with the model's expectation (M-verdict).
DeliverResult Deliver(SimNode& node, RefLedger& led, RefBlock* b, const DeliverOpts& o);

//! Feed BlockChecked verdicts that arrived for other blocks (connect attempts during reorgs) into the mirror and
//! check them: an invalid verdict only for model-invalid blocks (reason = the single fault's reason), a valid
//! verdict only for blocks whose chain is model-valid. Call after every action (after node.Sync()).
Violations AbsorbEvents(SimNode& node, RefLedger& led, std::vector<ChainEvent>* events_out = nullptr);

//! M-tip: active tip is eligible per model, has the maximum chain work among eligible tips, and its chain is model-valid.
Violations CheckTip(SimNode& node, RefLedger& led);
//! M-index: node's index flags equal the mirror for every ledger block.
Violations CheckIndex(SimNode& node, RefLedger& led);
//! M-utxo (i): PeekCoin probe of every outpoint the ledger has ever seen against Utxo(tip). Non-perturbing.
//! node_hash (optional): content hash of the probed node coins, identical to NodeUtxoProbeHash (saves a second pass)
Violations CheckUtxoProbe(SimNode& node, RefLedger& led, size_t* probed = nullptr, uint256* node_hash = nullptr);
//! M-utxo (ii): flush (FORCE_FLUSH, or FORCE_SYNC when wipe) and compare the coins-DB cursor both ways + ComputeUTXOStats totals + Σ ≤ Σ subsidies.
Violations CheckUtxoFull(SimNode& node, RefLedger& led, bool wipe_cache);
//! Content hash of the node's UTXO set as seen through the probe (every ledger outpoint that PeekCoin returns), for M-revisit / M-unchanged.
uint256 NodeUtxoProbeHash(SimNode& node, RefLedger& led);

//! M-revisit bookkeeping: remembers the probe hash per tip hash, reports a violation when a tip is revisited with a different hash.
class RevisitMonitor
{
    std::map<uint256, uint256> m_seen;
    uint64_t m_revisits{0};

public:
    Violations Observe(const uint256& tip, const uint256& utxo_hash);
    uint64_t Revisits() const { return m_revisits; }
};

std::string OutPointStr(const COutPoint& o);
std::string CoinJson(const std::optional<Coin>& c);
std::string RefCoinJson(const RefCoin* c);

} // namespace sim

#endif // VERIF_HARNESS_SIM_CHAIN_H
