// C21: TxIndex, BlockFilterIndex(BASIC), CoinStatsIndex, TxoSpenderIndex attached (real sync threads) to an in-process regtest
// node that is driven through fork/reorg histories; own shadow model of every block built here.
// VH_FLAVOURS: asan tsan
//
// idx_hist : one case = one history. Every block is assembled here (own coinbase/tx generator, own merkle/PoW loop) and logged
//            as hex, so the Python side can recompute BIP158 filters, filter headers, MuHash and all coin statistics from
//            scratch with an independent implementation. At quiescent check points the engine compares txindex/spender
//            answers and the stored filters with its own model online and logs the stored filters/statistics for Python.
// muhash   : MuHash3072 numeric agreement with Python + order independence / insert-remove cancellation.
#include <common/vh.h>

#include <blockfilter.h>
#include <chain.h>
#include <chainparams.h>
#include <coins.h>
#include <consensus/merkle.h>
#include <crypto/muhash.h>
#include <index/base.h>
#include <index/blockfilterindex.h>
#include <index/coinstatsindex.h>
#include <index/txindex.h>
#include <index/txospenderindex.h>
#include <interfaces/chain.h>
#include <kernel/coinstats.h>
#include <key.h>
#include <node/blockstorage.h>
#include <pow.h>
#include <primitives/block.h>
#include <primitives/transaction.h>
#include <script/interpreter.h>
#include <script/script.h>
#include <streams.h>
#include <test/util/setup_common.h>
#include <undo.h>
#include <util/time.h>
#include <validation.h>
#include <validationinterface.h>

#include <chrono>
#include <map>
#include <memory>
#include <set>
#include <string>
#include <thread>
#include <vector>

namespace {
using namespace std::chrono_literals;

struct MCoin {
    CAmount value;
    CScript spk;
    int height;
    bool cb;
};
struct MBlock {
    uint256 hash, prev;
    int height;
    std::shared_ptr<const CBlock> blk;
};
struct View {
    std::vector<const MBlock*> chain; // index = height
    std::map<COutPoint, MCoin> utxo;
    std::map<COutPoint, std::pair<Txid, uint256>> spender;
    std::map<Txid, uint256> tx_block;
    std::vector<CBlockUndo> undo; // index = height
};

bool OwnUnspendable(const CScript& s) { return (s.size() > 0 && s[0] == OP_RETURN) || s.size() > 10000; }
CAmount OwnSubsidy(int h)
{
    const int k = h / 150;
    return k >= 64 ? 0 : (CAmount{5000000000} >> k);
}

struct Model {
    std::map<uint256, MBlock> blocks;
    uint256 genesis;

    View Replay(const uint256& tip) const
    {
        View v;
        std::vector<const MBlock*> rev;
        for (uint256 h = tip;;) {
            auto it = blocks.find(h);
            if (it == blocks.end()) throw std::runtime_error("model: unknown block in chain " + h.ToString());
            rev.push_back(&it->second);
            if (h == genesis) break;
            h = it->second.prev;
        }
        v.chain.assign(rev.rbegin(), rev.rend());
        v.undo.resize(v.chain.size());
        for (size_t h = 1; h < v.chain.size(); ++h) {
            const MBlock& b = *v.chain[h];
            for (size_t i = 0; i < b.blk->vtx.size(); ++i) {
                const CTransaction& tx = *b.blk->vtx[i];
                if (i > 0) {
                    CTxUndo tu;
                    for (const CTxIn& in : tx.vin) {
                        auto it = v.utxo.find(in.prevout);
                        if (it == v.utxo.end()) throw std::runtime_error("model: spend of a missing coin");
                        tu.vprevout.emplace_back(CTxOut(it->second.value, it->second.spk), it->second.height, it->second.cb);
                        v.spender[in.prevout] = {tx.GetHash(), b.hash};
                        v.utxo.erase(it);
                    }
                    v.undo[h].vtxundo.push_back(std::move(tu));
                }
                for (uint32_t j = 0; j < tx.vout.size(); ++j) {
                    if (OwnUnspendable(tx.vout[j].scriptPubKey)) continue;
                    v.utxo[COutPoint(tx.GetHash(), j)] = MCoin{tx.vout[j].nValue, tx.vout[j].scriptPubKey, static_cast<int>(h), i == 0};
                }
                v.tx_block[tx.GetHash()] = b.hash;
            }
        }
        return v;
    }
};

struct Slot {
    std::string name;
    std::unique_ptr<BaseIndex> idx;
    int starts{0};
    // Stopped at least once in a state where BaseIndex does not commit its locator although per-block data was already
    // written: interrupted during an initial sync, or (synced) with a best block that is not the flushed tip (after
    // invalidateblock the index is "ahead of the flushed chainstate" and Commit() is skipped). The database may then be ahead
    // of the locator the next start resumes from.
    bool uncommitted_stop{false};
    TxIndex* tx() { return dynamic_cast<TxIndex*>(idx.get()); }
    BlockFilterIndex* bf() { return dynamic_cast<BlockFilterIndex*>(idx.get()); }
    CoinStatsIndex* cs() { return dynamic_cast<CoinStatsIndex*>(idx.get()); }
    TxoSpenderIndex* ts() { return dynamic_cast<TxoSpenderIndex*>(idx.get()); }
};

struct Hist {
    vh::Rng& rng;
    TestingSetup& node;
    Model model;
    CKey key;
    CScript s_true, s_empty, s_p2pk;
    std::vector<std::vector<unsigned char>> hashes; // small pool -> repeated scripts
    std::array<Slot, 4> slots;
    uint64_t extranonce{0};
    int64_t max_time{0};
    uint64_t cp{0};
    std::set<uint256> invalidated;
    std::map<COutPoint, std::pair<Txid, uint256>> prev_spender; // at the previous check point
    std::map<Txid, uint256> prev_tx_block;
    // counters
    uint64_t n_blocks{0}, n_reorgs{0}, max_reorg_depth{0}, n_txs{0};
    std::vector<std::string> sig; // scenario events for the case signature

    Hist(vh::Rng& r, TestingSetup& n) : rng{r}, node{n}
    {
        do { // the key comes from the case generator, so that a case is replayable from (seed, case) alone
            const auto b = rng.bytes(32);
            key.Set(b.begin(), b.end(), /*fCompressedIn=*/true);
        } while (!key.IsValid());
        s_true = CScript() << OP_TRUE;
        s_p2pk = CScript() << ToByteVector(key.GetPubKey()) << OP_CHECKSIG;
        for (int i = 0; i < 12; ++i) hashes.push_back(rng.bytes(32));
        slots[0].name = "txindex";
        slots[1].name = "blockfilter";
        slots[2].name = "coinstats";
        slots[3].name = "txospender";
    }

    ChainstateManager& chainman() { return *node.m_node.chainman; }
    uint256 Tip() { return WITH_LOCK(::cs_main, return chainman().ActiveChain().Tip()->GetBlockHash()); }
    const CBlockIndex* Index(const uint256& h) { return WITH_LOCK(::cs_main, return chainman().m_blockman.LookupBlockIndex(h)); }

    void LogBlock(const MBlock& b)
    {
        DataStream ss;
        ss << TX_WITH_WITNESS(*b.blk);
        vh::log().rec(vh::J().u("case", vh::cur_case()).str("ev", "blk").i("h", b.height).str("hash", b.hash.GetHex()).hex("hex", ss));
    }

    CScript RandScript(bool allow_unspendable)
    {
        auto h20 = [&] { auto v = rng.pick(hashes); return std::vector<unsigned char>(v.begin(), v.begin() + 20); };
        auto h32 = [&] { return rng.pick(hashes); };
        switch (rng.weighted({24, 8, 14, 8, 8, 6, 6, 5, 3, static_cast<uint32_t>(allow_unspendable ? 10 : 0), static_cast<uint32_t>(allow_unspendable ? 1 : 0), 3})) {
        case 0: return s_true;
        case 1: return s_empty;
        case 2: return s_p2pk;
        case 3: return CScript() << OP_DUP << OP_HASH160 << h20() << OP_EQUALVERIFY << OP_CHECKSIG;
        case 4: return CScript() << OP_0 << h20();
        case 5: return CScript() << OP_HASH160 << h20() << OP_EQUAL;
        case 6: return CScript() << OP_1 << h32();
        case 7: return CScript() << OP_0 << h32();
        case 8: return CScript() << OP_1 << h32() << h32() << OP_2 << OP_CHECKMULTISIG;
        case 9: {
            CScript s = CScript() << OP_RETURN;
            if (rng.chance(3, 4)) s << rng.bytes(rng.range(1, 40));
            return s;
        }
        case 10: { // larger than MAX_SCRIPT_SIZE: never enters the UTXO set
            CScript s;
            for (int i = 0; i < 21; ++i) s << rng.bytes(500);
            return s;
        }
        default: return CScript() << rng.bytes(rng.range(1, 60)) << OP_DROP << OP_TRUE;
        }
    }
    bool CanSpend(const CScript& s) const { return s == s_true || s == s_empty || s == s_p2pk; }

    // Transactions for a block on top of the chain state `v` (mutated: spent coins removed, new outputs added).
    std::vector<CTransactionRef> GenTxs(View& v, int height, size_t want, const std::vector<CTransactionRef>& reuse, CAmount& fees)
    {
        std::vector<CTransactionRef> out;
        fees = 0;
        auto apply = [&](const CTransactionRef& tx) {
            CAmount in = 0, o = 0;
            for (auto& i : tx->vin) {
                in += v.utxo.at(i.prevout).value;
                v.utxo.erase(i.prevout);
            }
            for (uint32_t j = 0; j < tx->vout.size(); ++j) {
                o += tx->vout[j].nValue;
                if (!OwnUnspendable(tx->vout[j].scriptPubKey)) v.utxo[COutPoint(tx->GetHash(), j)] = MCoin{tx->vout[j].nValue, tx->vout[j].scriptPubKey, height, false};
            }
            fees += in - o;
            out.push_back(tx);
        };
        // transactions that were confirmed on another branch and are still valid here keep their txid
        for (auto& tx : reuse) {
            bool ok = true;
            for (auto& i : tx->vin) {
                auto it = v.utxo.find(i.prevout);
                if (it == v.utxo.end() || (it->second.cb && height - it->second.height < 100)) ok = false;
            }
            std::set<COutPoint> seen;
            for (auto& i : tx->vin) ok = ok && seen.insert(i.prevout).second;
            if (ok) apply(tx);
        }
        for (size_t n = 0; n < want; ++n) {
            std::vector<std::pair<COutPoint, MCoin>> cands;
            for (auto& [op, c] : v.utxo)
                if (CanSpend(c.spk) && (!c.cb || height - c.height >= 100)) cands.emplace_back(op, c);
            if (cands.empty()) break;
            rng.shuffle(cands);
            const size_t nin = std::min<size_t>(cands.size(), rng.weighted({60, 25, 10, 5}) + 1);
            CMutableTransaction mtx;
            mtx.version = 2;
            CAmount total = 0;
            for (size_t i = 0; i < nin; ++i) {
                mtx.vin.emplace_back(cands[i].first);
                total += cands[i].second.value;
            }
            const size_t nout = rng.weighted({35, 35, 20, 10}) + 1;
            CAmount fee = std::min<CAmount>(total, rng.chance(1, 4) ? 0 : rng.range(0, 5000));
            CAmount left = total - fee;
            std::vector<CScript> used;
            for (size_t j = 0; j < nout; ++j) {
                CScript spk = (!used.empty() && rng.chance(1, 8)) ? rng.pick(used) : RandScript(true);
                used.push_back(spk);
                CAmount val = j + 1 == nout ? left : (rng.chance(1, 10) ? 0 : static_cast<CAmount>(rng.below(static_cast<uint64_t>(left) + 1)));
                if (OwnUnspendable(spk) && rng.chance(2, 3)) val = std::min<CAmount>(val, rng.range(0, 1000));
                if (j + 1 == nout && OwnUnspendable(spk) && rng.chance(1, 2)) { // do not burn everything too often
                    spk = s_true;
                }
                left -= val;
                mtx.vout.emplace_back(val, spk);
            }
            fee += left; // whatever was not distributed (only when the last output was capped) goes to the fee
            (void)fee;
            for (size_t i = 0; i < nin; ++i) {
                const MCoin& c = cands[i].second;
                if (c.spk == s_true) {
                    // empty scriptSig
                } else if (c.spk == s_empty) {
                    mtx.vin[i].scriptSig = CScript() << OP_TRUE;
                } else {
                    const uint256 h = SignatureHash(c.spk, mtx, i, SIGHASH_ALL, c.value, SigVersion::BASE);
                    std::vector<unsigned char> sig;
                    if (!key.Sign(h, sig)) throw std::runtime_error("sign failed");
                    sig.push_back(SIGHASH_ALL);
                    mtx.vin[i].scriptSig = CScript() << sig;
                }
            }
            apply(MakeTransactionRef(mtx));
            ++n_txs;
        }
        return out;
    }

    // Assemble, solve and model a block on `parent`. Not submitted.
    const MBlock& MakeBlock(const uint256& parent, size_t ntx, const std::vector<CTransactionRef>& reuse = {})
    {
        View v = model.Replay(parent);
        const MBlock& p = *v.chain.back();
        const int height = p.height + 1;
        CAmount fees = 0;
        std::vector<CTransactionRef> txs = GenTxs(v, height, ntx, reuse, fees);
        CMutableTransaction cb;
        cb.version = 2;
        cb.vin.resize(1);
        cb.vin[0].prevout.SetNull();
        cb.vin[0].scriptSig = CScript() << height << CScriptNum(static_cast<int64_t>(++extranonce)) << OP_0;
        CAmount reward = OwnSubsidy(height) + fees;
        if (rng.chance(1, 8)) reward -= static_cast<CAmount>(rng.below(static_cast<uint64_t>(reward) + 1)); // unclaimed reward
        const size_t nout = rng.weighted({55, 30, 15}) + 1;
        for (size_t j = 0; j < nout; ++j) {
            CScript spk = j == 0 ? (rng.chance(2, 3) ? s_true : rng.chance(1, 2) ? s_p2pk : s_empty) : RandScript(true);
            CAmount val = j + 1 == nout ? reward : static_cast<CAmount>(rng.below(static_cast<uint64_t>(reward) + 1));
            if (OwnUnspendable(spk) && j + 1 != nout) val = std::min<CAmount>(val, rng.range(0, 100000));
            reward -= val;
            cb.vout.emplace_back(val, spk);
        }
        auto blk = std::make_shared<CBlock>();
        blk->nVersion = 0x20000000;
        blk->hashPrevBlock = parent;
        blk->nTime = p.blk->nTime + 1;
        blk->nBits = p.blk->nBits;
        blk->nNonce = 0;
        blk->vtx.push_back(MakeTransactionRef(cb));
        for (auto& t : txs) blk->vtx.push_back(t);
        blk->hashMerkleRoot = BlockMerkleRoot(*blk);
        while (!CheckProofOfWork(blk->GetHash(), blk->nBits, Params().GetConsensus())) ++blk->nNonce;
        MBlock mb{blk->GetHash(), parent, height, blk};
        auto [it, ins] = model.blocks.emplace(mb.hash, mb);
        if (!ins) throw std::runtime_error("duplicate block hash");
        LogBlock(it->second);
        ++n_blocks;
        if (static_cast<int64_t>(blk->nTime) > max_time) {
            max_time = blk->nTime;
            SetMockTime(max_time + 600);
        }
        return it->second;
    }

    void Submit(const MBlock& b)
    {
        const uint256 before = Tip();
        bool new_block = false;
        chainman().ProcessNewBlock(b.blk, /*force_processing=*/true, /*min_pow_checked=*/true, &new_block);
        NoteTipChange(before);
    }
    void NoteTipChange(const uint256& before)
    {
        const uint256 after = Tip();
        if (after == before) return;
        // depth of the reorg = number of blocks of the old chain that are not ancestors of the new tip
        std::set<uint256> anc;
        for (uint256 h = after;; h = model.blocks.at(h).prev) {
            anc.insert(h);
            if (h == model.genesis) break;
        }
        uint64_t depth = 0;
        for (uint256 h = before; !anc.count(h); h = model.blocks.at(h).prev) ++depth;
        if (depth > 0) {
            ++n_reorgs;
            max_reorg_depth = std::max(max_reorg_depth, depth);
            bool any_running = false, any_stopped = false;
            for (auto& s : slots) (s.idx ? any_running : any_stopped) = true;
            if (any_running) vh::log().obs("reorgs_indexed");
            if (any_stopped) vh::log().obs("reorgs_while_index_stopped");
            vh::log().obs_max("reorg_depth", depth);
        }
    }

    // ---- index life cycle
    bool StartIndex(Slot& s)
    {
        if (s.idx) return true;
        auto chain = interfaces::MakeChain(node.m_node);
        if (s.name == "txindex") s.idx = std::make_unique<TxIndex>(std::move(chain), 1 << 20, false, false);
        else if (s.name == "blockfilter") s.idx = std::make_unique<BlockFilterIndex>(std::move(chain), BlockFilterType::BASIC, 1 << 20, false, false);
        else if (s.name == "coinstats") s.idx = std::make_unique<CoinStatsIndex>(std::move(chain), 1 << 20, false, false);
        else s.idx = std::make_unique<TxoSpenderIndex>(std::move(chain), 1 << 20, false, false);
        if (!s.idx->Init()) {
            // distinct key when the index was stopped before without a locator commit (see Slot::uncommitted_stop)
            vh::log().violation(s.uncommitted_stop ? "index-init-failed-after-uncommitted-stop" : "index-init-failed",
                                "index refused to start on its own database after a legitimate history", vh::J().str("index", s.name).i("starts", s.starts).b("uncommitted_stop_before", s.uncommitted_stop));
            s.idx.reset();
            return false;
        }
        if (!s.idx->StartBackgroundSync()) throw std::runtime_error("StartBackgroundSync failed");
        if (s.starts++ > 0) vh::log().obs("restarts");
        else vh::log().obs("starts");
        return true;
    }
    // Stopping an index mirrors Shutdown(): validation queue drained, chainstate force-flushed (the ChainStateFlushed
    // notification commits the locator of a synced index; an index still in its initial sync commits in its interrupt path,
    // which needs its position to be covered by the flushed chainstate), queue drained again, then Interrupt/Stop.
    // After invalidateblock a synced index can be *ahead* of the flushed tip; BaseIndex::Commit() is then skipped even though
    // the chainstate was flushed. The default workload does not stop an index in that state (returns false); with
    // --p uncommitted_stop=1 it does (and interrupts an initial sync without the preceding flush), and violations that
    // concern such an index carry the key suffix -after-uncommitted-stop.
    bool allow_uncommitted_stop{false};
    // returns 0: not stopped, 1: stopped (was synced), 2: stopped during its initial sync
    int StopIndex(Slot& s, bool final = false)
    {
        if (!s.idx) return 0;
        bool synced = s.idx->GetSummary().synced;
        if (synced || !allow_uncommitted_stop) {
            node.m_node.validation_signals->SyncWithValidationInterfaceQueue();
            chainman().ActiveChainstate().ForceFlushStateToDisk(/*wipe_cache=*/false);
            node.m_node.validation_signals->SyncWithValidationInterfaceQueue();
            synced = s.idx->GetSummary().synced; // the initial sync may have finished meanwhile
        }
        if (!synced) {
            if (allow_uncommitted_stop) s.uncommitted_stop = true;
        } else if (s.idx->GetSummary().best_block_hash != Tip()) {
            if (!allow_uncommitted_stop && !final) {
                vh::log().obs("stops_skipped_index_ahead_of_tip");
                return 0;
            }
            if (!final) {
                s.uncommitted_stop = true;
                vh::log().obs("stops_ahead_of_flushed_tip");
            }
        }
        s.idx->Interrupt();
        s.idx->Stop();
        s.idx.reset();
        return synced ? 1 : 2;
    }
    void StopAll()
    {
        for (auto& s : slots) StopIndex(s, /*final=*/true);
    }
    void Flush()
    {
        chainman().ActiveChainstate().ForceFlushStateToDisk(/*wipe_cache=*/rng.coin());
        vh::log().obs("flushes");
    }

    // lookups while an index may be syncing; results are not judged (only sanitizers / crashes matter here)
    void ConcurrentLookups(size_t n)
    {
        std::vector<const MBlock*> all;
        for (auto& [h, b] : model.blocks) all.push_back(&b);
        for (size_t i = 0; i < n; ++i) {
            const MBlock& b = *rng.pick(all);
            const CBlockIndex* pi = Index(b.hash);
            const CTransaction& tx = *rng.pick(b.blk->vtx);
            if (auto* t = slots[0].tx()) (void)t->FindTx(tx.GetHash());
            if (auto* f = slots[1].bf(); f && pi) {
                BlockFilter flt;
                uint256 hdr;
                (void)f->LookupFilter(pi, flt);
                (void)f->LookupFilterHeader(pi, hdr);
            }
            if (auto* c = slots[2].cs(); c && pi) (void)c->LookUpStats(*pi);
            if (auto* sp = slots[3].ts(); sp && !tx.IsCoinBase()) (void)sp->FindSpender(tx.vin[0].prevout);
            vh::log().obs("lookups_during_sync");
        }
    }

    bool WaitSynced(Slot& s)
    {
        const auto t0 = std::chrono::steady_clock::now();
        while (!s.idx->BlockUntilSyncedToCurrentChain()) {
            if (std::chrono::steady_clock::now() - t0 > 1800s) return false;
            std::this_thread::sleep_for(1ms);
        }
        return true;
    }

    // ---- quiescent check point
    void Checkpoint(bool flush_and_compare_node_stats)
    {
        node.m_node.validation_signals->SyncWithValidationInterfaceQueue();
        for (auto& s : slots) {
            if (s.idx && !WaitSynced(s)) {
                vh::log().violation(s.uncommitted_stop ? "index-never-synced-after-uncommitted-stop" : "index-never-synced", "index did not catch up with the active chain", vh::J().str("index", s.name));
                StopIndex(s, /*final=*/true);
            }
        }
        node.m_node.validation_signals->SyncWithValidationInterfaceQueue();
        const uint256 tip = Tip();
        const View v = model.Replay(tip);
        const size_t H = v.chain.size();
        {
            // what the reorgs since the previous check point changed for the indexes
            uint64_t moved = 0, respent = 0, unspent_again = 0, unconfirmed = 0;
            for (auto& [txid, bh] : prev_tx_block) {
                auto it = v.tx_block.find(txid);
                if (it == v.tx_block.end()) ++unconfirmed;
                else if (it->second != bh) ++moved;
            }
            for (auto& [op, sp] : prev_spender) {
                auto it = v.spender.find(op);
                if (it == v.spender.end()) ++unspent_again;
                else if (it->second.first != sp.first) ++respent;
            }
            vh::log().obs("tx_reconfirmed_in_other_block", moved);
            vh::log().obs("tx_no_longer_confirmed", unconfirmed);
            vh::log().obs("outpoint_spent_by_other_tx", respent);
            vh::log().obs("outpoint_unspent_again", unspent_again);
            vh::log().obs("reorg_changed_spender_or_block", moved + respent + unspent_again + unconfirmed);
            prev_tx_block = v.tx_block;
            prev_spender = v.spender;
        }
        vh::J rec;
        rec.u("case", vh::cur_case()).str("ev", "cp").u("cp", cp++).str("tip", tip.GetHex()).u("heights", H);
        std::vector<const CBlockIndex*> pidx(H);
        for (size_t h = 0; h < H; ++h) {
            pidx[h] = Index(v.chain[h]->hash);
            if (!pidx[h]) throw std::runtime_error("active block without index entry");
        }
        uint64_t bad = 0;
        // keys of violations that concern an index which was stopped without a locator commit earlier in this history carry a
        // suffix (see Slot::uncommitted_stop)
        Slot* cur{nullptr};
        auto viol = [&](std::string key, const char* msg, vh::J d) {
            if (cur && cur->uncommitted_stop && key.find("-after-uncommitted-stop") == std::string::npos) key += "-after-uncommitted-stop";
            if (bad++ < 6) vh::log().violation(key, msg, d.u("cp", cp - 1).str("tip", tip.GetHex()));
        };
        // --- txindex
        cur = &slots[0];
        if (TxIndex* ti = slots[0].tx()) {
            uint64_t active = 0, stale = 0, stale_found = 0;
            for (auto& [bh, b] : model.blocks) {
                if (b.height == 0) continue;
                for (auto& tx : b.blk->vtx) {
                    const auto it = v.tx_block.find(tx->GetHash());
                    const auto res = ti->FindTx(tx->GetHash());
                    if (it != v.tx_block.end()) {
                        if (it->second != bh) continue; // judged when visiting the active block
                        ++active;
                        if (!res) viol("txindex-missing", "active-chain transaction not found by FindTx", vh::J().str("txid", tx->GetHash().GetHex()).i("height", b.height));
                        else if (res->block_hash != bh || res->tx->GetHash() != tx->GetHash() || res->tx->GetWitnessHash() != tx->GetWitnessHash())
                            viol("txindex-wrong-block", "FindTx returned another block/transaction for an active-chain transaction",
                                 vh::J().str("txid", tx->GetHash().GetHex()).str("want_block", bh.GetHex()).str("got_block", res->block_hash.GetHex()));
                    } else {
                        ++stale;
                        if (res) ++stale_found;
                    }
                }
            }
            vh::log().obs("txindex_lookups", active);
            vh::log().obs("txindex_stale_lookups", stale);
            vh::log().obs("txindex_stale_found", stale_found);
            rec.u("txi_active", active);
        }
        // --- spender index
        cur = &slots[3];
        if (TxoSpenderIndex* si = slots[3].ts()) {
            const bool at_tip = si->GetSummary().best_block_hash == tip;
            uint64_t spent = 0, unspent = 0;
            std::set<COutPoint> ops;
            for (auto& [bh, b] : model.blocks)
                for (auto& tx : b.blk->vtx) {
                    for (uint32_t j = 0; j < tx->vout.size(); ++j) ops.insert(COutPoint(tx->GetHash(), j));
                    if (!tx->IsCoinBase())
                        for (auto& in : tx->vin) ops.insert(in.prevout);
                }
            for (auto& op : ops) {
                const auto res = si->FindSpender(op);
                if (!res) {
                    viol("spender-io-error", "FindSpender failed", vh::J().str("outpoint", op.ToString()).str("err", res.error()));
                    continue;
                }
                const auto it = v.spender.find(op);
                if (it != v.spender.end()) {
                    ++spent;
                    if (!res->has_value()) viol("spender-missing", "spent output has no spender in the index", vh::J().str("outpoint", op.ToString()));
                    else if ((*res)->tx->GetHash() != it->second.first || (*res)->block_hash != it->second.second)
                        viol("spender-wrong", "FindSpender returned a spender that is not the active one",
                             vh::J().str("outpoint", op.ToString()).str("want", it->second.first.GetHex()).str("got", (*res)->tx->GetHash().GetHex()).str("got_block", (*res)->block_hash.GetHex()));
                } else if (at_tip) {
                    ++unspent;
                    if (res->has_value()) viol("spender-of-unspent", "output unspent on the active chain has a spender in the index",
                                               vh::J().str("outpoint", op.ToString()).str("got", (*res)->tx->GetHash().GetHex()).str("got_block", (*res)->block_hash.GetHex()));
                }
            }
            vh::log().obs("spender_lookups_spent", spent);
            vh::log().obs("spender_lookups_unspent", unspent);
            rec.u("sp_spent", spent).u("sp_unspent", unspent);
        }
        // --- block filter index
        cur = &slots[1];
        if (BlockFilterIndex* fi = slots[1].bf()) {
            std::vector<std::string> fl;
            for (size_t h = 0; h < H; ++h) {
                BlockFilter stored;
                uint256 hdr;
                if (!fi->LookupFilter(pidx[h], stored) || !fi->LookupFilterHeader(pidx[h], hdr)) {
                    viol("filter-missing", "no filter / filter header for an active block", vh::J().u("height", h));
                    fl.push_back("null");
                    continue;
                }
                const BlockFilter own(BlockFilterType::BASIC, *v.chain[h]->blk, v.undo[h]);
                if (stored.GetEncodedFilter() != own.GetEncodedFilter() || stored.GetBlockHash() != v.chain[h]->hash)
                    viol("filter-differs-recomputed", "stored filter differs from BlockFilter(block, own undo)", vh::J().u("height", h).hex("stored", stored.GetEncodedFilter()).hex("own", own.GetEncodedFilter()));
                fl.push_back("[\"" + vh::Hex(stored.GetEncodedFilter()) + "\",\"" + vh::Hex(hdr) + "\"]");
            }
            // range queries must agree with the single lookups
            std::vector<BlockFilter> range;
            std::vector<uint256> hashes_range;
            if (!fi->LookupFilterRange(0, pidx[H - 1], range) || range.size() != H || !fi->LookupFilterHashRange(0, pidx[H - 1], hashes_range) || hashes_range.size() != H) {
                viol("filter-range", "filter range lookup failed on the active chain", vh::J().u("heights", H));
            } else {
                for (size_t h = 0; h < H; ++h) {
                    if (fl[h] == "null") continue;
                    if (range[h].GetBlockHash() != v.chain[h]->hash || hashes_range[h] != range[h].GetHash())
                        viol("filter-range", "filter range lookup returned another block's filter", vh::J().u("height", h));
                }
            }
            vh::log().obs("filter_lookups", H);
            rec.raw("filters", vh::JArr(fl));
        }
        // --- coin stats index
        cur = &slots[2];
        if (CoinStatsIndex* ci = slots[2].cs()) {
            std::vector<std::string> sl;
            for (size_t h = 0; h < H; ++h) {
                const auto st = ci->LookUpStats(*pidx[h]);
                if (!st) {
                    viol("coinstats-missing", "no statistics for an active block", vh::J().u("height", h));
                    sl.push_back("null");
                    continue;
                }
                auto a2s = [](const arith_uint256& a) { return "\"" + a.GetHex() + "\""; };
                sl.push_back("[\"" + vh::Hex(st->hashSerialized) + "\"," + std::to_string(st->nTransactionOutputs) + "," + std::to_string(st->nBogoSize) + "," +
                             (st->total_amount ? std::to_string(*st->total_amount) : std::string("null")) + "," + std::to_string(st->total_subsidy) + "," +
                             a2s(st->total_prevout_spent_amount) + "," + a2s(st->total_new_outputs_ex_coinbase_amount) + "," + a2s(st->total_coinbase_amount) + "," +
                             std::to_string(st->total_unspendables_genesis_block) + "," + std::to_string(st->total_unspendables_bip30) + "," +
                             std::to_string(st->total_unspendables_scripts) + "," + std::to_string(st->total_unspendables_unclaimed_rewards) + "," +
                             "\"" + st->hashBlock.GetHex() + "\"]");
            }
            vh::log().obs("coinstats_lookups", H);
            rec.raw("stats", vh::JArr(sl));
            if (flush_and_compare_node_stats) {
                // the node's own from-scratch scan (ComputeUTXOStats over the flushed coins DB) for the tip
                chainman().ActiveChainstate().ForceFlushStateToDisk(false);
                CCoinsViewDB* coins_db = WITH_LOCK(::cs_main, return &chainman().ActiveChainstate().CoinsDB());
                const auto ns = kernel::ComputeUTXOStats(kernel::CoinStatsHashType::MUHASH, *coins_db, chainman().m_blockman);
                const auto is = ci->LookUpStats(*pidx[H - 1]);
                if (ns && is) {
                    if (ns->hashSerialized != is->hashSerialized || ns->nTransactionOutputs != is->nTransactionOutputs || ns->total_amount != is->total_amount || ns->nBogoSize != is->nBogoSize || ns->hashBlock != tip)
                        viol("coinstats-vs-scan", "CoinStatsIndex tip entry differs from ComputeUTXOStats over the coins DB",
                             vh::J().str("index_muhash", is->hashSerialized.GetHex()).str("scan_muhash", ns->hashSerialized.GetHex()).u("index_n", is->nTransactionOutputs).u("scan_n", ns->nTransactionOutputs));
                    rec.str("scan_muhash", vh::Hex(ns->hashSerialized)).u("scan_n", ns->nTransactionOutputs).i("scan_amount", ns->total_amount.value_or(-1));
                    vh::log().obs("utxo_scans");
                }
                cur = nullptr; // not about an index
                if (ns && ns->nTransactionOutputs != v.utxo.size())
                    viol("model-vs-scan", "UTXO count of the node differs from the shadow model", vh::J().u("scan", ns->nTransactionOutputs).u("model", v.utxo.size()));
            }
        }
        std::vector<std::string> run, unc;
        for (auto& s : slots) {
            if (s.idx) run.push_back(vh::JStr(s.name));
            if (s.uncommitted_stop) unc.push_back(vh::JStr(s.name));
        }
        rec.raw("uncommitted", vh::JArr(unc));
        rec.raw("running", vh::JArr(run)).u("online_violations", bad);
        vh::log().rec(rec);
        vh::log().obs("checkpoints");
    }
};

std::string Join(const std::vector<std::string>& v)
{
    std::string r;
    for (auto& s : v) r += (r.empty() ? "" : ",") + s;
    return r;
}

} // namespace

VH_CMD(idx_hist)
{
    const int base_blocks = args.geti("base", 104);
    const int actions = args.geti("actions", 36);
    for (uint64_t c = args.from; c < args.to; ++c) {
        vh::set_case(c);
        vh::Rng rng(args.seed, c);
        TestingSetup node{ChainType::REGTEST};
        Hist H{rng, node};
        H.allow_uncommitted_stop = args.geti("uncommitted_stop", 0) != 0;
        // genesis
        {
            auto g = std::make_shared<CBlock>(Params().GenesisBlock());
            MBlock mb{g->GetHash(), uint256{}, 0, g};
            H.model.genesis = mb.hash;
            H.model.blocks.emplace(mb.hash, mb);
            H.LogBlock(mb);
            H.max_time = g->nTime;
            SetMockTime(H.max_time + 600);
        }
        const int scenario = c % 5;
        // which indexes exist from the very beginning
        for (auto& s : H.slots)
            if (scenario == 0 || rng.chance(1, 3)) H.StartIndex(s);
        // base chain (coinbase-only until coinbases mature)
        for (int i = 0; i < base_blocks; ++i) {
            H.Submit(H.MakeBlock(H.Tip(), H.model.blocks.at(H.Tip()).height >= 100 ? rng.below(3) : 0));
            if (scenario != 0 && rng.chance(1, 40)) {
                Slot& s = rng.pick(H.slots);
                if (!s.idx) {
                    H.StartIndex(s);
                    vh::log().obs("late_starts");
                }
            }
            if (rng.chance(1, 50)) H.Flush();
        }
        auto mine = [&](size_t ntx) { H.Submit(H.MakeBlock(H.Tip(), ntx)); };
        auto fork = [&](int depth, int extra, bool reuse_txs) {
            // competing branch from `depth` blocks below the tip, `depth + extra` blocks long
            const View v = H.model.Replay(H.Tip());
            depth = std::min<int>(depth, static_cast<int>(v.chain.size()) - 2);
            if (depth < 1) return;
            uint256 at = v.chain[v.chain.size() - 1 - depth]->hash;
            std::vector<CTransactionRef> pool;
            if (reuse_txs)
                for (size_t h = v.chain.size() - depth; h < v.chain.size(); ++h)
                    for (size_t i = 1; i < v.chain[h]->blk->vtx.size(); ++i)
                        if (rng.chance(2, 3)) pool.push_back(v.chain[h]->blk->vtx[i]);
            for (int k = 0; k < depth + extra; ++k) {
                std::vector<CTransactionRef> take;
                if (!pool.empty() && rng.coin()) {
                    take = pool;
                    pool.clear();
                }
                const MBlock& b = H.MakeBlock(at, rng.below(4), take);
                H.Submit(b);
                at = b.hash;
            }
            H.sig.push_back("fork" + std::to_string(depth) + "+" + std::to_string(extra));
        };
        auto start_all_late = [&] {
            for (auto& s : H.slots)
                if (!s.idx) {
                    H.StartIndex(s);
                    vh::log().obs("late_starts");
                }
        };
        // ---- scenario prologues (make sure every required situation occurs in every run)
        if (scenario == 1) { // indexes started late, initial sync racing with new blocks and a reorg
            start_all_late();
            H.ConcurrentLookups(10);
            for (int i = 0; i < 4; ++i) mine(rng.below(4));
            fork(2, 1, true);
            vh::log().obs("sync_racing_blocks");
            H.sig.push_back("late+race");
        } else if (scenario == 2) { // stop in the middle of the initial sync, restart on the same database
            H.Flush();
            for (int rep = 0; rep < 3; ++rep) {
                for (auto& s : H.slots) {
                    if (s.idx) continue;
                    H.StartIndex(s);
                }
                if (rng.coin()) std::this_thread::sleep_for(std::chrono::microseconds(rng.below(4000)));
                for (auto& s : H.slots)
                    if (rng.chance(2, 3)) {
                        const int how = H.StopIndex(s);
                        if (how) vh::log().obs(how == 1 ? "stops_after_sync" : "stops_mid_sync");
                    }
                if (rng.coin()) mine(rng.below(3));
                if (rng.coin()) H.Flush();
            }
            start_all_late();
            H.sig.push_back("midsync-restarts");
        } else if (scenario == 3) { // reorg while the indexes are stopped and their committed locator points to the stale branch
            start_all_late();
            for (int i = 0; i < 3; ++i) mine(rng.range(1, 4));
            H.Checkpoint(false);
            H.Flush(); // ChainStateFlushed -> Commit(): locator = current tip
            node.m_node.validation_signals->SyncWithValidationInterfaceQueue();
            for (auto& s : H.slots)
                if (rng.chance(3, 4)) H.StopIndex(s);
            fork(static_cast<int>(rng.range(1, 4)), 1, true);
            vh::log().obs("reorg_while_behind");
            if (rng.coin()) H.Flush();
            start_all_late();
            H.sig.push_back("behind-reorg");
        } else if (scenario == 4) { // invalidate / reconsider with running indexes
            start_all_late();
            for (int i = 0; i < 3; ++i) mine(rng.range(1, 4));
            H.sig.push_back("invalidate");
        }
        H.Checkpoint(rng.coin());
        // ---- random part
        for (int a = 0; a < actions; ++a) {
            switch (rng.weighted({36, 14, 6, 6, 8, 8, 6, 10, 6})) {
            case 0: mine(rng.weighted({20, 30, 25, 15, 10})); break;
            case 1: fork(static_cast<int>(rng.weighted({40, 25, 15, 10, 6, 4}) + 1), rng.chance(1, 5) ? 0 : 1, rng.chance(3, 4)); break;
            case 2: { // invalidate a recent active block
                const View v = H.model.Replay(H.Tip());
                const int d = static_cast<int>(rng.range(0, 3));
                if (static_cast<int>(v.chain.size()) - 1 - d < 102) break;
                const uint256 victim = v.chain[v.chain.size() - 1 - d]->hash;
                const uint256 before = H.Tip();
                BlockValidationState state;
                CBlockIndex* pi = WITH_LOCK(::cs_main, return H.chainman().m_blockman.LookupBlockIndex(victim));
                H.chainman().ActiveChainstate().InvalidateBlock(state, pi);
                H.invalidated.insert(victim);
                H.NoteTipChange(before);
                vh::log().obs("invalidate_calls");
                H.sig.push_back("inv" + std::to_string(d));
                break;
            }
            case 3: { // reconsider
                if (H.invalidated.empty()) break;
                const uint256 h = *H.invalidated.begin();
                H.invalidated.erase(H.invalidated.begin());
                const uint256 before = H.Tip();
                {
                    LOCK(::cs_main);
                    H.chainman().ActiveChainstate().ResetBlockFailureFlags(H.chainman().m_blockman.LookupBlockIndex(h));
                    H.chainman().RecalculateBestHeader(); // as the reconsiderblock RPC does
                }
                BlockValidationState state;
                H.chainman().ActiveChainstate().ActivateBestChain(state);
                H.NoteTipChange(before);
                vh::log().obs("reconsider_calls");
                H.sig.push_back("recon");
                break;
            }
            case 4: H.Flush(); break;
            case 5: { // stop one index (it falls behind)
                Slot& s = rng.pick(H.slots);
                if (s.idx) {
                    if (rng.coin()) {
                        node.m_node.validation_signals->SyncWithValidationInterfaceQueue();
                    }
                    if (H.StopIndex(s)) {
                        vh::log().obs("stops");
                        H.sig.push_back("stop:" + s.name);
                    }
                }
                break;
            }
            case 6: { // (re)start a stopped index, possibly interrupt it again right away
                Slot& s = rng.pick(H.slots);
                if (!s.idx) {
                    H.StartIndex(s);
                    if (rng.chance(1, 3)) {
                        std::this_thread::sleep_for(std::chrono::microseconds(rng.below(5000)));
                        const int how = H.StopIndex(s);
                        if (how) vh::log().obs(how == 1 ? "stops_after_sync" : "stops_mid_sync");
                        H.StartIndex(s);
                    }
                    H.sig.push_back("start:" + s.name);
                }
                break;
            }
            case 7: H.Checkpoint(rng.chance(1, 3)); break;
            case 8: H.ConcurrentLookups(8); break;
            }
        }
        start_all_late();
        H.Checkpoint(true);
        vh::J j;
        j.u("case", c).str("ev", "end").i("scenario", scenario).u("blocks", H.n_blocks).u("txs", H.n_txs).u("reorgs", H.n_reorgs).u("max_reorg_depth", H.max_reorg_depth).u("checkpoints", H.cp)
            .str("sig", std::to_string(scenario) + ":" + Join(H.sig));
        vh::log().rec(j);
        H.StopAll();
    }
    return 0;
}

// MuHash3072: numeric agreement with Python (elements + digest logged), order independence, insert/remove cancellation,
// combination of partial hashes, serialization round trip.
VH_CMD(muhash)
{
    for (uint64_t c = args.from; c < args.to; ++c) {
        vh::set_case(c);
        vh::Rng rng(args.seed, c);
        const size_t n = c < 4 ? c : rng.range(1, 24);
        std::vector<std::vector<unsigned char>> els;
        for (size_t i = 0; i < n; ++i) els.push_back(rng.bytes(rng.chance(1, 4) ? 32 : rng.chance(1, 8) ? 0 : rng.range(1, 90)));
        if (n > 2 && rng.chance(1, 5)) els.push_back(els[0]); // multiset: an element twice
        auto digest = [](MuHash3072 m) {
            uint256 out;
            m.Finalize(out);
            return out;
        };
        MuHash3072 base;
        for (auto& e : els) base.Insert(e);
        const uint256 d0 = digest(base);
        bool ok_order = true, ok_remove = true, ok_combine = true, ok_ser = true;
        for (int rep = 0; rep < 20; ++rep) {
            auto p = els;
            rng.shuffle(p);
            MuHash3072 m;
            for (auto& e : p) m.Insert(e);
            if (digest(m) != d0) ok_order = false;
        }
        // insert extras then remove them, interleaved
        {
            std::vector<std::vector<unsigned char>> extra;
            for (size_t i = 0; i < rng.range(1, 6); ++i) extra.push_back(rng.bytes(rng.range(1, 50)));
            struct Op {
                bool ins;
                const std::vector<unsigned char>* e;
            };
            std::vector<Op> ops;
            for (auto& e : els) ops.push_back({true, &e});
            for (auto& e : extra) {
                ops.push_back({true, &e});
                ops.push_back({false, &e});
            }
            rng.shuffle(ops); // a removal may come before its insertion: the quotient representation must cope
            MuHash3072 m;
            for (auto& o : ops) o.ins ? m.Insert(*o.e) : m.Remove(*o.e);
            if (digest(m) != d0) ok_remove = false;
        }
        // split into two partial hashes and combine; divide one out again
        {
            MuHash3072 a, b;
            for (size_t i = 0; i < els.size(); ++i) (i % 2 ? a : b).Insert(els[i]);
            MuHash3072 ab = a;
            ab *= b;
            if (digest(ab) != d0) ok_combine = false;
            ab /= b;
            if (digest(ab) != digest(a)) ok_combine = false;
        }
        {
            DataStream ss;
            ss << base;
            MuHash3072 r;
            ss >> r;
            if (digest(r) != d0) ok_ser = false;
        }
        if (!ok_order) vh::log().violation("muhash-order-dependent", "MuHash of a set depends on insertion order", vh::J().u("n", els.size()));
        if (!ok_remove) vh::log().violation("muhash-remove", "insert-then-remove of extra elements changes the hash", vh::J().u("n", els.size()));
        if (!ok_combine) vh::log().violation("muhash-combine", "combining / dividing partial hashes disagrees with direct insertion", vh::J().u("n", els.size()));
        if (!ok_ser) vh::log().violation("muhash-serialization", "serialization round trip changes the hash", vh::J().u("n", els.size()));
        // a remove-only digest (set with a removed element never inserted) for the Python comparison
        MuHash3072 q = base;
        const auto gone = rng.bytes(rng.range(1, 40));
        q.Remove(gone);
        std::vector<std::string> ej;
        for (auto& e : els) ej.push_back("\"" + vh::Hex(e) + "\"");
        vh::log().rec(vh::J().u("case", c).str("ev", "muhash").raw("els", vh::JArr(ej)).str("digest", vh::Hex(d0)).hex("removed", gone).str("digest_removed", vh::Hex(digest(q))).u("orders", 20));
        vh::log().obs("muhash_sets");
        vh::log().obs("muhash_orders", 20);
    }
    return 0;
}
