// C34: TxRequestTracker in lock-step with an announcement-level model written from the specification comment in
// txrequest.h (not from txrequest.cpp).
//
// Model: a flat table of announcements (peer, txhash, is_wtxid, preferred, reqtime, state in {CANDIDATE, REQUESTED,
// COMPLETED}, expiry, sequence). There is no READY/BEST bookkeeping: what is requestable is recomputed from scratch at
// every GetRequestable(peer, now) call straight from the rules: expire REQUESTED with expiry <= now; forget a txhash
// whose announcements are all COMPLETED; a CANDIDATE of `peer` with reqtime <= now is requestable iff its txhash has no
// REQUESTED announcement and it is the best of all CANDIDATEs with reqtime <= now for that txhash (preferred first, then
// the tracker's deterministic salted priority); results in announcement order.
// The tie-break hash is read through the documented testing accessor ComputePriority(); the preferred flag is compared
// by the model itself, not taken from the priority value.
#include <common/vh.h>

#include <primitives/transaction_identifier.h>
#include <txrequest.h>
#include <uint256.h>

#include <algorithm>
#include <chrono>
#include <map>
#include <numeric>
#include <set>
#include <string>
#include <vector>

namespace {

using us = std::chrono::microseconds;
constexpr int MAXP = 6, MAXT = 6;

uint256 TxHash(int t)
{
    uint256 h;
    for (int i = 0; i < 32; ++i) h.begin()[i] = static_cast<unsigned char>(0x40 + t * 7 + i);
    return h;
}
int TxIndex(const uint256& h)
{
    for (int t = 0; t < MAXT; ++t)
        if (TxHash(t) == h) return t;
    return -1;
}
GenTxid Gtx(int t, bool wtx)
{
    if (wtx) return GenTxid{Wtxid::FromUint256(TxHash(t))};
    return GenTxid{Txid::FromUint256(TxHash(t))};
}
NodeId Peer(int p) { return 100 + p * 3; }

enum State { CAND, REQ, DONE };
struct Ann {
    int peer, tx;
    bool wtx, pref;
    int64_t reqtime;
    State st{CAND};
    int64_t expiry{0};
    uint64_t seq{0};
};

struct Model {
    std::vector<Ann> anns;
    uint64_t next_seq{0};

    Ann* Find(int p, int t)
    {
        for (auto& a : anns)
            if (a.peer == p && a.tx == t) return &a;
        return nullptr;
    }
    void Cleanup(int t)
    {
        bool live = false;
        for (const auto& a : anns)
            if (a.tx == t && a.st != DONE) live = true;
        if (!live) std::erase_if(anns, [&](const Ann& a) { return a.tx == t; });
    }
    void CleanupAll()
    {
        for (int t = 0; t < MAXT; ++t) Cleanup(t);
    }
    bool Inv(int p, int t, bool wtx, bool pref, int64_t reqtime)
    {
        if (Find(p, t)) return false;
        anns.push_back(Ann{p, t, wtx, pref, reqtime, CAND, 0, next_seq++});
        return true;
    }
    bool Disconnect(int p)
    {
        const size_t n = anns.size();
        std::erase_if(anns, [&](const Ann& a) { return a.peer == p; });
        CleanupAll();
        return n != anns.size();
    }
    bool Forget(int t)
    {
        const size_t n = anns.size();
        std::erase_if(anns, [&](const Ann& a) { return a.tx == t; });
        return n != anns.size();
    }
    bool Requested(int p, int t, int64_t expiry)
    {
        Ann* a = Find(p, t);
        if (!a || a->st != CAND) return false;
        for (auto& o : anns)
            if (o.tx == t && o.st == REQ) o.st = DONE;
        a->st = REQ;
        a->expiry = expiry;
        return true;
    }
    bool Response(int p, int t)
    {
        Ann* a = Find(p, t);
        if (!a || a->st == DONE) return false;
        a->st = DONE;
        Cleanup(t);
        return true;
    }
    // returns expired (peer, tx, wtx)
    std::vector<std::tuple<int, int, bool>> Expire(int64_t now)
    {
        std::vector<std::tuple<int, int, bool>> ex;
        for (auto& a : anns) {
            if (a.st == REQ && a.expiry <= now) {
                a.st = DONE;
                ex.emplace_back(a.peer, a.tx, a.wtx);
            }
        }
        CleanupAll();
        return ex;
    }
    std::string Sig() const
    {
        std::vector<std::string> v;
        for (const auto& a : anns) v.push_back(std::to_string(a.peer) + "." + std::to_string(a.tx) + (a.pref ? "p" : "n") + "CRD"[a.st] + std::to_string(a.st == REQ ? a.expiry : a.reqtime) + "#" + std::to_string(a.seq));
        std::sort(v.begin(), v.end());
        std::string s;
        for (auto& x : v) s += x + ",";
        return s;
    }
    // abstract shape: per txhash the multiset of (state, preferred, ready?) ignoring labels
    std::string Shape(int64_t now) const
    {
        std::vector<std::string> per;
        for (int t = 0; t < MAXT; ++t) {
            std::vector<std::string> v;
            for (const auto& a : anns)
                if (a.tx == t) v.push_back(std::string(1, "CRD"[a.st]) + (a.pref ? "p" : "n") + (a.st == CAND ? (a.reqtime <= now ? "r" : "d") : a.st == REQ ? (a.expiry <= now ? "x" : "w") : ""));
            if (v.empty()) continue;
            std::sort(v.begin(), v.end());
            std::string s;
            for (auto& x : v) s += x;
            per.push_back(s);
        }
        std::sort(per.begin(), per.end());
        std::string s;
        for (auto& x : per) s += x + "|";
        return s;
    }
};

uint64_t Fnv(const std::string& s)
{
    uint64_t h = 1469598103934665603ULL;
    for (unsigned char c : s) {
        h ^= c;
        h *= 1099511628211ULL;
    }
    return h;
}

enum Kind { INV, GETREQ, REQUESTED, RESPONSE, FORGET, DISCONNECT, CLOCK, NK };
const char* const KN[NK] = {"inv", "getreq", "requested", "response", "forget", "disconnect", "clock"};

struct Op {
    Kind kind;
    int p{0}, t{0};
    bool pref{false}, wtx{false};
    int64_t dt{0}; // inv: reqtime - now ; requested: expiry - now ; clock: delta
    std::string Str() const
    {
        std::string s = KN[kind];
        s += "(";
        if (kind == INV) s += "p" + std::to_string(p) + ",t" + std::to_string(t) + (pref ? ",pref" : ",nonpref") + (wtx ? ",wtxid" : ",txid") + ",reqtime=now" + (dt >= 0 ? "+" : "") + std::to_string(dt);
        else if (kind == GETREQ || kind == DISCONNECT) s += "p" + std::to_string(p);
        else if (kind == REQUESTED) s += "p" + std::to_string(p) + ",t" + std::to_string(t) + ",expiry=now" + (dt >= 0 ? "+" : "") + std::to_string(dt);
        else if (kind == RESPONSE) s += "p" + std::to_string(p) + ",t" + std::to_string(t);
        else if (kind == FORGET) s += "t" + std::to_string(t);
        else s += (dt >= 0 ? "+" : "") + std::to_string(dt);
        return s + ")";
    }
};

class Sim
{
public:
    TxRequestTracker tr{/*deterministic=*/true};
    Model m;
    int np, nt;
    int64_t now{1000000};
    bool bad{false};
    bool changed{false}; // did the last op change the model state (or the clock)?
    std::vector<std::string> history;
    uint64_t nops{0}, nreqable{0};
    std::vector<std::pair<int, int>> last_advice; // (peer, tx) of the last GetRequestable answer

    Sim(int peers, int txs) : np(peers), nt(txs) {}

    void Violation(const std::string& key, const std::string& msg, const vh::J& extra = vh::J())
    {
        bad = true;
        static int logged = 0;
        if (logged++ >= 25) {
            vh::log().obs("violations_suppressed");
            return;
        }
        std::vector<std::string> h;
        for (const auto& s : history) h.push_back(vh::JStr(s));
        vh::log().violation(key, msg, vh::J().raw("ops", vh::JArr(h)).i("now", now).str("model", m.Sig()).raw("extra", extra.done()));
    }

    uint64_t Prio(const Ann& a) const { return tr.ComputePriority(TxHash(a.tx), Peer(a.peer), a.pref) & ~(uint64_t{1} << 63); }
    static bool Better(const Ann& a, uint64_t pa, const Ann& b, uint64_t pb)
    {
        if (a.pref != b.pref) return a.pref;
        return pa > pb; // "Higher priorities are selected first" is an implementation note; which end wins is fixed below
    }

    void CheckCounters()
    {
        size_t total = 0;
        for (int p = 0; p < np && !bad; ++p) {
            size_t c = 0, r = 0, all = 0;
            for (const auto& a : m.anns)
                if (a.peer == p) {
                    ++all;
                    c += a.st == CAND;
                    r += a.st == REQ;
                }
            total += all;
            if (tr.Count(Peer(p)) != all || tr.CountInFlight(Peer(p)) != r || tr.CountCandidates(Peer(p)) != c) {
                Violation("count-mismatch", "Count/CountInFlight/CountCandidates differ from the model", vh::J().i("peer", p).u("count", tr.Count(Peer(p))).u("inflight", tr.CountInFlight(Peer(p))).u("candidates", tr.CountCandidates(Peer(p))).u("want_count", all).u("want_inflight", r).u("want_candidates", c));
            }
        }
        if (!bad && tr.Size() != total) Violation("size-mismatch", "Size differs from the model", vh::J().u("size", tr.Size()).u("want", total));
        for (int t = 0; t < nt && !bad; ++t) {
            std::vector<NodeId> got, want;
            tr.GetCandidatePeers(TxHash(t), got);
            for (const auto& a : m.anns)
                if (a.tx == t && a.st != DONE) want.push_back(Peer(a.peer));
            std::sort(got.begin(), got.end());
            std::sort(want.begin(), want.end());
            if (got != want) Violation("candidate-peers", "GetCandidatePeers differs from the model", vh::J().i("tx", t));
        }
        // never two outstanding requests for one txhash (model-side invariant, tied to the tracker through the counters above)
        for (int t = 0; t < nt && !bad; ++t) {
            int r = 0;
            for (const auto& a : m.anns) r += (a.tx == t && a.st == REQ);
            if (r > 1) Violation("two-outstanding-requests", "two REQUESTED announcements for one txhash", vh::J().i("tx", t));
        }
        if (!bad) tr.SanityCheck();
    }

    void DoGetRequestable(int p)
    {
        std::vector<std::pair<NodeId, GenTxid>> expired;
        const std::vector<GenTxid> got = tr.GetRequestable(Peer(p), us{now}, &expired);
        const std::string before = m.Sig();
        auto mexp = m.Expire(now);
        changed = before != m.Sig();
        // expired list: same multiset
        std::vector<std::tuple<NodeId, bool, uint256>> e1, e2;
        for (const auto& [peer, g] : expired) e1.emplace_back(peer, g.IsWtxid(), g.ToUint256());
        for (const auto& [pp, tt, w] : mexp) e2.emplace_back(Peer(pp), w, TxHash(tt));
        std::sort(e1.begin(), e1.end());
        std::sort(e2.begin(), e2.end());
        if (e1 != e2) {
            Violation("expired-mismatch", "expired list differs from the model", vh::J().u("got", e1.size()).u("want", e2.size()));
            return;
        }
        if (!mexp.empty()) vh::log().obs("expired_requests", mexp.size());
        // direct rules on what was advised
        std::set<int> seen;
        for (const GenTxid& g : got) {
            const int t = TxIndex(g.ToUint256());
            Ann* a = t >= 0 ? m.Find(p, t) : nullptr;
            vh::J x;
            x.i("peer", p).i("tx", t);
            if (!a || a->st != CAND) {
                Violation(a && a->st != CAND ? "rerequest-same-peer" : "request-without-announcement", "GetRequestable advises a request for which the peer has no CANDIDATE announcement", x);
                return;
            }
            if (!seen.insert(t).second) {
                Violation("duplicate-advice", "GetRequestable lists a txhash twice", x);
                return;
            }
            if (a->reqtime > now) {
                Violation("request-before-reqtime", "GetRequestable advises a request before the announcement's reqtime", x.i("reqtime", a->reqtime));
                return;
            }
            if (g.IsWtxid() != a->wtx) {
                Violation("gtxid-flavour", "returned GenTxid flavour differs from the announcement", x);
                return;
            }
            for (const auto& o : m.anns) {
                if (o.tx != t) continue;
                if (o.st == REQ) {
                    Violation("two-outstanding-requests", "GetRequestable advises a request while another request for the txhash is outstanding", x.i("other_peer", o.peer));
                    return;
                }
                if (!a->pref && o.pref && o.st == CAND && o.reqtime <= now) {
                    Violation("nonpreferred-chosen", "a non-preferred peer is chosen although a preferred candidate is ready", x.i("preferred_peer", o.peer));
                    return;
                }
            }
        }
        // exact answer
        std::vector<const Ann*> sel;
        for (const auto& a : m.anns) {
            if (a.peer != p || a.st != CAND || a.reqtime > now) continue;
            bool best = true;
            const uint64_t pa = Prio(a);
            for (const auto& o : m.anns) {
                if (o.tx != a.tx || &o == &a) continue;
                if (o.st == REQ) best = false;
                if (o.st == CAND && o.reqtime <= now && Better(o, Prio(o), a, pa)) best = false;
            }
            if (best) sel.push_back(&a);
        }
        std::sort(sel.begin(), sel.end(), [](const Ann* a, const Ann* b) { return a->seq < b->seq; });
        std::vector<GenTxid> want;
        for (const Ann* a : sel) want.push_back(Gtx(a->tx, a->wtx));
        if (got != want) {
            std::string gs, ws;
            for (const auto& g : got) gs += "t" + std::to_string(TxIndex(g.ToUint256())) + " ";
            for (const auto& g : want) ws += "t" + std::to_string(TxIndex(g.ToUint256())) + " ";
            std::vector<GenTxid> g2 = got, w2 = want;
            std::sort(g2.begin(), g2.end());
            std::sort(w2.begin(), w2.end());
            Violation(g2 == w2 ? "requestable-order" : "requestable-mismatch", "GetRequestable differs from the model", vh::J().i("peer", p).str("got", gs).str("want", ws));
            return;
        }
        nreqable += got.size();
        last_advice.clear();
        for (const Ann* a : sel) last_advice.emplace_back(p, a->tx);
        if (!got.empty()) vh::log().obs("requestable_returned", got.size());
        if (got.size() > 1) vh::log().obs("requestable_multi");
        for (const Ann* a : sel) {
            bool contested = false, pref_over_non = false;
            for (const auto& o : m.anns)
                if (o.tx == a->tx && &o != a && o.st == CAND && o.reqtime <= now) {
                    contested = true;
                    if (a->pref && !o.pref) pref_over_non = true;
                }
            if (contested) vh::log().obs("best_among_several");
            if (pref_over_non) vh::log().obs("preferred_beats_nonpreferred");
        }
        tr.PostGetRequestableSanityCheck(us{now});
    }

    void Step(const Op& op)
    {
        history.push_back(op.Str());
        ++nops;
        const std::string before = m.Sig();
        changed = false;
        switch (op.kind) {
        case INV:
            tr.ReceivedInv(Peer(op.p), Gtx(op.t, op.wtx), op.pref, us{now + op.dt});
            vh::log().obs(m.Inv(op.p, op.t, op.wtx, op.pref, now + op.dt) ? "inv_new" : "inv_duplicate_ignored");
            break;
        case GETREQ:
            DoGetRequestable(op.p);
            vh::log().obs("op_getreq");
            if (!bad) CheckCounters();
            return;
        case REQUESTED: {
            Ann* a = m.Find(op.p, op.t);
            bool other = false, ready_best = false;
            if (a && a->st == CAND)
                for (const auto& o : m.anns) other |= (o.tx == op.t && o.st == REQ);
            tr.RequestedTx(Peer(op.p), TxHash(op.t), us{now + op.dt});
            const bool did = m.Requested(op.p, op.t, now + op.dt);
            (void)ready_best;
            vh::log().obs(did ? (other ? "requested_replacing_outstanding" : "requested_ok") : "requested_no_candidate");
            break;
        }
        case RESPONSE: {
            Ann* a = m.Find(op.p, op.t);
            const State st = a ? a->st : DONE;
            const size_t n = m.anns.size();
            tr.ReceivedResponse(Peer(op.p), TxHash(op.t));
            const bool did = m.Response(op.p, op.t);
            vh::log().obs(did ? (st == REQ ? "response_to_request" : "response_to_candidate") : "response_ignored");
            if (did && m.anns.size() + 1 < n + 1 && m.anns.size() < n) vh::log().obs("txhash_forgotten_only_completed_left");
            break;
        }
        case FORGET:
            tr.ForgetTxHash(TxHash(op.t));
            vh::log().obs(m.Forget(op.t) ? "forget_txhash" : "forget_unknown");
            break;
        case DISCONNECT: {
            size_t mine = 0;
            for (const auto& a : m.anns) mine += a.peer == op.p;
            const size_t n = m.anns.size();
            tr.DisconnectedPeer(Peer(op.p));
            const bool did = m.Disconnect(op.p);
            vh::log().obs(did ? "disconnect_peer" : "disconnect_unknown");
            if (did && n - m.anns.size() > mine) vh::log().obs("txhash_forgotten_only_completed_left");
            break;
        }
        case CLOCK:
            now += op.dt;
            vh::log().obs(op.dt < 0 ? "clock_backwards" : "clock_forwards");
            changed = true;
            break;
        default:
            break;
        }
        vh::log().obs(std::string("op_") + KN[op.kind]);
        if (before != m.Sig()) changed = true;
        CheckCounters();
    }

    // final sweep: every peer's requestable set at the final time
    void Finish()
    {
        for (int p = 0; p < np && !bad; ++p) {
            history.push_back("final:getreq(p" + std::to_string(p) + ")");
            DoGetRequestable(p);
            if (!bad) CheckCounters();
        }
    }
};

// ---- exhaustive -----------------------------------------------------------------------------------------------------

std::vector<Op> Alphabet(int np, int nt)
{
    std::vector<Op> a;
    for (int p = 0; p < np; ++p)
        for (int t = 0; t < nt; ++t)
            for (int pref = 0; pref < 2; ++pref)
                for (int d = 0; d < 2; ++d) a.push_back(Op{INV, p, t, pref != 0, ((p + t) & 1) != 0, d});
    for (int p = 0; p < np; ++p) a.push_back(Op{GETREQ, p});
    for (int p = 0; p < np; ++p)
        for (int t = 0; t < nt; ++t)
            for (int d = 0; d < 2; ++d) a.push_back(Op{REQUESTED, p, t, false, false, 1 - d});
    for (int p = 0; p < np; ++p)
        for (int t = 0; t < nt; ++t) a.push_back(Op{RESPONSE, p, t});
    for (int t = 0; t < nt; ++t) a.push_back(Op{FORGET, 0, t});
    for (int p = 0; p < np; ++p) a.push_back(Op{DISCONNECT, p});
    a.push_back(Op{CLOCK, 0, 0, false, false, 1});
    a.push_back(Op{CLOCK, 0, 0, false, false, -1});
    return a;
}

struct Ex {
    std::vector<Op> alpha;
    int np, nt, maxlen;
    uint64_t nseq{0}, nops{0}, leaf_noop{0}, pruned_sym{0};
    std::set<uint64_t> shapes;
    int maxdepth{0};
    bool failed{false};
    uint64_t nreq{0};
};

bool UsesPeer(const Op& o) { return o.kind == INV || o.kind == GETREQ || o.kind == REQUESTED || o.kind == RESPONSE || o.kind == DISCONNECT; }
bool UsesTx(const Op& o) { return o.kind == INV || o.kind == REQUESTED || o.kind == RESPONSE || o.kind == FORGET; }

// peers and txhashes are interchangeable labels: a new label may only be introduced in increasing order, and only by an
// announcement (every other operation on a never-announced label is a no-op)
bool SymOk(const Ex& ex, const std::vector<int>& seq)
{
    int np = 0, nt = 0;
    for (int i : seq) {
        const Op& o = ex.alpha[i];
        if (UsesPeer(o)) {
            if (o.p > np || (o.p == np && o.kind != INV)) return false;
        }
        if (UsesTx(o)) {
            if (o.t > nt || (o.t == nt && o.kind != INV)) return false;
        }
        if (o.kind == INV) {
            if (o.p == np) ++np;
            if (o.t == nt) ++nt;
        }
    }
    return true;
}

// run the sequence from scratch; returns whether it is worth extending
bool RunSeq(Ex& ex, const std::vector<int>& seq)
{
    Sim sim(ex.np, ex.nt);
    bool last_changed = true;
    for (size_t i = 0; i < seq.size() && !sim.bad; ++i) {
        sim.Step(ex.alpha[seq[i]]);
        last_changed = sim.changed;
    }
    const std::string shape = sim.m.Shape(sim.now);
    sim.Finish();
    ++ex.nseq;
    ex.nops += seq.size();
    ex.nreq += sim.nreqable;
    if (sim.bad) {
        ex.failed = true;
        return false;
    }
    ex.shapes.insert(Fnv(shape));
    // GetRequestable is never treated as a no-op (it moves the tracker's internal READY/BEST bookkeeping even when the
    // model is unchanged) unless it directly repeats the previous operation
    const Op& last = ex.alpha[seq.back()];
    bool noop = !last_changed;
    if (last.kind == GETREQ) noop = seq.size() >= 2 && seq[seq.size() - 2] == seq.back();
    if (noop) {
        ++ex.leaf_noop;
        return false;
    }
    ex.maxdepth = std::max<int>(ex.maxdepth, seq.size());
    return true;
}

void Explore(Ex& ex, std::vector<int>& seq)
{
    if (static_cast<int>(seq.size()) >= ex.maxlen) return;
    for (int a = 0; a < static_cast<int>(ex.alpha.size()); ++a) {
        seq.push_back(a);
        if (!SymOk(ex, seq)) ++ex.pruned_sym;
        else if (RunSeq(ex, seq)) Explore(ex, seq);
        seq.pop_back();
    }
}

// all canonical operation prefixes of length n, in lexicographic order (same rule as SymOk, tracked incrementally)
void PrefixesRec(const Ex& ex, int n, int up, int ut, std::vector<int>& cur, std::vector<std::vector<int>>& out)
{
    if (static_cast<int>(cur.size()) == n) {
        out.push_back(cur);
        return;
    }
    for (int a = 0; a < static_cast<int>(ex.alpha.size()); ++a) {
        const Op& o = ex.alpha[a];
        if (UsesPeer(o) && (o.p > up || (o.p == up && o.kind != INV))) continue;
        if (UsesTx(o) && (o.t > ut || (o.t == ut && o.kind != INV))) continue;
        cur.push_back(a);
        PrefixesRec(ex, n, up + (o.kind == INV && o.p == up), ut + (o.kind == INV && o.t == ut), cur, out);
        cur.pop_back();
    }
}
void Prefixes(const Ex& ex, int n, std::vector<int>& cur, std::vector<std::vector<int>>& out) { PrefixesRec(ex, n, 0, 0, cur, out); }

} // namespace

// Exhaustive: case c = a canonical prefix of `prefix` (3) operations (scrambled for balance); the case enumerates all
// continuations up to `len` operations. Params: peers (4), txs (4), len (5), prefix (3).
VH_CMD(txrequest_ex)
{
    const int np = static_cast<int>(args.geti("peers", 4)), nt = static_cast<int>(args.geti("txs", 4));
    const int maxlen = static_cast<int>(args.geti("len", 5));
    const int plen = static_cast<int>(args.geti("prefix", 3));
    if (np < 1 || np > MAXP || nt < 1 || nt > MAXT || plen < 1 || maxlen < plen) return 2;
    Ex base;
    base.alpha = Alphabet(np, nt);
    std::vector<std::vector<int>> prefixes;
    {
        std::vector<int> cur;
        Prefixes(base, plen, cur, prefixes);
    }
    const uint64_t N = prefixes.size();
    uint64_t mul = 7919;
    while (std::gcd<uint64_t, uint64_t>(mul, N) != 1) mul += 2;
    for (uint64_t c = args.from; c < args.to; ++c) {
        vh::set_case(c);
        if (c >= N) return 2;
        const uint64_t k = (c * mul) % N;
        const std::vector<int>& pre = prefixes[k];
        Ex ex;
        ex.alpha = base.alpha;
        ex.np = np;
        ex.nt = nt;
        ex.maxlen = maxlen;
        std::vector<int> seq;
        bool ext = true;
        for (int i = 0; i < plen && ext; ++i) {
            seq.push_back(pre[i]);
            // a shorter prefix is counted by the first case that starts with it
            const bool first = k == 0 || !std::equal(pre.begin(), pre.begin() + i + 1, prefixes[k - 1].begin());
            const uint64_t n0 = ex.nseq, o0 = ex.nops;
            ext = RunSeq(ex, seq);
            if (!first && i + 1 < plen) {
                ex.nseq = n0;
                ex.nops = o0;
            }
        }
        if (ext) Explore(ex, seq);
        std::vector<std::string> sg;
        for (uint64_t s : ex.shapes) sg.push_back(std::to_string(s));
        std::string ps;
        for (int i : pre) ps += base.alpha[i].Str() + ";";
        vh::log().obs("sequences", ex.nseq);
        vh::log().obs("ops_executed", ex.nops);
        vh::log().obs("leaf_noop", ex.leaf_noop);
        vh::log().obs_max("sequence_length", ex.maxdepth);
        vh::log().rec(vh::J().u("case", c).str("mode", "ex").str("prefix", ps).u("n", ex.nseq).u("ops", ex.nops).b("nt", ex.nreq > 0).raw("sigs", vh::JArr(sg)).b("failed", ex.failed));
    }
    return 0;
}

// number of canonical prefixes (the check module computes the same number itself; this is for cross-checking)
VH_CMD(txrequest_ex_size)
{
    const int np = static_cast<int>(args.geti("peers", 4)), nt = static_cast<int>(args.geti("txs", 4));
    Ex base;
    base.alpha = Alphabet(np, nt);
    std::vector<std::vector<int>> prefixes;
    std::vector<int> cur;
    Prefixes(base, static_cast<int>(args.geti("prefix", 3)), cur, prefixes);
    vh::log().rec(vh::J().u("prefixes", prefixes.size()).u("alphabet", base.alpha.size()));
    return 0;
}

// Random: params len (200). 3..6 peers, 3..6 txhashes, clock with jumps in both directions.
VH_CMD(txrequest_rand)
{
    const int len = static_cast<int>(args.geti("len", 200));
    for (uint64_t c = args.from; c < args.to; ++c) {
        vh::set_case(c);
        vh::Rng rng(args.seed, c);
        const int np = 3 + static_cast<int>(rng.below(4)), nt = 3 + static_cast<int>(rng.below(4));
        Sim sim(np, nt);
        std::vector<uint32_t> w = {30 + static_cast<uint32_t>(rng.below(20)), 25, 15, 10, 3, 3, 12};
        const bool follow_advice = rng.chance(2, 3); // mostly request what GetRequestable advised, sometimes arbitrary
        std::set<uint64_t> shapes;
        std::map<int, int> kinds;
        std::vector<std::pair<int, int>> advised;
        for (int i = 0; i < len && !sim.bad; ++i) {
            Op op;
            op.kind = static_cast<Kind>(rng.weighted(w));
            op.p = static_cast<int>(rng.below(np));
            op.t = static_cast<int>(rng.below(nt));
            switch (op.kind) {
            case INV:
                op.pref = rng.chance(1, 3);
                op.wtx = rng.coin();
                op.dt = rng.chance(1, 2) ? 0 : rng.range(-3, 8);
                break;
            case REQUESTED:
                op.dt = rng.chance(1, 6) ? rng.range(-2, 0) : rng.range(1, 10);
                if (follow_advice && !advised.empty() && rng.chance(5, 6)) {
                    const auto [p, t] = advised[rng.below(advised.size())];
                    op.p = p;
                    op.t = t;
                }
                break;
            case CLOCK:
                op.dt = rng.chance(1, 5) ? -rng.range(1, 6) : rng.range(1, 6);
                break;
            default:
                break;
            }
            sim.Step(op);
            if (op.kind == GETREQ && !sim.bad) advised = sim.last_advice;
            ++kinds[op.kind];
            if (!sim.bad && i % 8 == 0) shapes.insert(Fnv(sim.m.Shape(sim.now)));
        }
        sim.Finish();
        std::vector<std::string> sg;
        for (uint64_t s : shapes) sg.push_back(std::to_string(s));
        std::string ks;
        for (auto [k, n] : kinds) ks += std::string(KN[k]) + "=" + std::to_string(n) + " ";
        vh::log().obs("sequences");
        vh::log().obs("ops_executed", sim.nops);
        vh::J j;
        j.u("case", c).str("mode", "rand").u("n", 1).u("ops", sim.nops).b("nt", sim.nreqable > 0).u("advised", sim.nreqable).raw("sigs", vh::JArr(sg)).b("failed", sim.bad);
        if (c < 3) j.raw("sample", vh::J().str("kinds", ks).i("peers", np).i("txhashes", nt).u("requests_advised", sim.nreqable).str("final_model", sim.m.Sig()).done());
        vh::log().rec(j);
    }
    return 0;
}
