// Shared by e5_descriptor.cpp (C45) and e5_sign.cpp (C46): an own miniscript AST, an own port of the miniscript
// type table (written from the miniscript specification; deliberately *not* using script/miniscript.h), a
// type-directed random generator for both script contexts, a printer to the descriptor text form (with or
// without the syntactic sugar pk()/pkh()/t:/l:/u:/and_n()), and a JSON dump of the AST for the offline
// abstract policy evaluator in Python.
#pragma once

#include <common/vh.h>

#include <cstdint>
#include <functional>
#include <string>
#include <vector>

namespace msgen {

constexpr uint32_t tB = 1u << 0, tV = 1u << 1, tK = 1u << 2, tW = 1u << 3,
                   pz = 1u << 4, po = 1u << 5, pn = 1u << 6, pd = 1u << 7, pu = 1u << 8, pe = 1u << 9, pf = 1u << 10,
                   ps = 1u << 11, pm = 1u << 12, px = 1u << 13, pg = 1u << 14, ph = 1u << 15, pi = 1u << 16, pj = 1u << 17, pk = 1u << 18;

enum class F {
    JUST_0, JUST_1, PK_K, PK_H, OLDER, AFTER, SHA256, HASH256, RIPEMD160, HASH160,
    WRAP_A, WRAP_S, WRAP_C, WRAP_D, WRAP_V, WRAP_J, WRAP_N,
    AND_V, AND_B, OR_B, OR_C, OR_D, OR_I, ANDOR, THRESH, MULTI, MULTI_A,
};

struct Node {
    F f{F::JUST_0};
    std::vector<Node> subs;
    std::vector<int> keys; // indices into the caller's key table
    uint32_t k{0};         // older/after value, thresh/multi threshold
    int hash{-1};          // index into the caller's preimage table
    uint32_t type{0};      // own type computation
};

inline bool has(uint32_t t, uint32_t bits) { return (t & bits) == bits; }

// The miniscript type table (basic type + properties z o n d u e f s m x and the timelock classes g h i j k).
inline uint32_t ComputeType(const Node& nd, bool tap)
{
    auto sub = [&](size_t i) { return nd.subs[i].type; };
    auto tlmix = [](uint32_t x, uint32_t y) {
        return (has(x, pg) && has(y, ph)) || (has(x, ph) && has(y, pg)) || (has(x, pi) && has(y, pj)) || (has(x, pj) && has(y, pi));
    };
    for (const Node& s : nd.subs)
        if (!(s.type & (tB | tV | tK | tW))) return 0;
    switch (nd.f) {
    case F::PK_K: return tK | po | pn | pu | pd | pe | pm | ps | px | pk;
    case F::PK_H: return tK | pn | pu | pd | pe | pm | ps | px | pk;
    case F::OLDER: return ((nd.k & (1u << 22)) ? pg : ph) | tB | pz | pf | pm | px | pk;
    case F::AFTER: return (nd.k >= 500000000u ? pi : pj) | tB | pz | pf | pm | px | pk;
    case F::SHA256: case F::HASH256: case F::RIPEMD160: case F::HASH160: return tB | po | pn | pu | pd | pm | pk;
    case F::JUST_1: return tB | pz | pu | pf | pm | px | pk;
    case F::JUST_0: return tB | pz | pu | pd | pe | pm | ps | px | pk;
    case F::WRAP_A: {
        uint32_t x = sub(0);
        return (has(x, tB) ? tW : 0) | (x & (pg | ph | pi | pj | pk)) | (x & (pu | pd | pf | pe | pm | ps)) | px;
    }
    case F::WRAP_S: {
        uint32_t x = sub(0);
        return (has(x, tB | po) ? tW : 0) | (x & (pg | ph | pi | pj | pk)) | (x & (pu | pd | pf | pe | pm | ps | px));
    }
    case F::WRAP_C: {
        uint32_t x = sub(0);
        return (has(x, tK) ? tB : 0) | (x & (pg | ph | pi | pj | pk)) | (x & (po | pn | pd | pf | pe | pm)) | pu | ps;
    }
    case F::WRAP_D: {
        uint32_t x = sub(0);
        return (has(x, tV | pz) ? tB : 0) | (has(x, pz) ? po : 0) | (has(x, pf) ? pe : 0) | (x & (pg | ph | pi | pj | pk)) | (x & (pm | ps)) |
               (tap ? pu : 0) | pn | pd | px;
    }
    case F::WRAP_V: {
        uint32_t x = sub(0);
        return (has(x, tB) ? tV : 0) | (x & (pg | ph | pi | pj | pk)) | (x & (pz | po | pn | pm | ps)) | pf | px;
    }
    case F::WRAP_J: {
        uint32_t x = sub(0);
        return (has(x, tB | pn) ? tB : 0) | (has(x, pf) ? pe : 0) | (x & (pg | ph | pi | pj | pk)) | (x & (po | pu | pm | ps)) | pn | pd | px;
    }
    case F::WRAP_N: {
        uint32_t x = sub(0);
        return (x & (pg | ph | pi | pj | pk)) | (x & (tB | pz | po | pn | pd | pf | pe | pm | ps)) | pu | px;
    }
    case F::AND_V: {
        uint32_t x = sub(0), y = sub(1);
        return (has(x, tV) ? (y & (tK | tV | tB)) : 0) | (x & pn) | (has(x, pz) ? (y & pn) : 0) |
               (((x | y) & pz) ? ((x | y) & po) : 0) | (x & y & (pm | pz)) | ((x | y) & ps) |
               ((has(y, pf) || has(x, ps)) ? pf : 0) | (y & (pu | px)) | ((x | y) & (pg | ph | pi | pj)) |
               ((has(x & y, pk) && !tlmix(x, y)) ? pk : 0);
    }
    case F::AND_B: {
        uint32_t x = sub(0), y = sub(1);
        return (has(y, tW) ? (x & tB) : 0) | (((x | y) & pz) ? ((x | y) & po) : 0) | (x & pn) | (has(x, pz) ? (y & pn) : 0) |
               (has(x & y, ps) ? (x & y & pe) : 0) | (x & y & (pd | pz | pm)) |
               ((has(x & y, pf) || has(x, ps | pf) || has(y, ps | pf)) ? pf : 0) | ((x | y) & ps) | pu | px |
               ((x | y) & (pg | ph | pi | pj)) | ((has(x & y, pk) && !tlmix(x, y)) ? pk : 0);
    }
    case F::OR_B: {
        uint32_t x = sub(0), y = sub(1);
        return ((has(x, tB | pd) && has(y, tW | pd)) ? tB : 0) | (((x | y) & pz) ? ((x | y) & po) : 0) |
               ((((x | y) & ps) && has(x & y, pe)) ? (x & y & pm) : 0) | (x & y & (pz | ps | pe)) | pd | pu | px |
               ((x | y) & (pg | ph | pi | pj)) | (x & y & pk);
    }
    case F::OR_D: {
        uint32_t x = sub(0), y = sub(1);
        return (has(x, tB | pd | pu) ? (y & tB) : 0) | (has(y, pz) ? (x & po) : 0) |
               ((has(x, pe) && ((x | y) & ps)) ? (x & y & pm) : 0) | (x & y & (pz | ps)) | (y & (pu | pf | pd | pe)) | px |
               ((x | y) & (pg | ph | pi | pj)) | (x & y & pk);
    }
    case F::OR_C: {
        uint32_t x = sub(0), y = sub(1);
        return (has(x, tB | pd | pu) ? (y & tV) : 0) | (has(y, pz) ? (x & po) : 0) |
               ((has(x, pe) && ((x | y) & ps)) ? (x & y & pm) : 0) | (x & y & (pz | ps)) | pf | px |
               ((x | y) & (pg | ph | pi | pj)) | (x & y & pk);
    }
    case F::OR_I: {
        uint32_t x = sub(0), y = sub(1);
        return (x & y & (tV | tB | tK | pu | pf | ps)) | (has(x & y, pz) ? po : 0) | (((x | y) & pf) ? ((x | y) & pe) : 0) |
               (((x | y) & ps) ? (x & y & pm) : 0) | ((x | y) & pd) | px | ((x | y) & (pg | ph | pi | pj)) | (x & y & pk);
    }
    case F::ANDOR: {
        uint32_t x = sub(0), y = sub(1), z = sub(2);
        return (has(x, tB | pd | pu) ? (y & z & (tB | tK | tV)) : 0) | (x & y & z & pz) |
               (((x | (y & z)) & pz) ? ((x | (y & z)) & po) : 0) | (y & z & pu) |
               ((has(x, ps) || has(y, pf)) ? (z & pf) : 0) | (z & pd) | ((has(x, ps) || has(y, pf)) ? (z & pe) : 0) |
               ((has(x, pe) && ((x | y | z) & ps)) ? (x & y & z & pm) : 0) | (z & (x | y) & ps) | px |
               ((x | y | z) & (pg | ph | pi | pj)) | ((has(x & y & z, pk) && !tlmix(x, y)) ? pk : 0);
    }
    case F::MULTI: return tap ? 0 : (tB | pn | pu | pd | pe | pm | ps | pk);
    case F::MULTI_A: return tap ? (tB | pu | pd | pe | pm | ps | pk) : 0;
    case F::THRESH: {
        bool all_e = true, all_m = true;
        uint32_t args = 0, num_s = 0, acc = pk;
        const size_t n = nd.subs.size();
        if (nd.k < 1 || nd.k > n) return 0;
        for (size_t i = 0; i < n; ++i) {
            uint32_t t = sub(i);
            if (!has(t, (i ? tW : tB) | pd | pu)) return 0;
            if (!has(t, pe)) all_e = false;
            if (!has(t, pm)) all_m = false;
            if (has(t, ps)) ++num_s;
            args += has(t, pz) ? 0 : has(t, po) ? 1 : 2;
            acc = ((acc | t) & (pg | ph | pi | pj)) | ((has(acc & t, pk) && (nd.k <= 1 || !tlmix(acc, t))) ? pk : 0);
        }
        return tB | pd | pu | (args == 0 ? pz : 0) | (args == 1 ? po : 0) | ((all_e && num_s == n) ? pe : 0) |
               ((all_e && all_m && num_s >= n - nd.k) ? pm : 0) | ((num_s >= n - nd.k + 1) ? ps : 0) | acc;
    }
    }
    return 0;
}

inline const char* FragName(F f)
{
    switch (f) {
    case F::JUST_0: return "0"; case F::JUST_1: return "1"; case F::PK_K: return "pk_k"; case F::PK_H: return "pk_h";
    case F::OLDER: return "older"; case F::AFTER: return "after"; case F::SHA256: return "sha256"; case F::HASH256: return "hash256";
    case F::RIPEMD160: return "ripemd160"; case F::HASH160: return "hash160"; case F::WRAP_A: return "a"; case F::WRAP_S: return "s";
    case F::WRAP_C: return "c"; case F::WRAP_D: return "d"; case F::WRAP_V: return "v"; case F::WRAP_J: return "j"; case F::WRAP_N: return "n";
    case F::AND_V: return "and_v"; case F::AND_B: return "and_b"; case F::OR_B: return "or_b"; case F::OR_C: return "or_c";
    case F::OR_D: return "or_d"; case F::OR_I: return "or_i"; case F::ANDOR: return "andor"; case F::THRESH: return "thresh";
    case F::MULTI: return "multi"; case F::MULTI_A: return "multi_a";
    }
    return "?";
}

// Text form. keystr(i) renders key i, hashstr(i, len) the hex of hash i. With sugar the canonical spelling that the
// node's own printer uses is produced; without it the desugared spelling (which must parse to the same node).
struct Printer {
    std::function<std::string(int)> keystr;
    std::function<std::string(int, F)> hashstr;
    bool sugar{true};

    // returns (wrapper prefix, body)
    std::pair<std::string, std::string> Parts(const Node& n) const
    {
        auto full = [&](const Node& s) {
            auto [p, b] = Parts(s);
            return p.empty() ? b : p + ":" + b;
        };
        auto wrap = [&](char w, const Node& s) {
            auto [p, b] = Parts(s);
            return std::make_pair(std::string(1, w) + p, b);
        };
        switch (n.f) {
        case F::JUST_0: return {"", "0"};
        case F::JUST_1: return {"", "1"};
        case F::PK_K: return {"", "pk_k(" + keystr(n.keys[0]) + ")"};
        case F::PK_H: return {"", "pk_h(" + keystr(n.keys[0]) + ")"};
        case F::OLDER: return {"", "older(" + std::to_string(n.k) + ")"};
        case F::AFTER: return {"", "after(" + std::to_string(n.k) + ")"};
        case F::SHA256: case F::HASH256: case F::RIPEMD160: case F::HASH160:
            return {"", std::string(FragName(n.f)) + "(" + hashstr(n.hash, n.f) + ")"};
        case F::WRAP_A: return wrap('a', n.subs[0]);
        case F::WRAP_S: return wrap('s', n.subs[0]);
        case F::WRAP_C:
            if (sugar && n.subs[0].f == F::PK_K) return {"", "pk(" + keystr(n.subs[0].keys[0]) + ")"};
            if (sugar && n.subs[0].f == F::PK_H) return {"", "pkh(" + keystr(n.subs[0].keys[0]) + ")"};
            return wrap('c', n.subs[0]);
        case F::WRAP_D: return wrap('d', n.subs[0]);
        case F::WRAP_V: return wrap('v', n.subs[0]);
        case F::WRAP_J: return wrap('j', n.subs[0]);
        case F::WRAP_N: return wrap('n', n.subs[0]);
        case F::AND_V:
            if (sugar && n.subs[1].f == F::JUST_1) return wrap('t', n.subs[0]);
            return {"", "and_v(" + full(n.subs[0]) + "," + full(n.subs[1]) + ")"};
        case F::AND_B: return {"", "and_b(" + full(n.subs[0]) + "," + full(n.subs[1]) + ")"};
        case F::OR_B: return {"", "or_b(" + full(n.subs[0]) + "," + full(n.subs[1]) + ")"};
        case F::OR_C: return {"", "or_c(" + full(n.subs[0]) + "," + full(n.subs[1]) + ")"};
        case F::OR_D: return {"", "or_d(" + full(n.subs[0]) + "," + full(n.subs[1]) + ")"};
        case F::OR_I:
            if (sugar && n.subs[0].f == F::JUST_0) return wrap('l', n.subs[1]);
            if (sugar && n.subs[1].f == F::JUST_0) return wrap('u', n.subs[0]);
            return {"", "or_i(" + full(n.subs[0]) + "," + full(n.subs[1]) + ")"};
        case F::ANDOR:
            if (sugar && n.subs[2].f == F::JUST_0) return {"", "and_n(" + full(n.subs[0]) + "," + full(n.subs[1]) + ")"};
            return {"", "andor(" + full(n.subs[0]) + "," + full(n.subs[1]) + "," + full(n.subs[2]) + ")"};
        case F::THRESH: {
            std::string r = "thresh(" + std::to_string(n.k);
            for (const Node& s : n.subs) r += "," + full(s);
            return {"", r + ")"};
        }
        case F::MULTI: case F::MULTI_A: {
            std::string r = std::string(FragName(n.f)) + "(" + std::to_string(n.k);
            for (int key : n.keys) r += "," + keystr(key);
            return {"", r + ")"};
        }
        }
        return {"", "?"};
    }
    std::string Str(const Node& n) const
    {
        auto [p, b] = Parts(n);
        return p.empty() ? b : p + ":" + b;
    }
};

// JSON: ["frag", k, [keys], hash, [subs...]]
inline std::string ToJson(const Node& n)
{
    std::string r = "[\"";
    r += FragName(n.f);
    r += "\"," + std::to_string(n.k) + ",[";
    for (size_t i = 0; i < n.keys.size(); ++i) r += (i ? "," : "") + std::to_string(n.keys[i]);
    r += "]," + std::to_string(n.hash) + ",[";
    for (size_t i = 0; i < n.subs.size(); ++i) r += (i ? "," : "") + ToJson(n.subs[i]);
    return r + "]]";
}

inline void CollectLeaves(const Node& n, std::vector<int>& keys, std::vector<int>& hashes, std::vector<uint32_t>& olders, std::vector<uint32_t>& afters)
{
    for (int k : n.keys) keys.push_back(k);
    if (n.hash >= 0) hashes.push_back(n.hash);
    if (n.f == F::OLDER) olders.push_back(n.k);
    if (n.f == F::AFTER) afters.push_back(n.k);
    for (const Node& s : n.subs) CollectLeaves(s, keys, hashes, olders, afters);
}

inline size_t CountNodes(const Node& n)
{
    size_t c = 1;
    for (const Node& s : n.subs) c += CountNodes(s);
    return c;
}

// Type-directed random generator. Keys are handed out without repetition from `free_keys` (repeated keys make a
// miniscript insane); hashes are indices < nhashes.
class Gen
{
public:
    vh::Rng& rng;
    bool tap;
    std::vector<int> free_keys;
    int nhashes;
    // timelock flavours of this script (mostly consistent so that the 'k' property usually holds)
    bool rel_time, abs_time;
    uint32_t mix_permille{60}; // chance to use the other flavour for a single leaf

    Gen(vh::Rng& r, bool tapscript, std::vector<int> keys, int hashes) : rng(r), tap(tapscript), free_keys(std::move(keys)), nhashes(hashes)
    {
        rel_time = rng.chance(1, 3);
        abs_time = rng.chance(1, 3);
        rng.shuffle(free_keys);
    }

    int TakeKey()
    {
        if (free_keys.empty()) return -1;
        int k = free_keys.back();
        free_keys.pop_back();
        return k;
    }

    Node Mk(F f, std::vector<Node> subs = {}, std::vector<int> keys = {}, uint32_t k = 0, int hash = -1)
    {
        Node n;
        n.f = f;
        n.subs = std::move(subs);
        n.keys = std::move(keys);
        n.k = k;
        n.hash = hash;
        n.type = ComputeType(n, tap);
        return n;
    }

    uint32_t OlderValue()
    {
        bool time = rel_time ^ rng.chance(mix_permille, 1000);
        uint32_t v;
        switch (rng.below(6)) {
        case 0: v = 1; break;
        case 1: v = 0xffff; break;
        case 2: v = static_cast<uint32_t>(rng.range(1, 16)); break;
        case 3: v = static_cast<uint32_t>(rng.range(1, 0xffff)); break;
        case 4: v = static_cast<uint32_t>(rng.range(1, 0xffff)) | (rng.chance(1, 4) ? static_cast<uint32_t>(rng.below(16)) << 16 : 0); break; // bits outside the mask
        default: v = static_cast<uint32_t>(rng.range(1, 1000)); break;
        }
        if (time) v |= (1u << 22);
        return v;
    }
    uint32_t AfterValue()
    {
        bool time = abs_time ^ rng.chance(mix_permille, 1000);
        if (time) {
            switch (rng.below(4)) {
            case 0: return 500000000u;
            case 1: return 0x7fffffffu;
            default: return static_cast<uint32_t>(rng.range(500000000, 0x7fffffff));
            }
        }
        switch (rng.below(5)) {
        case 0: return 1;
        case 1: return 499999999u;
        case 2: return static_cast<uint32_t>(rng.range(1, 16));
        default: return static_cast<uint32_t>(rng.range(1, 900000));
        }
    }

    Node KeyLeafK()
    {
        int k = TakeKey();
        if (k < 0) return Mk(F::JUST_0); // caller sees a non-K type and retries/falls back
        return Mk(rng.chance(3, 4) ? F::PK_K : F::PK_H, {}, {k});
    }
    Node HashLeaf()
    {
        static const F hs[4] = {F::SHA256, F::HASH256, F::RIPEMD160, F::HASH160};
        return Mk(hs[rng.below(4)], {}, {}, 0, static_cast<int>(rng.below(nhashes)));
    }
    Node MultiLeaf()
    {
        size_t n = 1 + rng.below(tap ? 5 : 4);
        if (n > free_keys.size()) n = free_keys.size();
        if (n == 0) return HashLeaf();
        std::vector<int> ks;
        for (size_t i = 0; i < n; ++i) ks.push_back(TakeKey());
        uint32_t k = 1 + static_cast<uint32_t>(rng.below(n));
        return Mk(tap ? F::MULTI_A : F::MULTI, {}, ks, k);
    }
    // a leaf of basic type B; bias towards signature leaves
    Node LeafB()
    {
        switch (rng.weighted({50, 12, 12, 14, 10, 1, 1})) {
        case 0: { Node k = KeyLeafK(); if (!has(k.type, tK)) return HashLeaf(); return Mk(F::WRAP_C, {k}); }
        case 1: return Mk(F::OLDER, {}, {}, OlderValue());
        case 2: return Mk(F::AFTER, {}, {}, AfterValue());
        case 3: return HashLeaf();
        case 4: return MultiLeaf();
        case 5: return Mk(F::JUST_1);
        default: return Mk(F::JUST_0);
        }
    }
    Node SigLeafB()
    {
        Node k = KeyLeafK();
        if (!has(k.type, tK)) return Mk(F::JUST_0);
        return Mk(F::WRAP_C, {k});
    }

    // generate a node whose type includes `want` (basic type bit + property bits); bounded retries, then a fallback
    Node GenWant(uint32_t want, int depth)
    {
        for (int attempt = 0; attempt < 6; ++attempt) {
            Node n = GenBase(want & (tB | tV | tK | tW), depth);
            if (has(n.type, want)) return n;
            // give the keys back? no: keys are cheap, the pool is larger than any tree we build
        }
        return Fallback(want);
    }
    Node Fallback(uint32_t want)
    {
        uint32_t base = want & (tB | tV | tK | tW);
        if (base == tB) {
            if (want & pz) return (want & pd) ? Mk(F::JUST_0) : Mk(F::OLDER, {}, {}, OlderValue());
            return SigLeafB(); // Bondu ems
        }
        if (base == tK) return KeyLeafK();
        if (base == tV) {
            if (want & pz) return Mk(F::WRAP_V, {Mk(F::OLDER, {}, {}, OlderValue())});
            return Mk(F::WRAP_V, {SigLeafB()});
        }
        // W
        return Mk(F::WRAP_A, {SigLeafB()});
    }

    Node GenBase(uint32_t base, int depth)
    {
        if (base == tB) return GenB(depth);
        if (base == tV) return GenV(depth);
        if (base == tK) return GenK(depth);
        return GenW(depth);
    }

    Node GenB(int depth)
    {
        if (depth <= 0) return LeafB();
        switch (rng.weighted({26, 10, 8, 6, 8, 8, 8, 7, 2, 2, 3, 2, 3, 2, 2, 3})) {
        case 0: return LeafB();
        case 1: return Mk(F::AND_V, {GenWant(tV, depth - 1), GenWant(tB, depth - 1)});
        case 2: return Mk(F::AND_B, {GenWant(tB, depth - 1), GenWant(tW, depth - 1)});
        case 3: return Mk(F::OR_B, {GenWant(tB | pd, depth - 1), GenWant(tW | pd, depth - 1)});
        case 4: return Mk(F::OR_D, {GenWant(tB | pd | pu, depth - 1), GenWant(tB, depth - 1)});
        case 5: return Mk(F::OR_I, {GenWant(tB, depth - 1), GenWant(tB, depth - 1)});
        case 6: return Mk(F::ANDOR, {GenWant(tB | pd | pu, depth - 1), GenWant(tB, depth - 1), GenWant(tB, depth - 1)});
        case 7: {
            size_t n = 1 + rng.below(4);
            std::vector<Node> subs;
            subs.push_back(GenWant(tB | pd | pu, depth - 1));
            for (size_t i = 1; i < n; ++i) subs.push_back(GenWant(tW | pd | pu, depth - 1));
            uint32_t k = 1 + static_cast<uint32_t>(rng.below(n));
            return Mk(F::THRESH, std::move(subs), {}, k);
        }
        case 8: return Mk(F::WRAP_C, {GenWant(tK, depth - 1)});
        case 9: return Mk(F::WRAP_D, {GenWant(tV | pz, depth - 1)});
        case 10: return Mk(F::WRAP_J, {GenWant(tB | pn, depth - 1)});
        case 11: return Mk(F::WRAP_N, {GenWant(tB, depth - 1)});
        case 12: return Mk(F::AND_V, {GenWant(tV, depth - 1), Mk(F::JUST_1)});                  // t:
        case 13: return Mk(F::OR_I, {Mk(F::JUST_0), GenWant(tB, depth - 1)});                   // l:
        case 14: return Mk(F::OR_I, {GenWant(tB, depth - 1), Mk(F::JUST_0)});                   // u:
        default: return Mk(F::ANDOR, {GenWant(tB | pd | pu, depth - 1), GenWant(tB, depth - 1), Mk(F::JUST_0)}); // and_n
        }
    }
    Node GenV(int depth)
    {
        if (depth <= 0) return Mk(F::WRAP_V, {LeafB()});
        switch (rng.weighted({55, 15, 10, 10, 10})) {
        case 0: return Mk(F::WRAP_V, {GenWant(tB, depth - 1)});
        case 1: return Mk(F::AND_V, {GenWant(tV, depth - 1), GenWant(tV, depth - 1)});
        case 2: return Mk(F::OR_C, {GenWant(tB | pd | pu, depth - 1), GenWant(tV, depth - 1)});
        case 3: return Mk(F::OR_I, {GenWant(tV, depth - 1), GenWant(tV, depth - 1)});
        default: return Mk(F::ANDOR, {GenWant(tB | pd | pu, depth - 1), GenWant(tV, depth - 1), GenWant(tV, depth - 1)});
        }
    }
    Node GenK(int depth)
    {
        if (depth <= 0) return KeyLeafK();
        switch (rng.weighted({64, 12, 12, 12})) {
        case 0: return KeyLeafK();
        case 1: return Mk(F::AND_V, {GenWant(tV, depth - 1), GenWant(tK, depth - 1)});
        case 2: return Mk(F::OR_I, {GenWant(tK, depth - 1), GenWant(tK, depth - 1)});
        default: return Mk(F::ANDOR, {GenWant(tB | pd | pu, depth - 1), GenWant(tK, depth - 1), GenWant(tK, depth - 1)});
        }
    }
    Node GenW(int depth)
    {
        if (rng.chance(2, 3)) return Mk(F::WRAP_A, {GenWant(tB, depth)});
        return Mk(F::WRAP_S, {GenWant(tB | po, depth)});
    }

    // A top-level expression: type B, and (when `sane`) with the properties s, m, k the descriptor parser insists on.
    Node Top(int depth, bool sane)
    {
        for (int attempt = 0; attempt < 40; ++attempt) {
            Node n = attempt < 30 ? GenB(depth) : Mk(F::AND_V, {Mk(F::WRAP_V, {SigLeafB()}), GenB(depth > 1 ? depth - 1 : 0)});
            if (!has(n.type, tB)) continue;
            if (sane && !has(n.type, ps | pm | pk)) continue;
            return n;
        }
        return SigLeafB();
    }
};

} // namespace msgen
