// E2 class `rbf` (DESIGN §4 C26): replacement candidates against a populated mempool, judged by an oracle that is recomputed
// from the PRE-STATE snapshot only (own conflict / descendant / cluster / fee / feerate-diagram code; no policy code of the
// repository is called by the oracle).
//
// One case = one history: regtest node with a mempool (cluster count limit 4..8 so that every cluster can be chunked optimally
// by brute force), base chain, then steps: pool fill (valid / chained / TRUC parent+child), prioritisations, and candidates:
//   simple     conflict with one pool entry, fee at threshold + {0,-1,+1,-500,+5000,+50000} (TxGen::MakeConflict)
//   multi      conflicts with 2..4 pool entries (same or different clusters), fee around the own threshold
//   spends     conflicts with an entry and spends an output of that entry or of one of its descendants
//   diagram    pays the absolute fee rules but is much larger than what it evicts (lower feerate)
//   prio       as simple, after PrioritiseTransaction on the victim / a descendant / the candidate's own txid
//   sibling    TRUC child of a parent that already has a child (sibling eviction), fee around the threshold
//   pkg        1-parent-1-child package whose parent conflicts and underpays, child pays (or not quite)
//   pkg3       2 parents + child where one parent conflicts and underpays (package RBF refused by shape)
//   many       conflicts with 100 / 101 single-transaction clusters
// One third of the single candidates are test-accepted first; both verdicts are judged.
//
// Oracle (statement of C26), with D = entries of the pre-state spending an input of the candidate (+ the TRUC sibling when the own
// sibling-eviction predicate holds), E = descendant closure of D:
//   replacement happened (REPLACED removal events, or VALID result of a candidate with D != {})  =>
//       REPLACED events == result's replaced list == E (as sets); all of E gone; every other pre-state entry still there unless
//       removed with its own (non-REPLACED) reason; modfee_new >= sum modfee(E) + ceil(incremental * vsize_new / 1000);
//       no mempool ancestor of the candidate in E; D touches <= 100 clusters (own union-find); the optimal feerate diagram (brute
//       force chunking, sizes = sigop-adjusted weights) of the affected clusters after is nowhere below and somewhere above before.
//   rejected with an RBF reason  =>  the corresponding recomputed condition is false.
// Package submissions are split into evaluation steps from the event stream; each step is judged against the model state
// obtained by applying the earlier steps to the pre-state.
#include <common/vh.h>
#include <sim_chain.h>
#include <sim_mempool.h>

#include <consensus/merkle.h>
#include <node/miner.h>
#include <sync.h>
#include <txmempool.h>
#include <validation.h>

#include <algorithm>
#include <functional>
#include <map>
#include <optional>
#include <set>
#include <string>
#include <vector>

namespace {
using namespace sim;

using I128 = __int128;

// ---------------------------------------------------------------------------------------------------------
// Own model of the pool (built from a PoolSnap; links recomputed from the transactions' inputs).
struct MEntry {
    CTransactionRef tx;
    CAmount fee{0}, modfee{0};
    int64_t vsize{0};
    int64_t aweight{0}; //!< max(weight, 20 * sigop cost)
};
struct Model {
    std::map<Txid, MEntry> e;
    std::map<COutPoint, Txid> spender;
    std::map<Txid, CAmount> deltas;

    static Model From(const PoolSnap& s)
    {
        Model m;
        for (const auto& [t, pe] : s.entries) {
            MEntry x;
            x.tx = pe.tx;
            x.fee = pe.fee;
            x.modfee = pe.modfee;
            x.vsize = pe.vsize;
            x.aweight = std::max<int64_t>(pe.weight, pe.sigops * 20);
            m.e.emplace(t, std::move(x));
            for (const auto& in : pe.tx->vin) m.spender[in.prevout] = t;
        }
        m.deltas = s.deltas;
        return m;
    }
    void Remove(const Txid& t)
    {
        auto it = e.find(t);
        if (it == e.end()) return;
        for (const auto& in : it->second.tx->vin) {
            auto s = spender.find(in.prevout);
            if (s != spender.end() && s->second == t) spender.erase(s);
        }
        e.erase(it);
    }
    void Add(const MEntry& x)
    {
        const Txid t = x.tx->GetHash();
        e[t] = x;
        for (const auto& in : x.tx->vin) spender[in.prevout] = t;
    }
    std::set<Txid> Children(const Txid& t) const
    {
        std::set<Txid> r;
        for (auto it = spender.lower_bound(COutPoint(t, 0)); it != spender.end() && it->first.hash == t; ++it) r.insert(it->second);
        return r;
    }
    std::set<Txid> Parents(const CTransaction& tx) const
    {
        std::set<Txid> r;
        for (const auto& in : tx.vin) {
            if (e.count(in.prevout.hash)) r.insert(in.prevout.hash);
        }
        return r;
    }
    std::set<Txid> DescClosure(const std::set<Txid>& roots) const
    {
        std::set<Txid> r;
        std::vector<Txid> st(roots.begin(), roots.end());
        while (!st.empty()) {
            Txid t = st.back();
            st.pop_back();
            if (!e.count(t) || !r.insert(t).second) continue;
            for (const auto& c : Children(t)) st.push_back(c);
        }
        return r;
    }
    //! strict ancestors in the pool of a (possibly not-in-pool) transaction
    std::set<Txid> Ancestors(const CTransaction& tx) const
    {
        std::set<Txid> r;
        std::vector<Txid> st;
        for (const auto& p : Parents(tx)) st.push_back(p);
        while (!st.empty()) {
            Txid t = st.back();
            st.pop_back();
            if (!r.insert(t).second) continue;
            for (const auto& p : Parents(*e.at(t).tx)) st.push_back(p);
        }
        return r;
    }
    //! cluster representative per entry (own union-find over parent links)
    std::map<Txid, Txid> Clusters() const
    {
        std::map<Txid, Txid> uf;
        for (const auto& [t, x] : e) uf[t] = t;
        std::function<Txid(const Txid&)> find = [&](const Txid& x) -> Txid {
            Txid r = x;
            while (uf.at(r) != r) r = uf.at(r);
            Txid c = x;
            while (uf.at(c) != r) {
                Txid n = uf.at(c);
                uf[c] = r;
                c = n;
            }
            return r;
        };
        for (const auto& [t, x] : e) {
            for (const auto& p : Parents(*x.tx)) {
                const Txid a = find(t), b = find(p);
                if (a != b) uf[a] = b;
            }
        }
        std::map<Txid, Txid> out;
        for (const auto& [t, x] : e) out[t] = find(t);
        return out;
    }
};

// ---------------------------------------------------------------------------------------------------------
// Feerate diagrams: own brute-force optimal chunking + own exact comparator.
struct Chunk {
    CAmount fee{0};
    int64_t size{0};
};
bool RateGreater(const Chunk& a, const Chunk& b) { return (I128)a.fee * b.size > (I128)b.fee * a.size; }

//! optimal chunking of one connected component given as (txid -> entry) with parent links inside the component. n <= 12.
bool BruteChunks(const std::vector<const MEntry*>& txs, std::vector<Chunk>& out)
{
    const size_t n = txs.size();
    if (n == 0) return true;
    if (n > 12) return false;
    std::map<Txid, size_t> idx;
    for (size_t i = 0; i < n; ++i) idx[txs[i]->tx->GetHash()] = i;
    std::vector<uint32_t> par(n, 0);
    for (size_t i = 0; i < n; ++i) {
        for (const auto& in : txs[i]->tx->vin) {
            auto it = idx.find(in.prevout.hash);
            if (it != idx.end()) par[i] |= 1u << it->second;
        }
    }
    uint32_t remaining = (n == 32 ? 0xffffffffu : ((1u << n) - 1));
    while (remaining) {
        bool have = false;
        Chunk best;
        uint32_t best_mask = 0;
        // enumerate non-empty submasks of remaining
        for (uint32_t m = remaining; m; m = (m - 1) & remaining) {
            bool closed = true;
            Chunk c;
            for (size_t i = 0; i < n && closed; ++i) {
                if (!(m >> i & 1)) continue;
                if ((par[i] & remaining) & ~m) closed = false;
                c.fee += txs[i]->modfee;
                c.size += txs[i]->aweight;
            }
            if (!closed) continue;
            if (!have || RateGreater(c, best) || (!RateGreater(best, c) && c.size > best.size)) {
                have = true;
                best = c;
                best_mask = m;
            }
        }
        if (!have) return false;
        out.push_back(best);
        remaining &= ~best_mask;
    }
    return true;
}

//! optimal chunks of an arbitrary set of entries (split into connected components first). false when a component is too large.
bool OptimalChunks(const std::map<Txid, MEntry>& set, std::vector<Chunk>& out, size_t* max_comp = nullptr)
{
    std::map<Txid, Txid> uf;
    for (const auto& [t, x] : set) uf[t] = t;
    std::function<Txid(const Txid&)> find = [&](const Txid& x) -> Txid {
        Txid r = x;
        while (uf.at(r) != r) r = uf.at(r);
        return r;
    };
    for (const auto& [t, x] : set) {
        for (const auto& in : x.tx->vin) {
            if (!set.count(in.prevout.hash)) continue;
            const Txid a = find(t), b = find(in.prevout.hash);
            if (a != b) uf[a] = b;
        }
    }
    std::map<Txid, std::vector<const MEntry*>> comps;
    for (const auto& [t, x] : set) comps[find(t)].push_back(&x);
    for (const auto& [r, v] : comps) {
        if (max_comp) *max_comp = std::max(*max_comp, v.size());
        if (!BruteChunks(v, out)) return false;
    }
    return true;
}

struct Pt {
    I128 x{0}, y{0};
};
//! cumulative points of chunks sorted by decreasing feerate (starting at (0,0))
std::vector<Pt> DiagramOf(std::vector<Chunk> chunks)
{
    std::stable_sort(chunks.begin(), chunks.end(), [](const Chunk& a, const Chunk& b) { return RateGreater(a, b); });
    std::vector<Pt> p{Pt{}};
    for (const auto& c : chunks) p.push_back(Pt{p.back().x + c.size, p.back().y + c.fee});
    return p;
}
//! value of the piecewise-linear function through pts (flat after the last point) at x, as num/den
void EvalAt(const std::vector<Pt>& p, I128 x, I128& num, I128& den)
{
    if (x >= p.back().x) {
        num = p.back().y;
        den = 1;
        return;
    }
    size_t i = 1;
    while (p[i].x < x) ++i;
    // between p[i-1] and p[i], p[i].x >= x > ... (x >= p[i-1].x)
    const I128 dx = p[i].x - p[i - 1].x, dy = p[i].y - p[i - 1].y;
    num = p[i - 1].y * dx + dy * (x - p[i - 1].x);
    den = dx;
}
struct DiagCmp {
    bool after_below_somewhere{false};
    bool after_above_somewhere{false};
    bool StrictlyBetter() const { return !after_below_somewhere && after_above_somewhere; }
    bool NowhereBelow() const { return !after_below_somewhere; }
};
DiagCmp CompareDiagrams(const std::vector<Pt>& before, const std::vector<Pt>& after)
{
    DiagCmp r;
    std::set<I128> xs;
    for (const auto& p : before) xs.insert(p.x);
    for (const auto& p : after) xs.insert(p.x);
    for (const I128 x : xs) {
        I128 bn, bd, an, ad;
        EvalAt(before, x, bn, bd);
        EvalAt(after, x, an, ad);
        const I128 l = an * bd, rr = bn * ad;
        if (l < rr) r.after_below_somewhere = true;
        if (l > rr) r.after_above_somewhere = true;
    }
    return r;
}
std::string ChunksJson(const std::vector<Chunk>& c)
{
    std::string s = "[";
    for (size_t i = 0; i < c.size(); ++i) s += (i ? "," : "") + std::string("[") + std::to_string(c[i].fee) + "," + std::to_string(c[i].size) + "]";
    return s + "]";
}

// ---------------------------------------------------------------------------------------------------------
// Reference verdict of one evaluation step.
struct Ref {
    bool resolvable{true};            //!< every input of every candidate is a model UTXO coin, a pool output or an earlier candidate's output
    std::vector<MEntry> cand;         //!< own entries of the candidate transactions
    std::set<Txid> direct_inputs;     //!< entries spending an input of a candidate
    std::optional<Txid> sibling;      //!< TRUC sibling (own predicate), single mode only
    std::set<Txid> direct;            //!< direct_inputs + sibling
    std::set<Txid> evicted;           //!< descendant closure
    CAmount fee_old{0}, modfee_new{0};
    int64_t vsize_new{0};
    CAmount relay_fee{0};
    bool pays{false};
    bool anc_conflict{false};
    bool has_pool_parent{false};
    size_t nclusters{0};
    bool diag_known{false}, diag_better{false}, diag_nowhere_below{false};
    std::vector<Chunk> chunks_old, chunks_new;
    size_t max_comp{0};
};

struct Judge {
    SimNode& node;
    RefLedger& led;
    CAmount incremental_per_k;

    //! own entry of a transaction that is not in the pool: fee from the spent coins, own weight/sigops/vsize, delta from mapDeltas
    bool OwnEntry(const CTransactionRef& tx, const Model& m, const RefUtxo& utxo, const std::vector<MEntry>& earlier, MEntry& out) const
    {
        std::vector<RefCoin> coins;
        I128 in = 0, outv = 0;
        for (const auto& txin : tx->vin) {
            RefCoin c;
            bool found = false;
            auto pe = m.e.find(txin.prevout.hash);
            if (pe != m.e.end()) {
                if (txin.prevout.n >= pe->second.tx->vout.size()) return false;
                c.value = pe->second.tx->vout[txin.prevout.n].nValue;
                c.spk = pe->second.tx->vout[txin.prevout.n].scriptPubKey;
                found = true;
            }
            if (!found) {
                for (const auto& ee : earlier) {
                    if (ee.tx->GetHash() == txin.prevout.hash && txin.prevout.n < ee.tx->vout.size()) {
                        c.value = ee.tx->vout[txin.prevout.n].nValue;
                        c.spk = ee.tx->vout[txin.prevout.n].scriptPubKey;
                        found = true;
                    }
                }
            }
            if (!found) {
                auto u = utxo.find(txin.prevout);
                if (u == utxo.end()) return false;
                c = u->second;
            }
            in += c.value;
            coins.push_back(c);
        }
        for (const auto& o : tx->vout) outv += o.nValue;
        std::vector<const RefCoin*> cp;
        for (const auto& c : coins) cp.push_back(&c);
        const int64_t w = RefLedger::TxWeight(*tx), so = RefLedger::SigOpCost(*tx, cp);
        out.tx = tx;
        out.fee = (CAmount)(in - outv);
        auto d = m.deltas.find(tx->GetHash());
        out.modfee = out.fee + (d == m.deltas.end() ? 0 : d->second);
        out.aweight = std::max<int64_t>(w, so * 20);
        out.vsize = OwnVsize(w, so);
        return true;
    }

    //! own sibling-eviction predicate (single transaction evaluation only)
    std::optional<Txid> Sibling(const CTransaction& tx, const Model& m, const std::set<Txid>& direct_inputs) const
    {
        if (tx.version != 3) return std::nullopt;
        const std::set<Txid> parents = m.Parents(tx);
        if (parents.size() != 1) return std::nullopt;
        const Txid p = *parents.begin();
        if (!m.Parents(*m.e.at(p).tx).empty()) return std::nullopt; // parent has its own unconfirmed ancestors: plain TRUC violation
        std::set<Txid> desc = m.DescClosure({p});
        desc.erase(p);
        if (desc.empty()) return std::nullopt;
        for (const auto& d : desc) {
            if (direct_inputs.count(d)) return std::nullopt; // the existing child is replaced through an input conflict anyway
        }
        if (desc.size() != 1) return std::nullopt;
        const Txid s = *desc.begin();
        if (m.Ancestors(*m.e.at(s).tx).size() != 1) return std::nullopt;
        return s;
    }

    Ref Evaluate(const std::vector<CTransactionRef>& cands, const Model& m, const RefUtxo& utxo, bool single_mode) const
    {
        Ref r;
        for (const auto& tx : cands) {
            MEntry e;
            if (!OwnEntry(tx, m, utxo, r.cand, e)) {
                r.resolvable = false;
                return r;
            }
            r.cand.push_back(e);
        }
        std::set<Txid> cand_ids;
        for (const auto& c : r.cand) cand_ids.insert(c.tx->GetHash());
        for (const auto& c : r.cand) {
            for (const auto& in : c.tx->vin) {
                auto s = m.spender.find(in.prevout);
                if (s != m.spender.end()) r.direct_inputs.insert(s->second);
            }
            if (!m.Parents(*c.tx).empty()) r.has_pool_parent = true;
            r.modfee_new += c.modfee;
            r.vsize_new += c.vsize;
        }
        r.direct = r.direct_inputs;
        if (single_mode && cands.size() == 1) {
            r.sibling = Sibling(*cands[0], m, r.direct_inputs);
            if (r.sibling) r.direct.insert(*r.sibling);
        }
        r.evicted = m.DescClosure(r.direct);
        for (const auto& t : r.evicted) r.fee_old += m.e.at(t).modfee;
        r.relay_fee = OwnFeeAt(incremental_per_k, r.vsize_new);
        r.pays = r.modfee_new >= r.fee_old + r.relay_fee;
        for (const auto& c : r.cand) {
            for (const auto& a : m.Ancestors(*c.tx)) {
                if (r.evicted.count(a)) r.anc_conflict = true;
            }
        }
        const std::map<Txid, Txid> cl = m.Clusters();
        std::set<Txid> reps;
        for (const auto& d : r.direct) reps.insert(cl.at(d));
        r.nclusters = reps.size();
        if (r.direct.empty() || r.anc_conflict) return r;
        // affected clusters: those of evicted entries and of the candidates' pool parents
        std::set<Txid> affected = reps;
        for (const auto& t : r.evicted) affected.insert(cl.at(t));
        for (const auto& c : r.cand) {
            for (const auto& p : m.Parents(*c.tx)) affected.insert(cl.at(p));
        }
        std::map<Txid, MEntry> before, after;
        for (const auto& [t, rep] : cl) {
            if (!affected.count(rep)) continue;
            before.emplace(t, m.e.at(t));
            if (!r.evicted.count(t)) after.emplace(t, m.e.at(t));
        }
        for (const auto& c : r.cand) after.emplace(c.tx->GetHash(), c);
        if (!OptimalChunks(before, r.chunks_old, &r.max_comp) || !OptimalChunks(after, r.chunks_new, &r.max_comp)) return r;
        r.diag_known = true;
        const DiagCmp c = CompareDiagrams(DiagramOf(r.chunks_old), DiagramOf(r.chunks_new));
        r.diag_better = c.StrictlyBetter();
        r.diag_nowhere_below = c.NowhereBelow();
        return r;
    }
};

std::string TxidSetStr(const std::set<Txid>& s)
{
    std::string r;
    for (const auto& t : s) r += (r.empty() ? "" : ",") + t.ToString().substr(0, 12);
    return r;
}

// ---------------------------------------------------------------------------------------------------------
struct Hist {
    const vh::Args& args;
    uint64_t case_no;
    vh::Rng& rng;
    NodeOpts nopts;
    MpOpts mopts;
    SimNode& node;
    RefLedger& led;
    KeyRing& keys;
    BlockBuilder bb;
    MpSim mp;
    Judge judge;
    int64_t clock;
    int step{0};
    uint64_t nviol{0};
    uint64_t ncand{0};
    bool mon_testaccept{false};
    std::map<std::string, int64_t> st;

    Hist(const vh::Args& a, uint64_t c, vh::Rng& r, const NodeOpts& no, const MpOpts& mo, SimNode& n, RefLedger& l, KeyRing& kr)
        : args(a), case_no(c), rng(r), nopts(no), mopts(mo), node(n), led(l), keys(kr), bb(l, kr), mp(n, l, kr, r), judge{n, l, 100}, clock(no.start_time)
    {
        judge.incremental_per_k = node.Mempool()->m_opts.incremental_relay_feerate.GetFeePerK();
        mon_testaccept = args.gets("mon", "rbf") == "testaccept";
    }

    void Obs(const std::string& name, int64_t n = 1)
    {
        st[name] += n;
        vh::log().obs(name, n);
    }
    void Viol(const char* key, const std::string& msg, const vh::J& details)
    {
        // mon=testaccept (used by C28): only the test-accept/submit comparison is judged, RBF rule judgements belong to C26
        if (mon_testaccept && std::string_view{key}.substr(0, 11) != "testaccept-") return;
        ++nviol;
        if (nviol > 8) return;
        vh::log().violation(key, msg, vh::J().i("step", step).raw("d", details.done()).raw("mp_opts", mopts.Describe()));
    }
    RefBlock* Tip() { return led.Find(node.TipHash()); }
    void SyncClock()
    {
        if (node.Time() < clock + 10) node.SetTime(clock + 10);
    }
    RefBlock* DeliverNew(const std::shared_ptr<CBlock>& blk, const std::string& tag)
    {
        BlockMeta m;
        m.tag = tag;
        RefBlock* rb = led.Add(blk, m);
        if (!rb) throw std::runtime_error("rbf: block with unknown parent");
        SyncClock();
        DeliverResult d = Deliver(node, led, rb, DeliverOpts{});
        for (const auto& v : d.violations) Viol(v.key.c_str(), v.msg, vh::J().raw("d", v.details.empty() ? "{}" : v.details));
        if (!rb->SelfValid() || node.TipHash() != rb->hash) throw std::runtime_error("rbf: generator block refused: " + tag);
        return rb;
    }
    void MineBase(int n)
    {
        for (int i = 0; i < n; ++i) {
            RefBlock* tip = Tip();
            BlockSpec spec = mp.gen.BaseBlockSpec(tip, (uint32_t)std::max<int64_t>(tip->mtp + 1, clock));
            clock += 30 + (int64_t)rng.below(60);
            DeliverNew(bb.Build(tip, {}, spec), "base");
        }
        mp.Absorb();
        AbsorbEvents(node, led, nullptr);
    }
    //! mine the given transactions (already valid on the tip) into a block
    void MineTxs(const std::vector<CTransactionRef>& txs, const std::string& tag)
    {
        RefBlock* tip = Tip();
        BlockSpec spec = mp.gen.BaseBlockSpec(tip, (uint32_t)std::max<int64_t>(tip->mtp + 1, clock));
        clock += 30 + (int64_t)rng.below(60);
        DeliverNew(bb.Build(tip, txs, spec), tag);
        mp.Absorb();
        AbsorbEvents(node, led, nullptr);
    }
    void MineTemplate()
    {
        SyncClock();
        TemplateOpts o;
        o.cb_script = mp.gen.RandSpk();
        std::string err;
        auto t = MakeTemplate(node, o, &err);
        if (!t) return;
        auto blk = std::make_shared<CBlock>(t->block);
        blk->hashMerkleRoot = BlockMerkleRoot(*blk);
        BlockBuilder::Solve(*blk);
        if ((int64_t)blk->nTime > clock) clock = blk->nTime;
        clock += 1 + (int64_t)rng.below(90);
        DeliverNew(blk, "template");
        mp.Absorb();
        AbsorbEvents(node, led, nullptr);
        Obs("template_blocks");
    }

    const RefUtxo& Utxo() { return led.Utxo(Tip()); }

    std::vector<std::pair<int64_t, int64_t>> NodeDiagram()
    {
        std::vector<std::pair<int64_t, int64_t>> r;
        LOCK(::cs_main);
        CTxMemPool& pool = *node.Mempool();
        LOCK(pool.cs);
        for (const auto& p : pool.GetFeerateDiagram()) r.emplace_back((int64_t)p.size, (int64_t)p.fee);
        return r;
    }
    static std::vector<Pt> ToPts(const std::vector<std::pair<int64_t, int64_t>>& d)
    {
        std::vector<Pt> p;
        for (const auto& [s, f] : d) p.push_back(Pt{s, f});
        if (p.empty()) p.push_back(Pt{});
        return p;
    }

    // ------------------------------------------------------------------ judging
    struct StepEvents {
        std::vector<CTransactionRef> added;
        std::set<Txid> replaced;
    };

    std::string RefJson(const Ref& r, const std::string& kind, const std::string& verdict)
    {
        vh::J j;
        j.str("t", "cand").u("case", case_no).i("step", step).str("kind", kind).str("verdict", verdict).u("ncand", r.cand.size()).u("direct", r.direct.size()).u("evicted", r.evicted.size())
            .b("sibling", r.sibling.has_value()).u("nclusters", r.nclusters).i("fee_old", r.fee_old).i("modfee_new", r.modfee_new).i("vsize_new", r.vsize_new).i("incr_per_k", judge.incremental_per_k)
            .b("pays", r.pays).b("anc_conflict", r.anc_conflict).b("diag_known", r.diag_known).b("diag_better", r.diag_better).u("max_comp", r.max_comp);
        if (r.diag_known) j.raw("old", ChunksJson(r.chunks_old)).raw("new", ChunksJson(r.chunks_new));
        return j.done();
    }

    //! accept direction for one evaluation step
    void JudgeAccepted(const Ref& r, const std::set<Txid>& replaced_events, const std::optional<std::set<Txid>>& replaced_result, const std::string& kind, bool test_accept)
    {
        const vh::J base = vh::J().str("kind", kind).b("test_accept", test_accept).str("evicted_ref", TxidSetStr(r.evicted)).raw("ref", RefJson(r, kind, "accepted"));
        if (!test_accept && replaced_events != r.evicted) {
            Viol("rbf-evicted-set-mismatch", "the set of transactions removed as REPLACED differs from direct conflicts + descendants recomputed from the pre-state",
                 vh::J().str("kind", kind).str("replaced_events", TxidSetStr(replaced_events)).str("evicted_ref", TxidSetStr(r.evicted)).raw("ref", RefJson(r, kind, "accepted")));
        }
        if (replaced_result && *replaced_result != r.evicted) {
            Viol("rbf-replaced-list-mismatch", "the result's replaced-transactions list differs from direct conflicts + descendants recomputed from the pre-state",
                 vh::J().str("kind", kind).b("test_accept", test_accept).str("replaced_result", TxidSetStr(*replaced_result)).str("evicted_ref", TxidSetStr(r.evicted)).raw("ref", RefJson(r, kind, "accepted")));
        }
        if (!r.pays) Viol("rbf-underpaid", "a replacement was accepted although its modified fee is below the evicted modified fees plus the incremental relay fee for its own size", base);
        if (r.anc_conflict) Viol("rbf-spends-evicted", "a replacement was accepted although it has a mempool ancestor among the transactions it evicts", base);
        if (r.nclusters > 100) Viol("rbf-too-many-clusters", "a replacement was accepted although its direct conflicts touch more than 100 clusters", base);
        if (r.diag_known) {
            Obs("bruteforce_diagrams");
            if (!r.diag_better) Viol("rbf-diagram-not-improved", "a replacement was accepted although the optimal feerate diagram of the affected clusters is not strictly improved", base);
        } else if (!r.anc_conflict) {
            Obs("diagram_not_bruteforced");
        }
        Obs(test_accept ? "judged_testaccept_accepted" : "judged_accepted");
        if (r.sibling) Obs("sibling_eviction_accepted");
        if (r.cand.size() == 2) Obs("pkg_rbf_accepted");
        if (r.modfee_new == r.fee_old + r.relay_fee) Obs("accepted_at_exact_threshold");
        bool prio = false;
        for (const auto& t : r.evicted) prio = prio || judge_model_deltas.count(t);
        for (const auto& c : r.cand) prio = prio || judge_model_deltas.count(c.tx->GetHash());
        if (prio) Obs("accepted_with_prioritised");
    }
    std::map<Txid, CAmount> judge_model_deltas; //!< deltas of the pre-state of the current submission (for counters)

    //! reject direction for a single-transaction verdict
    void JudgeRejectedSingle(const Ref& r, const TxResult& res, const std::string& kind, bool test_accept)
    {
        const std::string& why = res.reason;
        const vh::J base = vh::J().str("kind", kind).b("test_accept", test_accept).str("result", res.Str()).str("debug", res.debug).raw("ref", RefJson(r, kind, why));
        const bool says_sibling = why.find("(including sibling eviction)") != std::string::npos;
        if (why.rfind("insufficient fee", 0) == 0) {
            Obs("rej_insufficient_fee");
            if (r.pays) Viol("rbf-spurious-insufficient-fee", "rejected for insufficient fee although the recomputed fee condition holds", base);
            if (says_sibling != r.sibling.has_value()) Viol("rbf-sibling-mismatch", "the reject reason's sibling-eviction marker disagrees with the own sibling-eviction predicate", base);
            if (r.modfee_new + 1 == r.fee_old + r.relay_fee) Obs("rejected_at_threshold_minus_1");
            if (says_sibling) Obs("sibling_eviction_rejected");
            bool prio = false;
            for (const auto& t : r.evicted) prio = prio || judge_model_deltas.count(t);
            for (const auto& c : r.cand) prio = prio || judge_model_deltas.count(c.tx->GetHash());
            if (prio) Obs("rejected_with_prioritised");
        } else if (why.rfind("too many potential replacements", 0) == 0) {
            Obs("rej_too_many");
            if (r.nclusters <= 100) Viol("rbf-spurious-too-many", "rejected for too many potential replacements although the direct conflicts touch <= 100 clusters", base);
        } else if (why == "replacement-failed") {
            Obs("rej_replacement_failed");
            if (r.diag_known) {
                Obs("bruteforce_diagrams");
                if (r.diag_better) Viol("rbf-spurious-diagram-failure", "rejected as not improving the feerate diagram although the optimal diagram of the affected clusters is strictly improved", base);
            }
        } else if (why == "bad-txns-spends-conflicting-tx") {
            Obs("rej_spends_conflicting");
            if (!r.anc_conflict) Viol("rbf-spurious-spends-conflicting", "rejected for spending a conflicting transaction although no mempool ancestor is evicted", base);
        } else {
            Obs("rej_unrelated");
            return;
        }
        Obs(test_accept ? "judged_testaccept_rejected" : "judged_rejected");
    }

    //! everything else of the pre-state must still be in the pool unless removed with its own reason
    void CheckNothingElseGone(const Model& pre, const std::set<Txid>& evicted_all, const std::vector<MpEvent>& evs, const PoolSnap& post, const std::string& kind)
    {
        std::set<Txid> other_removed;
        for (const auto& e : evs) {
            if ((e.kind == MpEvent::REMOVED && e.reason != MemPoolRemovalReason::REPLACED) || e.kind == MpEvent::BLOCK_REMOVED) other_removed.insert(e.tx->GetHash());
        }
        for (const auto& [t, x] : pre.e) {
            const bool there = post.entries.count(t) > 0;
            if (evicted_all.count(t)) {
                if (there) Viol("rbf-evicted-still-there", "a transaction reported as replaced is still in the mempool", vh::J().str("kind", kind).str("tx", t.ToString()));
            } else if (!there && !other_removed.count(t)) {
                Viol("rbf-unrelated-removed", "a transaction outside the evicted set disappeared from the mempool during a replacement without a removal event of its own",
                     vh::J().str("kind", kind).str("tx", t.ToString()).str("evicted", TxidSetStr(evicted_all)));
            }
        }
    }

    //! split the events of one submission into evaluation steps: [REPLACED removals]* [ADDED]+
    std::vector<StepEvents> Segment(const std::vector<MpEvent>& evs)
    {
        std::vector<StepEvents> steps;
        StepEvents cur;
        for (const auto& e : evs) {
            if (e.kind == MpEvent::REMOVED && e.reason == MemPoolRemovalReason::REPLACED) {
                if (!cur.added.empty()) {
                    steps.push_back(cur);
                    cur = StepEvents{};
                }
                cur.replaced.insert(e.tx->GetHash());
            } else if (e.kind == MpEvent::ADDED && !e.bypassed) {
                cur.added.push_back(e.tx);
            }
        }
        if (!cur.added.empty() || !cur.replaced.empty()) steps.push_back(cur);
        return steps;
    }

    void WholePoolAdvisory(const std::vector<std::pair<int64_t, int64_t>>& d0, const std::vector<std::pair<int64_t, int64_t>>& d1, bool sizelimit, bool neg_in_pool)
    {
        if (sizelimit) return;
        const DiagCmp c = CompareDiagrams(ToPts(d0), ToPts(d1));
        // advisory only (see DESIGN §9): the affected-cluster brute force is binding
        if (c.StrictlyBetter()) Obs("pool_diagram_improved");
        else if (c.after_below_somewhere) Obs(neg_in_pool ? "pool_diagram_below_with_negative_fees" : "pool_diagram_below");
        else Obs("pool_diagram_not_above");
    }

    // ------------------------------------------------------------------ single candidate
    void SubmitSingleCandidate(const CTransactionRef& tx, const std::string& kind)
    {
        SyncClock();
        const PoolSnap pre = SnapPool(node, false, true);
        const Model m = Model::From(pre);
        judge_model_deltas = pre.deltas;
        const Ref r = judge.Evaluate({tx}, m, Utxo(), /*single_mode=*/true);
        ++ncand;
        Obs("candidates");
        Obs("kind_" + kind);
        if (!r.resolvable) Obs("cand_unresolvable");
        const bool has_conf = r.resolvable && !r.direct.empty();
        if (has_conf) Obs("candidates_with_conflicts");
        if (r.sibling) Obs("sibling_candidates");
        std::optional<TxResult> ta;
        if (has_conf && (mon_testaccept || rng.chance(1, 3))) {
            const TxResult t = SubmitTx(node, tx, true);
            const size_t ta_events = mp.Absorb().size();
            ta = t;
            if (mon_testaccept) {
                if (SnapPool(node, false, true).Hash() != pre.Hash()) Viol("testaccept-changed-pool", "the mempool content changed during a test-accept of a conflicting candidate", vh::J().str("kind", kind).str("result", t.Str()));
                if (ta_events != 0) Viol("testaccept-emitted-events", "a test-accept emitted mempool notifications", vh::J().str("kind", kind).u("events", ta_events));
            }
            Obs("tres:" + t.ReasonClass());
            if (t.Valid()) {
                // (a test-accept never fills the replaced list: it is produced when the removals are applied)
                JudgeAccepted(r, {}, std::nullopt, kind, true);
                if (t.vsize && *t.vsize != r.vsize_new) Viol("rbf-ref-vsize-mismatch", "own virtual size differs from the reported one", vh::J().i("own", r.vsize_new).i("node", *t.vsize));
            } else if (t.type == MempoolAcceptResult::ResultType::INVALID) {
                JudgeRejectedSingle(r, t, kind, true);
            }
        }
        const auto d0 = has_conf ? NodeDiagram() : std::vector<std::pair<int64_t, int64_t>>{};
        const TxResult res = SubmitTx(node, tx, false);
        const std::vector<MpEvent> evs = mp.Absorb();
        Obs("res:" + res.ReasonClass());
        if (ta) {
            // faithful: same verdict, reason, vsize and fee as the real submission made right after it (unless the submit hit the size limit)
            Obs("testaccept_conflict_pairs");
            Obs("testaccept_conflict_pairs_" + kind);
            const bool full = res.reason == "mempool full";
            if (!full && (ta->type != res.type || ta->code != res.code || ta->reason != res.reason || (ta->Valid() && res.Valid() && (ta->vsize != res.vsize || ta->fee != res.fee)))) {
                Viol("testaccept-verdict-differs", "test-accept and the submission made right after it disagree", vh::J().str("kind", kind).str("test", ta->Str()).str("submit", res.Str()).str("submit_debug", res.debug));
            }
        }
        if (!r.resolvable) return;
        std::set<Txid> replaced_ev;
        bool sizelimit = false;
        for (const auto& e : evs) {
            if (e.kind == MpEvent::REMOVED && e.reason == MemPoolRemovalReason::REPLACED) replaced_ev.insert(e.tx->GetHash());
            if (e.kind == MpEvent::REMOVED && e.reason == MemPoolRemovalReason::SIZELIMIT) sizelimit = true;
        }
        const bool happened = !replaced_ev.empty() || (res.Valid() && has_conf);
        if (happened) {
            std::optional<std::set<Txid>> rr;
            if (res.Valid()) rr = std::set<Txid>(res.replaced.begin(), res.replaced.end());
            JudgeAccepted(r, replaced_ev, rr, kind, false);
            const PoolSnap post = SnapPool(node, false);
            CheckNothingElseGone(m, r.evicted, evs, post, kind);
            if (res.Valid() && res.vsize && *res.vsize != r.vsize_new) Viol("rbf-ref-vsize-mismatch", "own virtual size differs from the reported one", vh::J().i("own", r.vsize_new).i("node", *res.vsize));
            if (res.Valid() && res.fee && *res.fee != r.cand[0].fee) Viol("rbf-ref-fee-mismatch", "own base fee differs from the reported one", vh::J().i("own", r.cand[0].fee).i("node", *res.fee));
            bool neg = false;
            for (const auto& [t, x] : m.e) neg = neg || x.modfee < 0;
            WholePoolAdvisory(d0, NodeDiagram(), sizelimit, neg);
            vh::log().line(RefJson(r, kind, "accepted"));
        } else if (res.type == MempoolAcceptResult::ResultType::INVALID && has_conf) {
            JudgeRejectedSingle(r, res, kind, false);
            vh::log().line(RefJson(r, kind, res.ReasonClass()));
        } else if (res.Valid() && !has_conf) {
            Obs("accepted_without_conflict");
        }
    }

    // ------------------------------------------------------------------ package candidate
    void SubmitPackageCandidate(const Package& pkg, const std::string& kind)
    {
        SyncClock();
        const PoolSnap pre = SnapPool(node, false, true);
        Model m = Model::From(pre);
        const Model m0 = m;
        judge_model_deltas = pre.deltas;
        const RefUtxo& utxo = Utxo();
        ++ncand;
        Obs("candidates");
        Obs("kind_" + kind);
        // own view of the whole package against the pre-state (for the reject direction)
        std::vector<CTransactionRef> fresh;
        for (const auto& tx : pkg) {
            if (!m.e.count(tx->GetHash())) fresh.push_back(tx);
        }
        const Ref whole = judge.Evaluate(fresh, m, utxo, /*single_mode=*/false);
        if (whole.resolvable && !whole.direct.empty()) Obs("candidates_with_conflicts");
        const PkgResult res = SubmitPackage(node, pkg, false);
        const std::vector<MpEvent> evs = mp.Absorb();
        Obs("pkgres:" + (res.state_valid ? std::string("ok") : res.reason));
        bool sizelimit = false;
        for (const auto& e : evs) sizelimit = sizelimit || (e.kind == MpEvent::REMOVED && e.reason == MemPoolRemovalReason::SIZELIMIT);
        const std::vector<StepEvents> steps = Segment(evs);
        std::set<Txid> evicted_all;
        std::set<Txid> replaced_result_all;
        for (const auto& [w, tr] : res.tx) {
            for (const auto& t : tr.replaced) replaced_result_all.insert(t);
        }
        bool any_event = false;
        for (const auto& sev : steps) {
            any_event = true;
            if (sev.replaced.empty()) {
                // no replacement in this step: every added transaction must be conflict-free in the running model
                for (const auto& tx : sev.added) {
                    const Ref r1 = judge.Evaluate({tx}, m, utxo, true);
                    if (r1.resolvable && !r1.direct_inputs.empty()) {
                        Viol("rbf-conflict-added-without-eviction", "a transaction spending an input of a mempool entry was added without replacing it", vh::J().str("kind", kind).str("tx", tx->GetHash().ToString()));
                    }
                    MEntry e;
                    if (judge.OwnEntry(tx, m, utxo, {}, e)) m.Add(e);
                }
                continue;
            }
            // replacement step: single interpretation (first added tx alone; the others follow without conflicts) or
            // package interpretation (exactly two added txs evaluated together)
            if (sev.added.empty()) {
                Viol("rbf-replaced-without-addition", "transactions were removed as REPLACED but nothing was added", vh::J().str("kind", kind).str("replaced", TxidSetStr(sev.replaced)));
                for (const auto& t : sev.replaced) m.Remove(t);
                continue;
            }
            const Ref rs = judge.Evaluate({sev.added[0]}, m, utxo, true);
            std::optional<Ref> rp;
            if (sev.added.size() == 2) rp = judge.Evaluate({sev.added[0], sev.added[1]}, m, utxo, false);
            auto ok = [&](const Ref& r) { return r.resolvable && r.evicted == sev.replaced && r.pays && !r.anc_conflict && r.nclusters <= 100 && (!r.diag_known || r.diag_better); };
            const Ref* use = &rs;
            if (rp) {
                // prefer the package interpretation when the first transaction's reported effective feerate is the package feerate
                bool pkg_rate = false;
                auto fr = res.tx.find(sev.added[0]->GetWitnessHash());
                if (fr != res.tx.end() && fr->second.eff_feerate_per_k && rp->vsize_new > 0) {
                    const CAmount own_pkg = (CAmount)(((I128)rp->modfee_new * 1000) / rp->vsize_new);
                    const CAmount own_single = rs.resolvable && rs.vsize_new > 0 ? (CAmount)(((I128)rs.modfee_new * 1000) / rs.vsize_new) : -1;
                    pkg_rate = *fr->second.eff_feerate_per_k == own_pkg && own_pkg != own_single;
                }
                if (pkg_rate || !ok(rs)) use = &*rp;
            }
            if (!use->resolvable) {
                Obs("cand_unresolvable");
            } else {
                JudgeAccepted(*use, sev.replaced, std::nullopt, kind, false);
                vh::log().line(RefJson(*use, kind, "accepted"));
            }
            for (const auto& t : sev.replaced) {
                evicted_all.insert(t);
                m.Remove(t);
            }
            for (const auto& tx : sev.added) {
                MEntry e;
                if (judge.OwnEntry(tx, m, utxo, {}, e)) m.Add(e);
            }
        }
        if (!evicted_all.empty() || !replaced_result_all.empty()) {
            if (replaced_result_all != evicted_all) {
                Viol("rbf-replaced-list-mismatch", "the union of the package results' replaced lists differs from the REPLACED removal events",
                     vh::J().str("kind", kind).str("replaced_result", TxidSetStr(replaced_result_all)).str("replaced_events", TxidSetStr(evicted_all)));
            }
            const PoolSnap post = SnapPool(node, false);
            CheckNothingElseGone(m0, evicted_all, evs, post, kind);
        }
        // reject direction: only when the submission changed nothing (every evaluation was made against the pre-state)
        if (!any_event && whole.resolvable && !whole.direct.empty()) {
            const vh::J base = vh::J().str("kind", kind).str("pkg_result", res.Str().substr(0, 400)).str("debug", res.debug).raw("ref", RefJson(whole, kind, res.reason));
            const std::string& why = res.reason;
            if (why.rfind("package RBF failed: ", 0) == 0) {
                const std::string sub = why.substr(20);
                Obs("pkg_rbf_rejected");
                Obs("pkgrej:" + sub);
                if (sub == "package must be 1-parent-1-child") {
                    if (fresh.size() == 2) Viol("rbf-spurious-pkg-shape", "package RBF refused for its shape although exactly two new transactions were evaluated", base);
                } else if (sub == "new transaction cannot have mempool ancestors") {
                    if (!whole.has_pool_parent) Viol("rbf-spurious-pkg-ancestors", "package RBF refused for mempool ancestors although no package transaction has a mempool parent", base);
                } else if (sub == "too many potential replacements") {
                    if (whole.nclusters <= 100) Viol("rbf-spurious-too-many", "rejected for too many potential replacements although the direct conflicts touch <= 100 clusters", base);
                } else if (sub == "insufficient anti-DoS fees") {
                    if (whole.pays) Viol("rbf-spurious-insufficient-fee", "package rejected for insufficient fee although the recomputed fee condition on the package totals holds", base);
                    if (whole.modfee_new + 1 == whole.fee_old + whole.relay_fee) Obs("rejected_at_threshold_minus_1");
                } else if (sub == "insufficient feerate: does not improve feerate diagram") {
                    if (whole.diag_known) {
                        Obs("bruteforce_diagrams");
                        if (whole.diag_better && !whole.has_pool_parent) Viol("rbf-spurious-diagram-failure", "package rejected as not improving the feerate diagram although the optimal diagram of the affected clusters is strictly improved", base);
                    }
                } else {
                    Obs("pkg_rbf_rejected_other");
                }
                Obs("judged_rejected");
                vh::log().line(RefJson(whole, kind, why));
            }
            // the first transaction's own verdict was produced against the pre-state as a single transaction
            auto fr = res.tx.find(pkg.front()->GetWitnessHash());
            if (fr != res.tx.end() && fr->second.type == MempoolAcceptResult::ResultType::INVALID && !m0.e.count(pkg.front()->GetHash())) {
                const Ref r1 = judge.Evaluate({pkg.front()}, m0, utxo, true);
                if (r1.resolvable && !r1.direct.empty()) JudgeRejectedSingle(r1, fr->second, kind + "/parent", false);
            }
        }
    }

    // ------------------------------------------------------------------ generators
    std::optional<Spendable> CoinAt(const COutPoint& op, const PoolSnap& snap)
    {
        const RefUtxo& u = Utxo();
        auto c = u.find(op);
        if (c != u.end()) {
            if (!mp.gen.Signable(c->second.spk)) return std::nullopt;
            Spendable s;
            s.op = op;
            s.out = CTxOut(c->second.value, c->second.spk);
            s.height = c->second.height;
            s.coinbase = c->second.coinbase;
            return s;
        }
        auto pe = snap.entries.find(op.hash);
        if (pe == snap.entries.end() || op.n >= pe->second.tx->vout.size()) return std::nullopt;
        if (!mp.gen.Signable(pe->second.tx->vout[op.n].scriptPubKey)) return std::nullopt;
        return mp.gen.OutputOf(pe->second.tx, op.n, snap.tip_height + 1);
    }
    std::vector<Spendable> RespendableInputs(const Txid& victim, const PoolSnap& snap)
    {
        std::vector<Spendable> r;
        for (const auto& in : snap.entries.at(victim).tx->vin) {
            if (auto s = CoinAt(in.prevout, snap)) r.push_back(*s);
        }
        return r;
    }
    Txid RandomEntry(const PoolSnap& snap)
    {
        auto it = snap.entries.begin();
        std::advance(it, rng.below(snap.entries.size()));
        return it->first;
    }
    int64_t RandDelta()
    {
        static const int64_t d[] = {0, -1, 1, -500, 5000, 50000};
        static const std::vector<uint32_t> w = {28, 28, 10, 8, 16, 10};
        return d[rng.weighted(w)];
    }
    //! candidate spending `ins` with `nout` outputs whose fee is own-threshold + delta (threshold from the snapshot's next_tx / modfee)
    CTransactionRef AtThreshold(const std::vector<Spendable>& ins, size_t nout, int32_t version, int64_t delta, const PoolSnap& snap)
    {
        const Model m = Model::From(snap);
        std::set<Txid> direct;
        for (const auto& s : ins) {
            auto sp = m.spender.find(s.op);
            if (sp != m.spender.end()) direct.insert(sp->second);
        }
        CAmount old = 0;
        for (const auto& t : m.DescClosure(direct)) old += m.e.at(t).modfee;
        CAmount f0 = 0;
        CTransactionRef probe = mp.gen.Build(ins, nout, FeeMode::ABS, old + 1000, version, 0, {}, {}, &f0, &snap);
        if (!probe) return nullptr;
        MEntry pe;
        if (!judge.OwnEntry(probe, m, Utxo(), {}, pe)) return nullptr;
        const CAmount thr = old + OwnFeeAt(judge.incremental_per_k, pe.vsize);
        return mp.gen.Build(ins, nout, FeeMode::ABS, std::max<CAmount>(0, thr + delta), version, 0, {}, {}, &f0, &snap);
    }

    void Fill()
    {
        const PoolSnap snap = SnapPool(node, false, true);
        static const std::vector<uint32_t> w = {40, 30, 0, 12, 14}; // VALID CHAIN CONFLICT TRUC_PARENT TRUC_CHILD
        const GenTx g = mp.gen.MakeRandom(w, snap);
        if (!g.tx) return;
        SyncClock();
        const TxResult r = SubmitTx(node, g.tx, false);
        mp.Absorb();
        Obs(r.Valid() ? "fill_accepted" : "fill_rejected");
    }

    void CandSimple(bool prio)
    {
        PoolSnap snap = SnapPool(node, false, true);
        if (snap.entries.empty()) return;
        const Txid victim = RandomEntry(snap);
        if (prio && rng.coin()) {
            // prioritise the victim or one of its descendants before the candidate is built
            const Model m = Model::From(snap);
            const std::set<Txid> desc = m.DescClosure({victim});
            auto it = desc.begin();
            std::advance(it, rng.below(desc.size()));
            static const int64_t ds[] = {1, -1, 777, -777, 100000, -100000};
            Prioritise(node, *it, ds[rng.below(6)]);
            Obs("prioritise_calls");
            snap = SnapPool(node, false, true);
        }
        GenTx g = mp.gen.MakeConflict(victim, snap, RandDelta());
        if (!g.tx || g.kind != TxKind::CONFLICT) {
            Obs("gen_fallback");
            return;
        }
        if (prio) {
            // prioritise the candidate itself: the threshold was met with the base fee, the delta moves the modified fee across it
            static const int64_t ds[] = {1, -1, 2, -2, 5000, -5000};
            Prioritise(node, g.tx->GetHash(), ds[rng.below(6)]);
            Obs("prioritise_calls");
        }
        SubmitSingleCandidate(g.tx, prio ? "prio" : "simple");
    }

    void CandMulti()
    {
        const PoolSnap snap = SnapPool(node, false, true);
        if (snap.entries.size() < 3) return;
        const size_t k = 2 + rng.below(3);
        std::vector<Spendable> ins;
        std::set<COutPoint> used;
        std::set<Txid> victims;
        const Model m = Model::From(snap);
        for (size_t tries = 0; tries < 12 && victims.size() < k; ++tries) {
            const Txid v = RandomEntry(snap);
            if (victims.count(v)) continue;
            // skip victims related to an already chosen one (that would make the candidate spend an evicted output or double count)
            bool related = false;
            for (const auto& o : victims) related = related || m.DescClosure({o}).count(v) || m.DescClosure({v}).count(o);
            if (related && rng.chance(3, 4)) continue;
            std::vector<Spendable> c = RespendableInputs(v, snap);
            if (c.empty()) continue;
            const Spendable s = c[rng.below(c.size())];
            // an input that is itself an output of a chosen victim (or of its descendants) is left to the `spends` kind
            bool bad = false;
            for (const auto& o : victims) bad = bad || m.DescClosure({o}).count(s.op.hash);
            if (bad || !used.insert(s.op).second) continue;
            ins.push_back(s);
            victims.insert(v);
        }
        if (ins.size() < 2) return;
        CTransactionRef tx = AtThreshold(ins, 1 + rng.below(2), 2, RandDelta(), snap);
        if (!tx) return;
        SubmitSingleCandidate(tx, "multi");
    }

    void CandSpends()
    {
        const PoolSnap snap = SnapPool(node, false, true);
        if (snap.entries.empty()) return;
        const Model m = Model::From(snap);
        for (int tries = 0; tries < 10; ++tries) {
            const Txid v = RandomEntry(snap);
            std::vector<Spendable> c = RespendableInputs(v, snap);
            if (c.empty()) continue;
            // an unspent signable output of v or of a descendant
            std::vector<Spendable> outs;
            for (const auto& d : m.DescClosure({v})) {
                const auto& tx = m.e.at(d).tx;
                if (tx->version == 3) continue;
                for (uint32_t n = 0; n < tx->vout.size(); ++n) {
                    const COutPoint op(d, n);
                    if (m.spender.count(op) || tx->vout[n].nValue < 5000) continue;
                    if (auto s = CoinAt(op, snap)) outs.push_back(*s);
                }
            }
            if (outs.empty()) continue;
            std::vector<Spendable> ins{c[rng.below(c.size())], outs[rng.below(outs.size())]};
            if (ins[0].op == ins[1].op) continue;
            CTransactionRef tx = AtThreshold(ins, 1, 2, rng.coin() ? 5000 : 0, snap);
            if (!tx) continue;
            SubmitSingleCandidate(tx, "spends");
            return;
        }
    }

    void CandDiagram()
    {
        const PoolSnap snap = SnapPool(node, false, true);
        if (snap.entries.empty()) return;
        for (int tries = 0; tries < 6; ++tries) {
            const Txid v = RandomEntry(snap);
            if (snap.entries.at(v).tx->version == 3) continue;
            std::vector<Spendable> c = RespendableInputs(v, snap);
            if (c.empty()) continue;
            std::vector<Spendable> ins{c[rng.below(c.size())]};
            // a few extra fresh inputs make it larger still
            std::vector<Spendable> fresh = mp.gen.ConfirmedCoins(snap);
            for (size_t i = 0; i < rng.below(3) && !fresh.empty(); ++i) {
                const Spendable s = fresh[rng.below(fresh.size())];
                bool dup = false;
                for (const auto& x : ins) dup = dup || x.op == s.op;
                if (!dup) ins.push_back(s);
            }
            static const int64_t ds[] = {0, 0, 1, 300, 3000};
            CTransactionRef tx = AtThreshold(ins, 6 + rng.below(24), 2, ds[rng.below(5)], snap);
            if (!tx) continue;
            SubmitSingleCandidate(tx, "diagram");
            return;
        }
    }

    void CandSibling()
    {
        const PoolSnap snap = SnapPool(node, false, true);
        const GenTx g = mp.gen.Make(TxKind::TRUC_SIBLING, snap);
        if (!g.tx) return;
        if (g.kind != TxKind::TRUC_SIBLING) {
            // material for a later sibling candidate
            SyncClock();
            const TxResult r = SubmitTx(node, g.tx, false);
            mp.Absorb();
            Obs(r.Valid() ? "fill_accepted" : "fill_rejected");
            return;
        }
        if (rng.chance(1, 4)) {
            // prioritise the sibling so that modified != base fee
            const Model m = Model::From(snap);
            const std::set<Txid> ps = m.Parents(*g.tx);
            if (ps.size() == 1) {
                for (const auto& s : m.Children(*ps.begin())) {
                    Prioritise(node, s, rng.coin() ? 1 : -1);
                    Obs("prioritise_calls");
                }
            }
        }
        SubmitSingleCandidate(g.tx, "sibling");
    }

    void CandPkg()
    {
        const PoolSnap snap = SnapPool(node, false, true);
        if (snap.entries.empty()) return;
        const GenPkg p = mp.gen.MakePackage(PkgKind::PKG_RBF, snap);
        if (p.txs.size() != 2 || p.kind != PkgKind::PKG_RBF) {
            Obs("gen_fallback");
            return;
        }
        SubmitPackageCandidate(p.txs, "pkg");
    }

    void CandPkg3()
    {
        const PoolSnap snap = SnapPool(node, false, true);
        if (snap.entries.empty()) return;
        GenTx p1 = mp.gen.MakeConflict(RandomEntry(snap), snap, -(int64_t)(1 + rng.below(200)));
        if (!p1.tx || p1.kind != TxKind::CONFLICT || p1.tx->version == 3) return;
        std::vector<Spendable> fresh = mp.gen.ConfirmedCoins(snap);
        std::vector<Spendable> free_coins;
        for (const auto& s : fresh) {
            bool used = false;
            for (const auto& in : p1.tx->vin) used = used || in.prevout == s.op;
            if (!used) free_coins.push_back(s);
        }
        if (free_coins.empty()) return;
        CTransactionRef p2 = mp.gen.Build({free_coins[rng.below(free_coins.size())]}, 2, FeeMode::ZERO, 0, 2, 0, {}, {}, nullptr, &snap);
        if (!p2) return;
        std::vector<Spendable> ins;
        for (const auto& par : {p1.tx, p2}) {
            for (uint32_t n = 0; n < par->vout.size(); ++n) {
                if (mp.gen.Signable(par->vout[n].scriptPubKey) && par->vout[n].nValue >= 5000) {
                    ins.push_back(mp.gen.OutputOf(par, n, snap.tip_height + 1));
                    break;
                }
            }
        }
        if (ins.size() != 2) return;
        CTransactionRef ch = mp.gen.Build(ins, 1, FeeMode::HIGH, 0, 2, 0, {}, {}, nullptr, &snap);
        if (!ch) return;
        SubmitPackageCandidate({p1.tx, p2, ch}, "pkg3");
    }

    //! 100 / 101 single-transaction clusters, one candidate conflicting with all of them
    void ScenarioManyClusters(bool many_101)
    {
        // 1. confirmed fan-out
        PoolSnap snap = SnapPool(node, false, true);
        std::vector<Spendable> conf = mp.gen.ConfirmedCoins(snap);
        std::sort(conf.begin(), conf.end(), [](const Spendable& a, const Spendable& b) { return a.out.nValue > b.out.nValue; });
        if (conf.empty() || conf[0].out.nValue < 110 * 300000) return;
        std::vector<CTxOut> outs;
        for (int i = 0; i < 104; ++i) outs.emplace_back(250000, keys.Spk(i % 2 ? OutType::P2WPKH : OutType::P2TR, rng.below(keys.Size())));
        CTransactionRef fan = mp.gen.Build({conf[0]}, 1, FeeMode::ABS, 50000, 2, 0, {}, outs, nullptr, &snap);
        if (!fan) return;
        MineTxs({fan}, "fanout");
        snap = SnapPool(node, false, true);
        // 2. one pool transaction per fan-out coin
        std::vector<Spendable> coins;
        for (uint32_t n = 0; n < 104; ++n) coins.push_back(mp.gen.OutputOf(fan, n, snap.tip_height));
        const size_t nvict = many_101 ? 101 : 100;
        std::vector<Spendable> ins;
        for (size_t i = 0; i < nvict; ++i) {
            CTransactionRef v = mp.gen.Build({coins[i]}, 1, FeeMode::ABS, 300 + (CAmount)rng.below(400), 2, 0, {}, {}, nullptr, &snap);
            if (!v) return;
            SyncClock();
            if (!SubmitTx(node, v, false).Valid()) return;
            ins.push_back(coins[i]);
        }
        mp.Absorb();
        Obs("many_cluster_scenarios");
        // 3. candidates: first below the fee threshold (the cluster rule is checked before the fee), then paying
        snap = SnapPool(node, false, true);
        for (const int64_t d : {(int64_t)-1, (int64_t)0}) {
            CTransactionRef tx = AtThreshold(ins, 1, 2, d, snap);
            if (!tx) return;
            SubmitSingleCandidate(tx, nvict == 100 ? "many100" : "many101");
            snap = SnapPool(node, false, true);
        }
    }

    //! own optimal whole-pool diagram is nowhere below the node's diagram (self-check of the brute force; equality = node optimal)
    void SelfCheckDiagram()
    {
        const PoolSnap snap = SnapPool(node, false);
        const Model m = Model::From(snap);
        std::vector<Chunk> chunks;
        if (!OptimalChunks(m.e, chunks)) return;
        const DiagCmp c = CompareDiagrams(ToPts(NodeDiagram()), DiagramOf(chunks));
        Obs("selfcheck_diagrams");
        if (c.after_below_somewhere) {
            Viol("rbf-ref-selfcheck", "the brute-force 'optimal' diagram of the whole pool lies below the node's own diagram somewhere (reference defect)", vh::J().u("pool", snap.entries.size()));
        } else if (c.after_above_somewhere) {
            Obs("node_diagram_not_optimal");
        } else {
            Obs("node_diagram_optimal");
        }
    }

    void Step()
    {
        const size_t pool = node.Mempool()->size();
        if (pool < 14 && rng.chance(3, 4)) {
            Fill();
            return;
        }
        if (pool > 60 && rng.chance(1, 3)) {
            MineTemplate();
            return;
        }
        //                                     fill simple prio multi spends diagram sibling pkg pkg3 mine selfcheck
        static const std::vector<uint32_t> w = {22, 18, 10, 9, 6, 9, 10, 9, 3, 1, 3};
        switch (rng.weighted(w)) {
        case 0: Fill(); break;
        case 1: CandSimple(false); break;
        case 2: CandSimple(true); break;
        case 3: CandMulti(); break;
        case 4: CandSpends(); break;
        case 5: CandDiagram(); break;
        case 6: CandSibling(); break;
        case 7: CandPkg(); break;
        case 8: CandPkg3(); break;
        case 9: MineTemplate(); break;
        case 10: SelfCheckDiagram(); break;
        }
    }
};

} // namespace

VH_CMD(rbf)
{
    const int steps_min = (int)args.geti("steps_min", 220), steps_max = (int)args.geti("steps_max", 300);
    const int many_every = (int)args.geti("many_every", 4);
    for (uint64_t c = args.from; c < args.to; ++c) {
        vh::set_case(c);
        vh::Rng rng(args.seed, c);
        NodeOpts nopts;
        nopts.worker_threads = 0;
        nopts.prevoutfetch_threads = 0;
        nopts.check_block_index = 0;
        MpOpts mopts;
        static const unsigned cc[] = {4, 5, 6, 8, 8};
        mopts.cluster_count = cc[rng.below(5)];
        if (rng.chance(1, 6)) {
            mopts.cluster_size_vbytes = 8000; // the pool refuses a size limit below 40 x the cluster size limit
            mopts.max_size_bytes = 400000 + (int64_t)rng.below(600000);
        }
        SimNode node(nopts);
        InstallMempool(node, mopts);
        RefLedger led(RefParams::FromNodeOpts(nopts));
        KeyRing keys(rng, 6);
        {
            Hist h(args, c, rng, nopts, mopts, node, led, keys);
            h.MineBase(101 + 30 + (int)rng.below(30));
            const int nsteps = (int)rng.range(steps_min, steps_max);
            const bool many = many_every > 0 && (c % (uint64_t)many_every) == 0;
            const int many_at = many ? (int)rng.below((uint64_t)nsteps) : -1;
            for (h.step = 0; h.step < nsteps; ++h.step) {
                if (h.step == many_at) h.ScenarioManyClusters((c / (uint64_t)many_every) % 2 == 0);
                h.Step();
            }
            h.SelfCheckDiagram();
            vh::J j;
            j.str("t", "hist").u("case", c).i("steps", nsteps).u("candidates", h.ncand).u("violations", h.nviol).i("tip_height", node.TipHeight()).raw("mp_opts", mopts.Describe());
            std::string stj = "{";
            bool first = true;
            for (const auto& [k, v] : h.st) {
                stj += (first ? "" : ",") + vh::JStr(k) + ":" + std::to_string(v);
                first = false;
            }
            j.raw("st", stj + "}");
            vh::log().rec(j);
            vh::log().obs("histories");
        }
    }
    return 0;
}
