// C04 (block-level half) — E1 class *mutation* (DESIGN §4 C04 (b)).
//
// One case = one history of an in-process regtest node (segwit active from genesis): a base chain of 101..120 blocks whose coinbases
// pay to witness and non-witness templates, then `rounds` rounds. Each round builds a valid block B (on the tip, or as a sibling of the
// tip followed by a child) with 0..7 transactions (no / some / only witness spends; with or without a witness commitment) and generates
// every same-header variant of B:
//     taildup      CVE-2012-2459: the last k transactions appended again, every k for which the merkle root is unchanged (twice iterated)
//     dup-badroot  a tail duplication that changes the root;  badroot-drop / -swap / -repl / -add: other tx lists under the same header
//     strip1 / stripall / stripcb   witness of one / of all non-coinbase txs / of everything incl. the coinbase removed
//     witbyte / witadd / witdrop    one witness byte flipped / one stack item appended / removed
//     nonce-val / nonce-31 / nonce-33 / nonce-2items   coinbase witness reserved value changed / of the wrong size
//     addwit / cbwit   witness data added to a non-witness spend / to the coinbase of a block without commitment
//     taildup+strip    combination
// and delivers them in one of the orders  VG {variant, genuine} · HVG {header, variant, genuine} · V3G-same {the same CBlock object x3,
// genuine} · V3G {three variants, genuine} · ALLG {all variants, genuine} · GV {genuine, variant(s)}.
// Finally two "64-byte transaction" blocks: a coinbase-less block whose transactions are 63/64/65 bytes long (the shape an inner-node
// reinterpretation has) through IsBlockMutated and ProcessNewBlock, and a block with coinbase + a 64-byte tx through IsBlockMutated only.
//
// Everything the node answered is logged; the oracle is pyref/blockmut.py:check_blockmut (parses the logged transactions itself,
// recomputes merkle root / duplication / witness commitment with the naive Python merkle, and applies DESIGN §4 C04's rules).
// In-harness: only the fixture's own M-verdict / M-tip monitors for the genuine blocks.
//
// Record (one per round):
//   {"case","fam":"blockmut","round","kind":"round"|"tx64","place":"tip"|"sibling","order":<pattern>,"hash","root":hex32 (internal order),
//    "txs":[hex of distinct txs, full serialization],"genuine":[indices],"segwit":true,
//    "dl":[{"who":"v"|"g"|"h"|"x"|"y"|"c"|"o"|"b","vk":<kind>,"vtx":[indices],"force":b,"obj":n,"ret":b,"nchk":n,"res":<result name>,"reason":s,
//           "ex":b,"data":b,"failed":b,"valid":n,"active":b,"tip_same":b,"tip_is":b,"ibm":b}...]}
//
// params: rounds (default 8), maxtx (default 7)
#include <common/vh.h>
#include <sim_chain.h>

#include <hash.h>
#include <streams.h>
#include <validation.h>

#include <algorithm>
#include <map>
#include <set>
#include <string>
#include <vector>

namespace {
using namespace sim;

bool IsWitType(OutType t) { return t == OutType::P2WPKH || t == OutType::P2WSH || t == OutType::P2TR || t == OutType::P2SH_P2WPKH; }

CBlock Fresh(const CBlock& b)
{
    CBlock c = b;
    c.fChecked = false;
    c.m_checked_witness_commitment = false;
    c.m_checked_merkle_root = false;
    return c;
}

uint256 ModelRoot(const CBlock& b, bool* mutated = nullptr)
{
    std::vector<uint256> leaves;
    for (const auto& tx : b.vtx) leaves.push_back(tx->GetHash().ToUint256());
    return RefLedger::MerkleRoot(leaves, mutated);
}

struct TxTable {
    std::vector<std::string> hex;
    std::map<uint256, size_t> by_wtxid;
    size_t Idx(const CTransactionRef& tx)
    {
        // key: hash of the full serialization (a coinbase with and without witness have different wtxid-like keys here)
        DataStream ss;
        ss << TX_WITH_WITNESS(*tx);
        uint256 key = Hash(ss);
        auto it = by_wtxid.find(key);
        if (it != by_wtxid.end()) return it->second;
        hex.push_back(vh::Hex(ss));
        by_wtxid[key] = hex.size() - 1;
        return hex.size() - 1;
    }
    std::string Order(const CBlock& b)
    {
        std::string s = "[";
        for (size_t i = 0; i < b.vtx.size(); ++i) s += (i ? "," : "") + std::to_string(Idx(b.vtx[i]));
        return s + "]";
    }
    std::string HexJson() const
    {
        std::vector<std::string> q;
        for (const auto& h : hex) q.push_back(vh::JStr(h));
        return vh::JArr(q);
    }
};

struct Variant {
    std::string kind;
    std::shared_ptr<CBlock> blk;
};

void SetTx(CBlock& b, size_t i, const CMutableTransaction& m) { b.vtx[i] = MakeTransactionRef(m); }

struct Gen {
    vh::Rng& rng;
    const CBlock& G;
    std::vector<Variant> out;
    std::set<std::string> seen_orders; // de-duplicate identical tx lists

    void Add(const std::string& kind, const CBlock& b)
    {
        // identical content to the genuine block is not a variant
        if (b.vtx.size() == G.vtx.size()) {
            bool same = true;
            for (size_t i = 0; i < b.vtx.size(); ++i) same = same && b.vtx[i]->GetWitnessHash() == G.vtx[i]->GetWitnessHash();
            if (same) return;
        }
        std::string key;
        for (const auto& tx : b.vtx) {
            DataStream ss;
            ss << TX_WITH_WITNESS(*tx);
            key += Hash(ss).ToString().substr(0, 16);
        }
        if (!seen_orders.insert(key).second) return;
        out.push_back({kind, std::make_shared<CBlock>(Fresh(b))});
    }

    std::vector<size_t> WitTxs(const CBlock& b) const
    {
        std::vector<size_t> r;
        for (size_t i = 1; i < b.vtx.size(); ++i) {
            if (b.vtx[i]->HasWitness()) r.push_back(i);
        }
        return r;
    }

    void TailDups()
    {
        const uint256 root = G.hashMerkleRoot;
        std::vector<CBlock> level{G};
        bool bad_done = false;
        for (int gen = 0; gen < 2; ++gen) {
            std::vector<CBlock> next;
            for (const CBlock& src : level) {
                const size_t n = src.vtx.size();
                for (size_t k = 1; k <= n; ++k) {
                    CBlock v = src;
                    for (size_t i = n - k; i < n; ++i) v.vtx.push_back(src.vtx[i]);
                    if (ModelRoot(v) == root) {
                        if (out.size() < 14) {
                            Add(gen == 0 ? "taildup" : "taildup2", v);
                            next.push_back(v);
                        }
                    } else if (!bad_done && gen == 0 && rng.chance(1, 3)) {
                        Add("dup-badroot", v);
                        bad_done = true;
                    }
                }
            }
            level = std::move(next);
            if (level.size() > 3) level.resize(3);
        }
    }

    void BadRoots()
    {
        const size_t n = G.vtx.size();
        if (n > 1) {
            CBlock v = G;
            v.vtx.pop_back();
            Add("badroot-drop", v);
        }
        if (n > 2) {
            CBlock v = G;
            size_t a = 1 + rng.below(n - 1), b = 1 + rng.below(n - 1);
            if (a == b) b = a == n - 1 ? 1 : a + 1;
            std::swap(v.vtx[a], v.vtx[b]);
            Add("badroot-swap", v);
        }
        {
            // another transaction in place of one (locktime of a copy changed: different txid)
            CBlock v = G;
            const size_t i = rng.below(n);
            CMutableTransaction m(*v.vtx[i]);
            m.nLockTime ^= 1;
            SetTx(v, i, m);
            Add("badroot-repl", v);
        }
        if (n > 1 && rng.coin()) {
            CBlock v = G;
            CMutableTransaction m(*v.vtx[n - 1]);
            m.nLockTime += 7;
            v.vtx.push_back(MakeTransactionRef(m));
            Add("badroot-add", v);
        }
    }

    void Witness()
    {
        const bool committed = GetWitnessCommitmentIndex(G) != NO_WITNESS_COMMITMENT;
        const std::vector<size_t> wt = WitTxs(G);
        auto strip = [](CBlock& v, size_t i) {
            CMutableTransaction m(*v.vtx[i]);
            for (auto& in : m.vin) in.scriptWitness.SetNull();
            SetTx(v, i, m);
        };
        if (!wt.empty()) {
            {
                CBlock v = G;
                strip(v, wt[rng.below(wt.size())]);
                Add("strip1", v);
            }
            if (wt.size() > 1) {
                CBlock v = G;
                for (size_t i : wt) strip(v, i);
                Add("stripall", v);
            }
            {
                CBlock v = G;
                for (size_t i : wt) strip(v, i);
                strip(v, 0);
                Add("stripcb", v);
            }
            for (int rep = 0; rep < 2; ++rep) {
                // one byte of one witness item
                CBlock v = G;
                const size_t i = wt[rng.below(wt.size())];
                CMutableTransaction m(*v.vtx[i]);
                std::vector<std::pair<size_t, size_t>> items;
                for (size_t a = 0; a < m.vin.size(); ++a) {
                    for (size_t s = 0; s < m.vin[a].scriptWitness.stack.size(); ++s) {
                        if (!m.vin[a].scriptWitness.stack[s].empty()) items.push_back({a, s});
                    }
                }
                if (items.empty()) break;
                auto [a, s] = items[rng.below(items.size())];
                auto& item = m.vin[a].scriptWitness.stack[s];
                item[rng.below(item.size())] ^= (unsigned char)(1u << rng.below(8));
                SetTx(v, i, m);
                Add("witbyte", v);
            }
            {
                CBlock v = G;
                const size_t i = wt[rng.below(wt.size())];
                CMutableTransaction m(*v.vtx[i]);
                size_t a = rng.below(m.vin.size());
                m.vin[a].scriptWitness.stack.push_back(rng.bytes(rng.below(4)));
                SetTx(v, i, m);
                Add("witadd", v);
            }
            {
                CBlock v = G;
                const size_t i = wt[rng.below(wt.size())];
                CMutableTransaction m(*v.vtx[i]);
                for (auto& in : m.vin) {
                    if (in.scriptWitness.stack.size() > 1) {
                        in.scriptWitness.stack.pop_back();
                        SetTx(v, i, m);
                        Add("witdrop", v);
                        break;
                    }
                }
            }
        }
        if (committed) {
            auto nonce = [&](const char* kind, std::vector<std::vector<unsigned char>> stack) {
                CBlock v = G;
                CMutableTransaction m(*v.vtx[0]);
                m.vin[0].scriptWitness.stack = std::move(stack);
                SetTx(v, 0, m);
                Add(kind, v);
            };
            std::vector<unsigned char> cur = G.vtx[0]->vin[0].scriptWitness.stack.empty() ? std::vector<unsigned char>(32, 0) : G.vtx[0]->vin[0].scriptWitness.stack[0];
            std::vector<unsigned char> other = cur;
            other[rng.below(other.size())] ^= 0x40;
            nonce("nonce-val", {other});
            nonce("nonce-31", {std::vector<unsigned char>(cur.begin(), cur.begin() + 31)});
            std::vector<unsigned char> longer = cur;
            longer.push_back(0);
            nonce("nonce-33", {longer});
            nonce("nonce-2items", {cur, cur});
            if (wt.empty()) nonce("nonce-none", {});
            // witness added to a non-witness spend of a committed block
            for (size_t i = 1; i < G.vtx.size(); ++i) {
                if (G.vtx[i]->HasWitness()) continue;
                CBlock v = G;
                CMutableTransaction m(*v.vtx[i]);
                m.vin[0].scriptWitness.stack.push_back({0x01});
                SetTx(v, i, m);
                Add("addwit", v);
                break;
            }
        } else {
            for (size_t i = 1; i < G.vtx.size(); ++i) {
                CBlock v = G;
                CMutableTransaction m(*v.vtx[i]);
                m.vin[rng.below(m.vin.size())].scriptWitness.stack.push_back(rng.bytes(1 + rng.below(3)));
                SetTx(v, i, m);
                Add("addwit", v);
                if (rng.coin()) break;
            }
            {
                CBlock v = G;
                CMutableTransaction m(*v.vtx[0]);
                m.vin[0].scriptWitness.stack.assign(1, std::vector<unsigned char>(32, 0));
                SetTx(v, 0, m);
                Add("cbwit", v);
            }
        }
    }

    void Combos()
    {
        // tail duplication of a witness variant
        std::vector<Variant> base = out;
        for (const auto& t : base) {
            if (t.kind != "taildup") continue;
            for (const auto& w : base) {
                if (w.kind != "strip1" && w.kind != "witbyte" && w.kind != "addwit") continue;
                // apply the duplication pattern of t to w's tx list
                CBlock v = *w.blk;
                const size_t n = G.vtx.size();
                for (size_t i = n; i < t.blk->vtx.size(); ++i) v.vtx.push_back(w.blk->vtx[n - (t.blk->vtx.size() - n) + (i - n)]);
                Add("taildup+" + w.kind, v);
                return;
            }
        }
    }
};

struct Round {
    vh::J j;
    std::vector<std::string> dl;
};

struct Hist {
    vh::Rng& rng;
    SimNode& node;
    RefLedger& led;
    KeyRing& keys;
    BlockBuilder bb;
    NodeOpts opts;
    uint64_t salt{1};
    uint64_t nviol{0};
    std::map<CScript, OutType> spk_type;

    Hist(vh::Rng& r, SimNode& n, RefLedger& l, KeyRing& k, const NodeOpts& o) : rng(r), node(n), led(l), keys(k), bb(l, k), opts(o) {}

    void Report(const Violations& vs, const std::string& action)
    {
        for (const auto& v : vs) {
            if (++nviol > 10) continue;
            vh::log().violation(v.key, v.msg, vh::J().str("action", action).raw("d", v.details).raw("node_opts", opts.Describe()));
        }
    }
    RefBlock* Tip() { return led.Find(node.TipHash()); }

    CScript Spk(bool wit)
    {
        static const OutType w[] = {OutType::P2WPKH, OutType::P2WSH, OutType::P2TR, OutType::P2SH_P2WPKH};
        static const OutType nw[] = {OutType::P2PK, OutType::P2PKH, OutType::MULTISIG};
        const OutType t = wit ? w[rng.below(4)] : nw[rng.below(3)];
        CScript s = keys.Spk(t, rng.below(keys.Size()));
        spk_type[s] = t;
        return s;
    }

    void Clock(const RefBlock* b)
    {
        if (node.Time() < (int64_t)b->block->nTime + 10) node.SetTime((int64_t)b->block->nTime + 10);
    }

    std::vector<Spendable> Coins(const RefBlock* parent, bool wit)
    {
        std::vector<Spendable> r;
        const RefUtxo& u = led.Utxo(parent);
        const int h = parent->height + 1;
        for (const auto& [op, c] : u) {
            auto it = spk_type.find(c.spk);
            if (it == spk_type.end() || IsWitType(it->second) != wit) continue;
            if (c.coinbase && h - c.height < 100) continue;
            Spendable s;
            s.op = op;
            s.out = CTxOut(c.value, c.spk);
            s.height = c.height;
            s.coinbase = c.coinbase;
            r.push_back(std::move(s));
        }
        rng.shuffle(r);
        return r;
    }

    //! txs for a block on parent. mix: 0 none-witness, 1 some, 2 all witness
    std::vector<CTransactionRef> Txs(const RefBlock* parent, size_t n, int mix)
    {
        std::vector<CTransactionRef> txs;
        std::vector<Spendable> cw = Coins(parent, true), cn = Coins(parent, false);
        for (size_t t = 0; t < n; ++t) {
            bool wit = mix == 2 || (mix == 1 && rng.coin());
            std::vector<Spendable>& pool = wit ? cw : cn;
            if (pool.empty()) {
                if (mix == 1) {
                    std::vector<Spendable>& alt = wit ? cn : cw;
                    if (alt.empty()) break;
                    wit = !wit;
                } else {
                    break;
                }
            }
            std::vector<Spendable>& p = wit ? cw : cn;
            const size_t nin = 1 + rng.below(std::min<size_t>(2, p.size()));
            std::vector<Spendable> ins;
            CAmount in = 0;
            for (size_t i = 0; i < nin; ++i) {
                ins.push_back(p.back());
                p.pop_back();
                in += ins.back().out.nValue;
            }
            const CAmount fee = (CAmount)rng.below(5000);
            CAmount rest = in > fee ? in - fee : in;
            // always one witness-type and one non-witness-type output so that both pools are replenished
            std::vector<CTxOut> outs;
            const CAmount a = rest / 2;
            outs.emplace_back(a, Spk(true));
            outs.emplace_back(rest - a, Spk(false));
            CMutableTransaction mtx = MakeTx(keys, ins, outs);
            CTransactionRef tx = MakeTransactionRef(mtx);
            txs.push_back(tx);
            // in-block chaining: outputs are spendable right away
            if (rng.chance(1, 3)) {
                for (size_t o = 0; o < tx->vout.size(); ++o) {
                    Spendable s;
                    s.op = COutPoint(tx->GetHash(), o);
                    s.out = tx->vout[o];
                    s.height = parent->height + 1;
                    (o == 0 ? cw : cn).push_back(s);
                }
            }
        }
        return txs;
    }

    BlockSpec Spec(const RefBlock* parent)
    {
        BlockSpec s;
        s.time = (uint32_t)std::max<int64_t>(parent->mtp + 1, (int64_t)parent->block->nTime + 1 + (int64_t)rng.below(600));
        s.salt = salt++;
        s.cb.spk = Spk(rng.coin());
        s.cb.split = 1 + rng.below(3);
        return s;
    }

    RefBlock* MakeBlock(RefBlock* parent, const std::vector<CTransactionRef>& txs, bool force_commitment, const char* tag)
    {
        BlockSpec s = Spec(parent);
        s.force_commitment = force_commitment;
        auto blk = bb.Build(parent, txs, s);
        BlockMeta m;
        m.tag = tag;
        RefBlock* rb = led.Add(blk, m);
        if (!rb || !rb->SelfValid()) {
            std::string why;
            if (rb) {
                for (const auto& f : rb->faults) why += f.reason + " ";
            }
            throw std::runtime_error(std::string("mutation generator: intended-valid block is model-invalid: ") + why);
        }
        return rb;
    }

    std::string IdxJson(vh::J& j, const uint256& hash, const uint256& tip_before)
    {
        IndexInfo ii = node.Index(hash);
        const uint256 tip = node.TipHash();
        j.b("ex", ii.exists).b("data", ii.have_data).b("failed", ii.failed).u("valid", ii.validity).b("active", ii.in_active_chain).b("tip_same", tip == tip_before).b("tip_is", tip == hash);
        return ii.Str();
    }

    //! deliver a same-header variant (or any block the ledger must not learn about)
    std::string SendRaw(const char* who, const std::string& kind, const std::shared_ptr<CBlock>& blk, RefBlock* genuine, TxTable& tt, bool force, int obj)
    {
        const uint256 hash = blk->GetHash();
        const uint256 tip_before = node.TipHash();
        CBlock probe = Fresh(*blk);
        const bool ibm = IsBlockMutated(probe, /*check_witness_root=*/true);
        SubmitResult r = node.SubmitBlock(blk, force, true);
        node.Sync();
        node.Verdicts().TakeEvents(); // the ledger must not see verdicts about a hash it knows as the genuine block
        vh::J j;
        j.str("who", who).str("vk", kind).raw("vtx", tt.Order(*blk)).b("force", force).i("obj", obj).b("ret", r.ret).u("nchk", r.n_checked)
            .str("res", r.verdict ? r.verdict->ResultName() : "NONE").str("reason", r.verdict ? r.verdict->reason : "");
        IdxJson(j, hash, tip_before);
        j.b("ibm", ibm).hex("root", blk->hashMerkleRoot);
        if (genuine && node.Index(hash).exists) led.NoteHeader(genuine);
        vh::log().obs("variant_deliveries");
        return j.done();
    }

    std::string SendHeader(RefBlock* rb)
    {
        const uint256 tip_before = node.TipHash();
        Clock(rb);
        DeliverOpts o;
        o.header_only = true;
        DeliverResult d = Deliver(node, led, rb, o);
        Report(d.violations, "header");
        vh::J j;
        j.str("who", "h").str("vk", "header").raw("vtx", "[]").b("force", true).i("obj", 0).b("ret", d.hdr.ret).u("nchk", 0).str("res", d.hdr.ret ? "VALID" : (d.hdr.verdict ? d.hdr.verdict->ResultName() : "NONE")).str("reason", "");
        IdxJson(j, rb->hash, tip_before);
        j.b("ibm", false);
        return j.done();
    }

    std::string SendGenuine(const char* who, RefBlock* rb, TxTable& tt, bool force)
    {
        const uint256 tip_before = node.TipHash();
        Clock(rb);
        CBlock probe = Fresh(*rb->block);
        const bool ibm = IsBlockMutated(probe, true);
        DeliverOpts o;
        o.force_processing = force;
        DeliverResult d = Deliver(node, led, rb, o);
        Report(d.violations, std::string("genuine:") + who);
        Report(CheckTip(node, led), std::string("genuine:") + who);
        Report(CheckIndex(node, led), std::string("genuine:") + who);
        std::optional<Verdict> last = node.Verdicts().Last(rb->hash);
        vh::J j;
        j.str("who", who).str("vk", "genuine").raw("vtx", tt.Order(*rb->block)).b("force", force).i("obj", 0).b("ret", d.blk.ret).u("nchk", d.blk.n_checked)
            .str("res", d.blk.verdict ? d.blk.verdict->ResultName() : "NONE").str("reason", d.blk.verdict ? d.blk.verdict->reason : "");
        IdxJson(j, rb->hash, tip_before);
        j.b("ibm", ibm).b("new", d.blk.new_block).hex("root", rb->block->hashMerkleRoot);
        vh::log().obs("genuine_deliveries");
        return j.done();
    }
};

CMutableTransaction SmallTx(vh::Rng& rng, size_t extra)
{
    // 60 bytes + extra, split between scriptSig and scriptPubKey
    CMutableTransaction m;
    m.version = rng.coin() ? 1 : 2;
    m.vin.resize(1);
    uint256 h;
    rng.fill(h.begin(), 32);
    if (h.IsNull()) h.begin()[0] = 1;
    m.vin[0].prevout = COutPoint(Txid::FromUint256(h), (uint32_t)rng.below(4));
    m.vin[0].nSequence = 0xffffffff;
    const size_t ss = rng.below(extra + 1);
    for (size_t i = 0; i < ss; ++i) m.vin[0].scriptSig.push_back(OP_1);
    m.vout.resize(1);
    m.vout[0].nValue = (CAmount)rng.below(100000);
    for (size_t i = 0; i < extra - ss; ++i) m.vout[0].scriptPubKey.push_back(OP_1);
    m.nLockTime = 0;
    return m;
}

} // namespace

VH_CMD(blockmut)
{
    const int rounds = (int)args.geti("rounds", 8);
    const size_t maxtx = (size_t)args.geti("maxtx", 7);
    for (uint64_t c = args.from; c < args.to; ++c) {
        vh::set_case(c);
        vh::Rng rng(args.seed, c);
        NodeOpts opts;
        static const int threads[] = {0, 1, 2, 4};
        opts.worker_threads = threads[rng.below(4)];
        opts.prevoutfetch_threads = threads[rng.below(4)];
        if (rng.chance(1, 3)) {
            opts.sig_cache_bytes = 0;
            opts.script_cache_bytes = 0;
        }
        SimNode node(opts);
        RefLedger led(RefParams::FromNodeOpts(opts));
        KeyRing keys(rng, 6);
        Hist h(rng, node, led, keys, opts);

        // ---- base chain
        const int base = 101 + (int)rng.below(20);
        for (int i = 0; i < base; ++i) {
            RefBlock* b = h.MakeBlock(h.Tip(), {}, false, "base");
            h.Clock(b);
            DeliverResult d = Deliver(node, led, b, {});
            h.Report(d.violations, "base");
        }
        h.Report(CheckTip(node, led), "base");

        uint64_t n_variants = 0;
        std::string sig;
        for (int r = 0; r < rounds; ++r) {
            RefBlock* tip = h.Tip();
            if (!tip) break;
            const bool sibling = tip->height > base && rng.chance(3, 10);
            RefBlock* parent = sibling ? tip->parent : tip;
            const int mix = (int)rng.below(3);
            const size_t ntx = rng.chance(1, 6) ? 0 : 1 + rng.below(maxtx);
            std::vector<CTransactionRef> txs = h.Txs(parent, ntx, mix);
            bool any_wit = false;
            for (const auto& tx : txs) any_wit = any_wit || tx->HasWitness();
            const bool force_commit = !any_wit && rng.chance(1, 3);
            RefBlock* B = h.MakeBlock(parent, txs, force_commit, "genuine");
            const CBlock& G = *B->block;

            Gen gen{rng, G, {}, {}};
            gen.TailDups();
            gen.BadRoots();
            gen.Witness();
            gen.Combos();
            std::vector<Variant>& vs = gen.out;
            rng.shuffle(vs);

            TxTable tt;
            std::vector<std::string> dl;
            static const char* orders[] = {"VG", "HVG", "V3G-same", "V3G", "ALLG", "GV"};
            const std::vector<uint32_t> w = {3, 3, 2, 2, 3, 2};
            const std::string order = orders[rng.weighted(w)];
            auto send_v = [&](const Variant& v, int obj) {
                dl.push_back(h.SendRaw("v", v.kind, v.blk, B, tt, rng.chance(3, 4), obj));
                ++n_variants;
                vh::log().obs("vk_" + v.kind);
            };
            if (vs.empty()) throw std::runtime_error("no variant generated");
            h.Clock(B);
            if (GetWitnessCommitmentIndex(G) != NO_WITNESS_COMMITMENT && rng.chance(1, 2)) {
                // a block of its own (own header, correct merkle root, valid proof of work) whose commitment is wrong in ONE byte:
                // first, last or a random byte of the 32 (not a same-header variant; statement, first sentence)
                auto o = std::make_shared<CBlock>(Fresh(G));
                CMutableTransaction cb(*o->vtx[0]);
                const int ci = GetWitnessCommitmentIndex(G);
                const int which = (int)rng.below(3);
                const size_t pos = which == 0 ? 6 : which == 1 ? 37 : 6 + rng.below(32);
                cb.vout[ci].scriptPubKey[pos] ^= (unsigned char)(1u << rng.below(8));
                o->vtx[0] = MakeTransactionRef(cb);
                o->hashMerkleRoot = ModelRoot(*o);
                o->nNonce = 0;
                BlockBuilder::Solve(*o);
                dl.push_back(h.SendRaw("o", which == 0 ? "own-badcommit-first" : which == 1 ? "own-badcommit-last" : "own-badcommit-rand", o, nullptr, tt, rng.coin(), 0));
                vh::log().obs("own_header_badcommit");
            }
            if (order == "VG") {
                send_v(vs[0], 0);
            } else if (order == "HVG") {
                dl.push_back(h.SendHeader(B));
                const size_t n = 1 + rng.below(std::min<size_t>(3, vs.size()));
                for (size_t i = 0; i < n; ++i) send_v(vs[i], 0);
            } else if (order == "V3G-same") {
                for (int i = 0; i < 3; ++i) send_v(vs[0], i);
            } else if (order == "V3G") {
                for (size_t i = 0; i < 3; ++i) send_v(vs[i % vs.size()], (int)(i / vs.size()));
            } else if (order == "ALLG") {
                if (rng.coin()) dl.push_back(h.SendHeader(B));
                for (const auto& v : vs) send_v(v, 0);
            }
            dl.push_back(h.SendGenuine("g", B, tt, rng.chance(3, 4)));
            if (order == "GV") {
                const size_t n = 1 + rng.below(std::min<size_t>(4, vs.size()));
                for (size_t i = 0; i < n; ++i) send_v(vs[i], 0);
            } else if (rng.chance(1, 4)) {
                send_v(vs[rng.below(vs.size())], 9); // a late variant after the genuine block as well
            }
            if (sibling) {
                RefBlock* child = h.MakeBlock(B, {}, false, "child");
                dl.push_back(h.SendGenuine("c", child, tt, true));
                vh::J jb;
                jb.str("who", "b").str("vk", "genuine-after-child").raw("vtx", "[]");
                h.IdxJson(jb, B->hash, node.TipHash());
                dl.push_back(jb.done());
            }
            // every variant through IsBlockMutated even if not delivered in this order
            std::vector<std::string> undelivered;
            for (const auto& v : vs) {
                CBlock probe = Fresh(*v.blk);
                undelivered.push_back(vh::J().str("vk", v.kind).raw("vtx", tt.Order(*v.blk)).b("ibm", IsBlockMutated(probe, true)).done());
            }
            vh::J j;
            j.u("case", c).str("fam", "blockmut").str("kind", "round").i("round", r).str("place", sibling ? "sibling" : "tip").str("order", order).str("hash", B->hash.ToString())
                .hex("root", G.hashMerkleRoot).i("ntx", (int64_t)G.vtx.size()).i("mix", mix).b("commit", GetWitnessCommitmentIndex(G) != NO_WITNESS_COMMITMENT).b("segwit", true)
                .raw("genuine", tt.Order(G)).raw("dl", vh::JArr(dl)).raw("probe", vh::JArr(undelivered)).raw("txs", tt.HexJson());
            vh::log().rec(j);
            vh::log().obs("rounds");
            sig += order + (sibling ? "s" : "t") + std::to_string(G.vtx.size()) + "/" + std::to_string(vs.size()) + ",";
        }

        // ---- 64-byte transaction shapes (skipped when the node sits on a block the generator never offered as valid: that
        //      has been recorded above and is judged by the oracle; the history cannot go on from an unknown tip)
        if (RefBlock* tip = h.Tip()) {
            TxTable tt;
            std::vector<std::string> dl;
            // X: no coinbase; k transactions of 63..65 bytes, at least one of exactly 64 in two of three cases
            const size_t k = 1 + rng.below(4);
            const int cls = (int)rng.below(3); // 0: contains a 64-byte tx, 1: all 63/65, 2: all 64
            auto x = std::make_shared<CBlock>();
            x->nVersion = 0x20000000;
            x->hashPrevBlock = tip->hash;
            x->nTime = (uint32_t)std::max<int64_t>(tip->mtp + 1, (int64_t)tip->block->nTime + 1);
            x->nBits = led.Params().pow_limit_bits;
            const size_t pos64 = rng.below(k);
            for (size_t i = 0; i < k; ++i) {
                size_t extra = cls == 2 ? 4 : (cls == 0 && i == pos64) ? 4 : (rng.coin() ? 3 : 5);
                x->vtx.push_back(MakeTransactionRef(SmallTx(rng, extra)));
            }
            x->hashMerkleRoot = ModelRoot(*x);
            BlockBuilder::Solve(*x);
            const bool hdr_first = rng.coin();
            if (hdr_first) {
                const uint256 tip_before = node.TipHash();
                SubmitResult hr = node.SubmitHeaders({CBlockHeader(*x)});
                vh::J j;
                j.str("who", "h").str("vk", "header").raw("vtx", "[]").b("force", true).i("obj", 0).b("ret", hr.ret).u("nchk", 0).str("res", hr.ret ? "VALID" : "REFUSED").str("reason", "");
                h.IdxJson(j, x->GetHash(), tip_before);
                j.b("ibm", false);
                dl.push_back(j.done());
            }
            dl.push_back(h.SendRaw("x", cls == 1 ? "nocb-non64" : "nocb-64", x, nullptr, tt, true, 0));
            // Y: coinbase + a 64-byte transaction: IsBlockMutated only
            {
                BlockSpec s = h.Spec(tip);
                std::vector<CTransactionRef> ytx{MakeTransactionRef(SmallTx(rng, 4))};
                auto y = h.bb.Build(tip, ytx, s);
                CBlock probe = Fresh(*y);
                const bool ibm = IsBlockMutated(probe, true);
                dl.push_back(vh::J().str("who", "y").str("vk", "cb+64").raw("vtx", tt.Order(*y)).b("ibm", ibm).done());
            }
            vh::J j;
            j.u("case", c).str("fam", "blockmut").str("kind", "tx64").i("round", rounds).str("place", "tip").str("order", hdr_first ? "HX" : "X").str("hash", x->GetHash().ToString())
                .hex("root", x->hashMerkleRoot).i("ntx", (int64_t)k).b("segwit", true).raw("genuine", "[]").raw("dl", vh::JArr(dl)).raw("probe", "[]").raw("txs", tt.HexJson());
            vh::log().rec(j);
            vh::log().obs("tx64_rounds");
            // the chain goes on
            if (RefBlock* t2 = h.Tip()) {
                RefBlock* nb = h.MakeBlock(t2, {}, false, "after64");
                h.Clock(nb);
                DeliverResult d = Deliver(node, led, nb, {});
                h.Report(d.violations, "after64");
                h.Report(CheckTip(node, led), "after64");
            }
        }
        if (h.Tip()) h.Report(CheckUtxoProbe(node, led), "final");
        vh::log().rec(vh::J().u("case", c).str("fam", "blockmut").str("kind", "case").i("base", base).i("rounds", rounds).u("variants", n_variants).u("violations", h.nviol).str("sig", sig).raw("node_opts", opts.Describe()));
        vh::log().obs("histories");
    }
    return 0;
}
