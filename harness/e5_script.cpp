// C12: grammar-based script generator; runs the real EvalScript / VerifyScript and logs input + verdict for the
// Python reference interpreter (pyref/script_interp.py, checks/C12.py).
// VH_FLAVOURS: asan
#include <common/vh.h>

#include <crypto/sha256.h>
#include <hash.h>
#include <key.h>
#include <primitives/transaction.h>
#include <pubkey.h>
#include <script/interpreter.h>
#include <script/script.h>
#include <script/script_error.h>
#include <serialize.h>
#include <streams.h>
#include <uint256.h>

#include <algorithm>
#include <memory>
#include <string>
#include <vector>

namespace {

using valtype = std::vector<unsigned char>;
using Stack = std::vector<valtype>;

// ---------------------------------------------------------------------------------------------------------------
// names (own tables: the log never depends on the numbering of the enums under test)

const char* ErrName(ScriptError e)
{
    switch (e) {
#define E(x) case SCRIPT_ERR_##x: return #x;
        E(OK) E(UNKNOWN_ERROR) E(EVAL_FALSE) E(OP_RETURN) E(SCRIPTNUM) E(SCRIPT_SIZE) E(PUSH_SIZE) E(OP_COUNT) E(STACK_SIZE)
        E(SIG_COUNT) E(PUBKEY_COUNT) E(VERIFY) E(EQUALVERIFY) E(CHECKMULTISIGVERIFY) E(CHECKSIGVERIFY) E(NUMEQUALVERIFY)
        E(BAD_OPCODE) E(DISABLED_OPCODE) E(INVALID_STACK_OPERATION) E(INVALID_ALTSTACK_OPERATION) E(UNBALANCED_CONDITIONAL)
        E(NEGATIVE_LOCKTIME) E(UNSATISFIED_LOCKTIME) E(SIG_HASHTYPE) E(SIG_DER) E(MINIMALDATA) E(SIG_PUSHONLY) E(SIG_HIGH_S)
        E(SIG_NULLDUMMY) E(PUBKEYTYPE) E(CLEANSTACK) E(MINIMALIF) E(SIG_NULLFAIL) E(DISCOURAGE_UPGRADABLE_NOPS)
        E(DISCOURAGE_UPGRADABLE_WITNESS_PROGRAM) E(DISCOURAGE_UPGRADABLE_TAPROOT_VERSION) E(DISCOURAGE_OP_SUCCESS)
        E(DISCOURAGE_UPGRADABLE_PUBKEYTYPE) E(WITNESS_PROGRAM_WRONG_LENGTH) E(WITNESS_PROGRAM_WITNESS_EMPTY)
        E(WITNESS_PROGRAM_MISMATCH) E(WITNESS_MALLEATED) E(WITNESS_MALLEATED_P2SH) E(WITNESS_UNEXPECTED) E(WITNESS_PUBKEYTYPE)
        E(SCHNORR_SIG_SIZE) E(SCHNORR_SIG_HASHTYPE) E(SCHNORR_SIG) E(TAPROOT_WRONG_CONTROL_SIZE) E(TAPSCRIPT_VALIDATION_WEIGHT)
        E(TAPSCRIPT_CHECKMULTISIG) E(TAPSCRIPT_MINIMALIF) E(TAPSCRIPT_EMPTY_PUBKEY) E(OP_CODESEPARATOR) E(SIG_FINDANDDELETE)
#undef E
    default: return "?";
    }
}

struct FlagDef {
    const char* name;
    script_verify_flag_name f;
};
#define F(x) {#x, SCRIPT_VERIFY_##x}
const FlagDef FLAGDEFS[] = {
    F(P2SH), F(STRICTENC), F(DERSIG), F(LOW_S), F(NULLDUMMY), F(SIGPUSHONLY), F(MINIMALDATA), F(DISCOURAGE_UPGRADABLE_NOPS),
    F(CLEANSTACK), F(CHECKLOCKTIMEVERIFY), F(CHECKSEQUENCEVERIFY), F(WITNESS), F(DISCOURAGE_UPGRADABLE_WITNESS_PROGRAM),
    F(MINIMALIF), F(NULLFAIL), F(WITNESS_PUBKEYTYPE), F(CONST_SCRIPTCODE), F(TAPROOT), F(DISCOURAGE_UPGRADABLE_TAPROOT_VERSION),
    F(DISCOURAGE_OP_SUCCESS), F(DISCOURAGE_UPGRADABLE_PUBKEYTYPE)};
#undef F
constexpr size_t NFLAGS = sizeof(FLAGDEFS) / sizeof(FLAGDEFS[0]);
static_assert(NFLAGS == MAX_SCRIPT_VERIFY_FLAGS_BITS, "a script verification flag was added: extend FLAGDEFS and the reference");

bool Has(script_verify_flags f, script_verify_flag_name n) { return (f & n) != 0; }

std::string FlagNames(script_verify_flags f)
{
    std::string r;
    for (const auto& d : FLAGDEFS) {
        if (Has(f, d.f)) {
            if (!r.empty()) r += ",";
            r += d.name;
        }
    }
    return r;
}

script_verify_flags FixFlags(script_verify_flags f, vh::Rng& rng)
{
    // the interpreter's documented precondition: CLEANSTACK => P2SH & WITNESS, WITNESS => P2SH
    if (Has(f, SCRIPT_VERIFY_CLEANSTACK) && !(Has(f, SCRIPT_VERIFY_P2SH) && Has(f, SCRIPT_VERIFY_WITNESS))) {
        if (rng.coin()) f |= script_verify_flags{SCRIPT_VERIFY_P2SH} | SCRIPT_VERIFY_WITNESS;
        else f &= ~SCRIPT_VERIFY_CLEANSTACK;
    }
    if (Has(f, SCRIPT_VERIFY_WITNESS) && !Has(f, SCRIPT_VERIFY_P2SH)) {
        if (rng.coin()) f |= SCRIPT_VERIFY_P2SH;
        else f &= ~SCRIPT_VERIFY_WITNESS;
    }
    return f;
}

script_verify_flags RandFlags(vh::Rng& rng)
{
    script_verify_flags f = SCRIPT_VERIFY_NONE;
    switch (rng.below(10)) {
    case 0: break;
    case 1:
        for (const auto& d : FLAGDEFS) f |= d.f;
        break;
    case 2:
        f = script_verify_flags{SCRIPT_VERIFY_P2SH} | SCRIPT_VERIFY_DERSIG | SCRIPT_VERIFY_NULLDUMMY | SCRIPT_VERIFY_CHECKLOCKTIMEVERIFY |
            SCRIPT_VERIFY_CHECKSEQUENCEVERIFY | SCRIPT_VERIFY_WITNESS | SCRIPT_VERIFY_TAPROOT;
        break;
    case 3: f = FLAGDEFS[rng.below(NFLAGS)].f; break;
    case 4:
        for (const auto& d : FLAGDEFS) f |= d.f;
        f &= ~FLAGDEFS[rng.below(NFLAGS)].f;
        break;
    default: {
        const uint32_t num = 1 + rng.below(3);
        for (const auto& d : FLAGDEFS)
            if (rng.chance(num, 4)) f |= d.f;
    }
    }
    return FixFlags(f, rng);
}

// ---------------------------------------------------------------------------------------------------------------
// script bytes builder (own encoder: controls every push form)

valtype NumEnc(int64_t v)
{
    valtype r;
    if (v == 0) return r;
    const bool neg = v < 0;
    uint64_t a = neg ? static_cast<uint64_t>(-(v + 1)) + 1 : static_cast<uint64_t>(v);
    while (a) {
        r.push_back(a & 0xff);
        a >>= 8;
    }
    if (r.back() & 0x80) r.push_back(neg ? 0x80 : 0);
    else if (neg) r.back() |= 0x80;
    return r;
}

struct SB {
    valtype b;
    SB& op(unsigned o)
    {
        b.push_back(static_cast<unsigned char>(o));
        return *this;
    }
    // form: -1 shortest length-prefix form, 0 direct, 1 PUSHDATA1, 2 PUSHDATA2, 4 PUSHDATA4 (upgraded when too small)
    SB& push(const valtype& d, int form = -1)
    {
        const size_t n = d.size();
        if (form < 0) form = 0;
        if (form == 0 && n >= 0x4c) form = 1;
        if (form == 1 && n > 0xff) form = 2;
        if (form == 2 && n > 0xffff) form = 4;
        switch (form) {
        case 0: b.push_back(n); break;
        case 1:
            b.push_back(0x4c);
            b.push_back(n);
            break;
        case 2:
            b.push_back(0x4d);
            b.push_back(n & 0xff);
            b.push_back(n >> 8);
            break;
        default:
            b.push_back(0x4e);
            for (int i = 0; i < 4; ++i) b.push_back((n >> (8 * i)) & 0xff);
        }
        b.insert(b.end(), d.begin(), d.end());
        return *this;
    }
    // BIP62-minimal push (uses OP_0, OP_1..16, OP_1NEGATE)
    SB& pushmin(const valtype& d)
    {
        if (d.empty()) return op(0x00);
        if (d.size() == 1 && d[0] >= 1 && d[0] <= 16) return op(0x50 + d[0]);
        if (d.size() == 1 && d[0] == 0x81) return op(0x4f);
        return push(d);
    }
    SB& num(int64_t v) { return pushmin(NumEnc(v)); }
    SB& cat(const valtype& o)
    {
        b.insert(b.end(), o.begin(), o.end());
        return *this;
    }
    CScript script() const { return CScript(b.begin(), b.end()); }
};

CScript ToScript(const valtype& b) { return CScript(b.begin(), b.end()); }

bool IsSuccessOp(unsigned op)
{
    return op == 80 || op == 98 || (op >= 126 && op <= 129) || (op >= 131 && op <= 134) || (op >= 137 && op <= 138) ||
           (op >= 141 && op <= 142) || (op >= 149 && op <= 153) || (op >= 187 && op <= 254);
}

// own walk over operations; true if an OP_SUCCESSx sits on an operation boundary before any undecodable tail
bool HasOpSuccess(const valtype& s)
{
    size_t p = 0;
    while (p < s.size()) {
        const unsigned op = s[p++];
        if (op <= 0x4e) {
            size_t n = op;
            if (op == 0x4c) {
                if (s.size() - p < 1) return false;
                n = s[p];
                p += 1;
            } else if (op == 0x4d) {
                if (s.size() - p < 2) return false;
                n = s[p] | (s[p + 1] << 8);
                p += 2;
            } else if (op == 0x4e) {
                if (s.size() - p < 4) return false;
                n = s[p] | (s[p + 1] << 8) | (s[p + 2] << 16) | (size_t{s[p + 3]} << 24);
                p += 4;
            }
            if (s.size() - p < n) return false;
            p += n;
        } else if (IsSuccessOp(op)) {
            return true;
        }
    }
    return false;
}

// ---------------------------------------------------------------------------------------------------------------
// operand pools

const int64_t NUM_EDGES[] = {127, 128, -127, -128, 255, 256, -255, -256, 32767, 32768, -32768, 65535, 65536, 8388607, 8388608, -8388608,
                             2147483647LL, -2147483647LL, 2147483646LL, -2147483646LL, 2147483648LL, -2147483648LL, 4294967295LL,
                             4294967296LL, 549755813887LL, -549755813887LL, 549755813888LL, 499999999, 500000000, 500000001,
                             4194304, 4194303, 65535 + 4194304};

int64_t PoolNum(vh::Rng& rng)
{
    const uint64_t r = rng.below(100);
    if (r < 50) return rng.range(-3, 20);
    if (r < 80) return NUM_EDGES[rng.below(sizeof(NUM_EDGES) / sizeof(NUM_EDGES[0]))];
    const int bits = 1 + rng.below(33);
    const int64_t v = static_cast<int64_t>(rng.next() & ((uint64_t{1} << bits) - 1));
    return rng.coin() ? v : -v;
}

valtype NonMinimal(valtype e, vh::Rng& rng)
{
    if (e.empty()) return rng.coin() ? valtype{0x00} : valtype{0x80};
    const unsigned char s = e.back() & 0x80;
    e.back() &= 0x7f;
    e.push_back(s);
    if (rng.chance(1, 4)) { // two padding bytes
        e.back() = 0;
        e.push_back(s);
    }
    return e;
}

valtype PoolNumEnc(vh::Rng& rng, bool allow_nonmin = true)
{
    valtype e = NumEnc(PoolNum(rng));
    if (allow_nonmin && rng.chance(1, 8)) e = NonMinimal(e, rng);
    return e;
}

valtype PoolBool(vh::Rng& rng)
{
    switch (rng.below(12)) {
    case 0: case 1: case 2: return {};
    case 3: case 4: case 5: return {1};
    case 6: return {0};
    case 7: return {0x80};
    case 8: return {0, 0};
    case 9: return {0, 0x80};
    case 10: return {2};
    default: return rng.coin() ? valtype{1, 0} : rng.bytes(1 + rng.below(3));
    }
}

valtype PoolBytes(vh::Rng& rng, bool big = true)
{
    static const size_t SIZES[] = {0, 1, 1, 2, 4, 5, 8, 20, 20, 32, 32, 33, 64, 65, 71, 72, 73, 75, 76, 80, 255, 256, 300, 519, 520};
    switch (rng.below(10)) {
    case 0: return {};
    case 1: return PoolBool(rng);
    case 2: return PoolNumEnc(rng);
    case 3: case 4: return rng.bytes(1 + rng.below(8));
    default: {
        size_t n = SIZES[rng.below(sizeof(SIZES) / sizeof(SIZES[0]))];
        if (!big && n > 80) n = 32;
        return rng.bytes(n);
    }
    }
}

// a structurally valid (strict DER, low S, hashtype ALL) signature that verifies for nothing
valtype JunkDerSig(vh::Rng& rng)
{
    valtype s{0x30, 0x06, 0x02, 0x01, static_cast<unsigned char>(1 + rng.below(0x7f)), 0x02, 0x01, static_cast<unsigned char>(1 + rng.below(0x7f)), 0x01};
    if (rng.chance(1, 6)) s.back() = static_cast<unsigned char>(rng.below(256));
    return s;
}

valtype JunkPubKey(vh::Rng& rng)
{
    valtype k = rng.bytes(33);
    k[0] = 2 + rng.below(2);
    switch (rng.below(12)) {
    case 0:
        k = rng.bytes(65);
        k[0] = 4;
        break;
    case 1: k[0] = 6; break;
    case 2: k = rng.bytes(32); break;
    case 3: k.clear(); break;
    default: break;
    }
    return k;
}

// ---------------------------------------------------------------------------------------------------------------
// a case and how it is run and logged

struct Case {
    std::string fam, note;
    bool verify{false};
    script_verify_flags flags{SCRIPT_VERIFY_NONE};
    // EvalScript
    valtype script;
    Stack stack;
    SigVersion sv{SigVersion::BASE};
    int64_t budget{0};
    // VerifyScript
    valtype script_sig, spk;
    Stack wit;
    CMutableTransaction tx;
    unsigned n_in{0};
    CAmount amount{0};
    std::vector<CTxOut> spent;
};

std::string StackJson(const Stack& st)
{
    std::vector<std::string> v;
    v.reserve(st.size());
    for (const auto& x : st) v.push_back("\"" + vh::Hex(x) + "\"");
    return vh::JArr(v);
}

void LogStack(vh::J& j, const char* full, const char* hash, const Stack& st)
{
    size_t tot = 0;
    for (const auto& x : st) tot += x.size() + 1;
    if (tot <= 3000) {
        j.raw(full, StackJson(st));
        return;
    }
    // too large to log: sha256 over (u32le length || bytes) of every item, plus the count
    CSHA256 h;
    for (const auto& x : st) {
        unsigned char l[4] = {static_cast<unsigned char>(x.size()), static_cast<unsigned char>(x.size() >> 8), static_cast<unsigned char>(x.size() >> 16), static_cast<unsigned char>(x.size() >> 24)};
        h.Write(l, 4);
        h.Write(x.data(), x.size());
    }
    unsigned char out[32];
    h.Finalize(out);
    j.str(hash, std::to_string(st.size()) + ":" + vh::Hex(out, 32));
}

int SvNum(SigVersion sv) { return sv == SigVersion::BASE ? 0 : sv == SigVersion::WITNESS_V0 ? 1 : 3; }

void RunCase(uint64_t c, Case& k)
{
    vh::J j;
    j.u("case", c).str("fam", k.fam).str("note", k.note).str("flags", FlagNames(k.flags));
    ScriptError err = SCRIPT_ERR_UNKNOWN_ERROR;
    bool ok;
    if (!k.verify) {
        j.str("k", "E").i("sv", SvNum(k.sv)).hex("script", k.script);
        j.raw("stack", StackJson(k.stack));
        Stack st = k.stack;
        ScriptExecutionData execdata;
        if (k.sv == SigVersion::TAPSCRIPT) {
            execdata.m_validation_weight_left_init = true;
            execdata.m_validation_weight_left = k.budget;
            j.i("bud", k.budget);
        }
        BaseSignatureChecker checker;
        ok = EvalScript(st, ToScript(k.script), k.flags, checker, k.sv, execdata, &err);
        if (ok) LogStack(j, "out", "outh", st);
    } else {
        j.str("k", "V").hex("ss", k.script_sig).hex("spk", k.spk).raw("wit", StackJson(k.wit));
        const CTransaction tx(k.tx);
        DataStream ss;
        ss << TX_NO_WITNESS(tx);
        j.hex("tx", ss).u("n", k.n_in).i("amt", k.amount);
        std::vector<std::string> sp;
        for (const auto& o : k.spent) sp.push_back("[" + std::to_string(o.nValue) + ",\"" + vh::Hex(o.scriptPubKey) + "\"]");
        j.raw("spent", vh::JArr(sp));
        PrecomputedTransactionData txdata;
        txdata.Init(tx, std::vector<CTxOut>(k.spent), /*force=*/true);
        TransactionSignatureChecker checker(&tx, k.n_in, k.amount, txdata, MissingDataBehavior::ASSERT_FAIL);
        CScriptWitness w;
        w.stack = k.wit;
        ok = VerifyScript(ToScript(k.script_sig), ToScript(k.spk), &w, k.flags, checker, &err);
    }
    j.b("ok", ok).str("err", ErrName(err));
    vh::log().rec(j);
    vh::log().obs(ok ? "cases_ok" : "cases_fail");
}

// Prepends stack-neutral filler (<push> OP_DROP blocks, few opcodes) so that the script has exactly `target` bytes.
void PadScriptTo(valtype& script, size_t target, vh::Rng& rng)
{
    valtype pre;
    while (script.size() + pre.size() < target) {
        const size_t r = target - script.size() - pre.size();
        if (r < 4) {
            pre.push_back(0x61);
            continue;
        }
        const size_t n = std::min<size_t>(r - 4, 520);
        SB b;
        b.push(rng.bytes(n), 2).op(0x75);
        pre.insert(pre.end(), b.b.begin(), b.b.end());
    }
    script.insert(script.begin(), pre.begin(), pre.end());
}

SigVersion RandSv(vh::Rng& rng, const valtype& script)
{
    const uint64_t r = rng.below(10);
    SigVersion sv = r < 4 ? SigVersion::BASE : r < 7 ? SigVersion::WITNESS_V0 : SigVersion::TAPSCRIPT;
    // OP_SUCCESSx never reaches EvalScript in a real tapscript spend (it is handled before); those go through the wrap family
    if (sv == SigVersion::TAPSCRIPT && HasOpSuccess(script)) sv = rng.coin() ? SigVersion::BASE : SigVersion::WITNESS_V0;
    return sv;
}

// ---------------------------------------------------------------------------------------------------------------
// family op1: one opcode (any of the 256) on an operand stack from the boundary pools

enum Kind { K_NONE, K_ANY, K_NUM, K_BOOL, K_PICK, K_SIG, K_MSIG, K_CSA, K_PUSH };
struct OpInfo {
    Kind kind;
    int arity;
};

OpInfo Info(unsigned op)
{
    if (op <= 0x4e) return {K_PUSH, 0};
    switch (op) {
    case 0x63: case 0x64: case 0x69: case 0x73: return {K_BOOL, 1};
    case 0x6b: case 0x75: case 0x76: case 0x82: case 0xa6: case 0xa7: case 0xa8: case 0xa9: case 0xaa: return {K_ANY, 1};
    case 0x6d: case 0x6e: case 0x77: case 0x78: case 0x7c: case 0x7d: case 0x87: case 0x88: return {K_ANY, 2};
    case 0x6f: case 0x7b: return {K_ANY, 3};
    case 0x70: case 0x72: return {K_ANY, 4};
    case 0x71: return {K_ANY, 6};
    case 0x79: case 0x7a: return {K_PICK, 2};
    case 0x8b: case 0x8c: case 0x8f: case 0x90: case 0x91: case 0x92: case 0xb1: case 0xb2: return {K_NUM, 1};
    case 0xa5: return {K_NUM, 3};
    case 0xac: case 0xad: return {K_SIG, 2};
    case 0xae: case 0xaf: return {K_MSIG, 0};
    case 0xba: return {K_CSA, 3};
    default:
        if ((op >= 0x93 && op <= 0x94) || (op >= 0x9a && op <= 0xa4)) return {K_NUM, 2};
        return {K_NONE, 0};
    }
}

void MsigOperands(vh::Rng& rng, Stack& st, int nkeys, int nsigs, bool junk_sigs)
{
    st.push_back(rng.chance(1, 10) ? PoolBytes(rng, false) : valtype{}); // the extra element
    for (int i = 0; i < nsigs; ++i) st.push_back(junk_sigs && rng.chance(1, 3) ? JunkDerSig(rng) : valtype{});
    st.push_back(NumEnc(nsigs));
    for (int i = 0; i < nkeys; ++i) st.push_back(JunkPubKey(rng));
    st.push_back(NumEnc(nkeys));
}

void GenOp1(vh::Rng& rng, Case& k, int forced)
{
    k.fam = "op1";
    unsigned op = forced >= 0 ? forced : rng.chance(1, 3) ? rng.below(256) : 0x4c + rng.below(0xbb - 0x4c);
    const OpInfo info = Info(op);
    SB s;
    Stack& st = k.stack;
    const int extra = rng.below(4);
    for (int i = 0; i < extra; ++i) st.push_back(PoolBytes(rng, false));
    const bool typed = !rng.chance(1, 6);
    auto any = [&] { return PoolBytes(rng); };
    switch (info.kind) {
    case K_PUSH: {
        size_t n = op < 0x4c ? op : rng.coin() ? rng.below(80) : rng.below(600);
        valtype d = rng.bytes(n);
        if (n == 1 && rng.coin()) d[0] = rng.below(18);
        s.push(d, op < 0x4c ? 0 : op == 0x4c ? 1 : op == 0x4d ? 2 : 4);
        if (forced < 0 && rng.chance(1, 10) && !s.b.empty()) s.b.resize(s.b.size() - 1 - rng.below(std::min<size_t>(s.b.size(), 3))); // truncated
        break;
    }
    case K_ANY:
        for (int i = 0; i < info.arity; ++i) st.push_back(any());
        if ((op == 0x87 || op == 0x88) && rng.coin()) st.back() = st[st.size() - 2];
        break;
    case K_NUM:
        for (int i = 0; i < info.arity; ++i) st.push_back(typed ? PoolNumEnc(rng) : any());
        break;
    case K_BOOL: st.push_back(typed ? PoolBool(rng) : any()); break;
    case K_PICK: {
        const int depth = rng.chance(1, 8) ? 0 : 1 + rng.below(6);
        for (int i = 0; i < depth; ++i) st.push_back(PoolBytes(rng, false));
        const int64_t total = static_cast<int64_t>(st.size());
        int64_t n;
        switch (rng.below(8)) {
        case 0: n = total; break;
        case 1: n = total - 1; break;
        case 2: n = -1; break;
        case 3: n = 0; break;
        case 4: n = PoolNum(rng); break;
        default: n = total ? rng.below(total) : 0;
        }
        st.push_back(rng.chance(1, 10) ? NonMinimal(NumEnc(n), rng) : NumEnc(n));
        break;
    }
    case K_SIG:
        st.push_back(rng.coin() ? valtype{} : rng.coin() ? JunkDerSig(rng) : any());
        st.push_back(rng.chance(1, 5) ? any() : JunkPubKey(rng));
        break;
    case K_CSA:
        st.push_back(rng.coin() ? valtype{} : rng.coin() ? rng.bytes(64) : any());
        st.push_back(typed ? PoolNumEnc(rng) : any());
        st.push_back(rng.chance(1, 5) ? any() : JunkPubKey(rng));
        break;
    case K_MSIG: {
        const int nk = rng.chance(1, 4) ? 19 + rng.below(3) : rng.below(5);
        const int ns = rng.chance(1, 2) ? 0 : rng.below(nk + 2);
        MsigOperands(rng, st, nk, ns, true);
        if (rng.chance(1, 8)) st.back() = PoolNumEnc(rng);
        break;
    }
    case K_NONE: break;
    }
    if (forced < 0 && info.kind != K_PUSH && info.kind != K_MSIG && info.arity > 0 && rng.chance(1, 10)) {
        // underflow: drop some operands
        const size_t drop = 1 + rng.below(info.arity);
        st.resize(st.size() > drop + extra ? st.size() - drop : 0);
    }
    bool pre_alt = false;
    if (op == 0x6c && !rng.chance(1, 5)) { // FROMALTSTACK needs something there
        st.push_back(any());
        s.op(0x6b);
        pre_alt = true;
    }
    (void)pre_alt;
    if (info.kind != K_PUSH) s.op(op);
    if ((op == 0x63 || op == 0x64) && !rng.chance(1, 4)) {
        s.op(0x51);
        if (rng.coin()) s.op(0x67).op(0x52);
        s.op(0x68);
    } else if (rng.chance(1, 4)) {
        static const unsigned FOLLOW[] = {0x91, 0x69, 0x76, 0x75, 0x74, 0x82, 0x8b, 0x93, 0x87, 0x61, 0x6c, 0x7c};
        s.op(FOLLOW[rng.below(sizeof(FOLLOW) / sizeof(FOLLOW[0]))]);
    }
    k.script = s.b;
    k.flags = RandFlags(rng);
    k.sv = RandSv(rng, k.script);
    k.budget = rng.chance(1, 4) ? rng.range(0, 120) : 10000;
    k.note = "op" + std::to_string(op);
}

// family arith: numeric opcode with operands next to each other / next to the 4-byte boundary
void GenArith(vh::Rng& rng, Case& k)
{
    k.fam = "arith";
    static const unsigned OPS[] = {0x8b, 0x8c, 0x8f, 0x90, 0x91, 0x92, 0x93, 0x94, 0x9a, 0x9b, 0x9c, 0x9d, 0x9e, 0x9f, 0xa0, 0xa1, 0xa2, 0xa3, 0xa4, 0xa5, 0xa5, 0xa5};
    const unsigned op = OPS[rng.below(sizeof(OPS) / sizeof(OPS[0]))];
    const int ar = Info(op).arity;
    const int64_t a = PoolNum(rng);
    int64_t v[3] = {a, a + rng.range(-1, 1), a + rng.range(-1, 2)};
    if (op == 0xa5) { // x lo hi
        const int64_t lo = a, hi = a + rng.range(0, 3);
        v[1] = lo;
        v[2] = hi;
        static const int D[] = {-1, 0, 1};
        v[0] = rng.coin() ? lo + D[rng.below(3)] : hi + D[rng.below(3)];
    }
    if (rng.chance(1, 10)) v[rng.below(3)] = 0;
    SB s;
    const bool via_stack = rng.coin();
    for (int i = 0; i < ar; ++i) {
        valtype e = NumEnc(v[i]);
        if (rng.chance(1, 12)) e = NonMinimal(e, rng);
        if (via_stack) k.stack.push_back(e);
        else if (rng.chance(1, 8)) s.push(e, rng.below(3));
        else s.pushmin(e);
    }
    s.op(op);
    if (rng.chance(1, 3)) {
        static const unsigned FOLLOW[] = {0x8b, 0x8c, 0x8f, 0x91, 0x93, 0x76, 0x82};
        s.op(FOLLOW[rng.below(sizeof(FOLLOW) / sizeof(FOLLOW[0]))]);
    }
    k.script = s.b;
    k.flags = RandFlags(rng);
    k.sv = RandSv(rng, k.script);
    k.budget = 1000;
    k.note = "op" + std::to_string(op);
}

// ---------------------------------------------------------------------------------------------------------------
// family prog: random mostly well-typed programs

struct ProgGen {
    vh::Rng& rng;
    SB s;
    std::vector<char> tags; // 'n' number (small), 'b' bytes
    int alt{0};
    int depth_if{0};
    explicit ProgGen(vh::Rng& r) : rng(r) {}

    int64_t SmallNum() { return rng.chance(1, 12) ? PoolNum(rng) : rng.range(-2, 17); }
    void PushNum()
    {
        const int64_t v = SmallNum();
        if (rng.chance(1, 80)) s.push(NonMinimal(NumEnc(v), rng));
        else if (rng.chance(1, 80)) s.push(NumEnc(v), rng.below(3)); // maybe a non-minimal push form
        else s.num(v);
        tags.push_back('n');
    }
    void PushBytes()
    {
        valtype d = rng.chance(1, 12) ? PoolBytes(rng) : rng.bytes(1 + rng.below(12));
        if (rng.chance(1, 60)) s.push(d, 1 + rng.below(2));
        else s.push(d);
        tags.push_back('b');
    }
    void EnsureNums(size_t n)
    {
        for (;;) {
            size_t have = 0;
            while (have < tags.size() && have < n && tags[tags.size() - 1 - have] == 'n') ++have;
            if (have >= n) return;
            PushNum();
        }
    }
    void EnsureDepth(size_t n)
    {
        while (tags.size() < n) rng.coin() ? PushNum() : PushBytes();
    }
    void Pop(size_t n) { tags.resize(tags.size() - std::min(n, tags.size())); }

    void Junk(int budget)
    {
        // content of a branch that is not executed: anything goes except what invalidates a script wherever it stands
        const int n = rng.below(budget + 1);
        for (int i = 0; i < n; ++i) {
            const uint64_t r = rng.below(100);
            if (r < 25) s.push(rng.bytes(rng.below(6)));
            else if (r < 30) {
                s.op(rng.coin() ? 0x63 : 0x64);
                Junk(2);
                if (rng.coin()) {
                    s.op(0x67);
                    Junk(2);
                }
                s.op(0x68);
            } else if (r < 33 && rng.chance(1, 5)) {
                static const unsigned BAD[] = {0x7e, 0x83, 0x8d, 0x95, 0x99, 0x65, 0x66, 0x81};
                s.op(BAD[rng.below(8)]);
            } else if (r < 36 && rng.chance(1, 3)) {
                s.push(rng.bytes(521 + rng.below(3)), 2); // oversized push in a dead branch
            } else {
                unsigned op;
                do {
                    op = 0x4f + rng.below(256 - 0x4f);
                } while ((op >= 0x63 && op <= 0x68) || op == 0x65 || op == 0x66 || op == 0x7e || op == 0x7f || op == 0x80 || op == 0x81 ||
                         (op >= 0x83 && op <= 0x86) || op == 0x8d || op == 0x8e || (op >= 0x95 && op <= 0x99));
                s.op(op);
            }
        }
    }

    void Step(int level)
    {
        if (rng.chance(1, 300)) {
            s.op(0x4f + rng.below(256 - 0x4f)); // wild
            return;
        }
        if (rng.chance(1, 600)) {
            s.op(0x6a);
            return;
        }
        const uint64_t r = rng.below(97);
        if (r < 13) {
            PushNum();
        } else if (r < 20) {
            PushBytes();
        } else if (r < 29) {
            static const unsigned U[] = {0x8b, 0x8c, 0x8f, 0x90, 0x91, 0x92};
            EnsureNums(1);
            s.op(U[rng.below(6)]);
        } else if (r < 42) {
            static const unsigned B[] = {0x93, 0x94, 0x9a, 0x9b, 0x9c, 0x9e, 0x9f, 0xa0, 0xa1, 0xa2, 0xa3, 0xa4};
            EnsureNums(2);
            s.op(B[rng.below(12)]);
            Pop(1);
        } else if (r < 45) {
            EnsureNums(3);
            s.op(0xa5);
            Pop(2);
        } else if (r < 63) {
            switch (rng.below(16)) {
            case 0: EnsureDepth(1); s.op(0x76); tags.push_back(tags.back()); break;
            case 1: EnsureDepth(2); s.op(0x75); Pop(1); break;
            case 2: EnsureDepth(2); s.op(0x7c); std::swap(tags[tags.size() - 1], tags[tags.size() - 2]); break;
            case 3: EnsureDepth(2); s.op(0x78); tags.push_back(tags[tags.size() - 2]); break;
            case 4: {
                EnsureDepth(3);
                s.op(0x7b);
                const char t = tags[tags.size() - 3];
                tags.erase(tags.end() - 3);
                tags.push_back(t);
                break;
            }
            case 5: EnsureDepth(2); s.op(0x7d); tags.insert(tags.end() - 2, tags.back()); break;
            case 6: EnsureDepth(2); s.op(0x77); tags.erase(tags.end() - 2); break;
            case 7: EnsureDepth(2); s.op(0x6e); tags.insert(tags.end(), tags.end() - 2, tags.end()); break;
            case 8: EnsureDepth(3); s.op(0x6f); { std::vector<char> t(tags.end() - 3, tags.end()); tags.insert(tags.end(), t.begin(), t.end()); } break;
            case 9: EnsureDepth(4); s.op(0x70); { std::vector<char> t(tags.end() - 4, tags.end() - 2); tags.insert(tags.end(), t.begin(), t.end()); } break;
            case 10: EnsureDepth(6); s.op(0x71); { std::vector<char> t(tags.end() - 6, tags.end() - 4); tags.erase(tags.end() - 6, tags.end() - 4); tags.insert(tags.end(), t.begin(), t.end()); } break;
            case 11: EnsureDepth(4); s.op(0x72); { std::vector<char> t(tags.end() - 4, tags.end() - 2); tags.erase(tags.end() - 4, tags.end() - 2); tags.insert(tags.end(), t.begin(), t.end()); } break;
            case 12: EnsureDepth(3); s.op(0x6d); Pop(2); break;
            case 13: s.op(0x74); tags.push_back('n'); break;
            case 14: EnsureDepth(1); s.op(0x82); tags.push_back('n'); break;
            default: // IFDUP on a known non-zero literal
                s.num(1 + rng.below(5));
                s.op(0x73);
                tags.push_back('n');
                tags.push_back('n');
            }
        } else if (r < 68) {
            EnsureDepth(1 + rng.below(4));
            const size_t d = tags.size();
            int64_t n = rng.below(d);
            if (rng.chance(1, 15)) n = rng.coin() ? static_cast<int64_t>(d) : -1;
            const bool roll = rng.coin();
            s.num(n);
            s.op(roll ? 0x7a : 0x79);
            if (n >= 0 && n < static_cast<int64_t>(d)) {
                const char t = tags[d - 1 - n];
                if (roll) tags.erase(tags.begin() + (d - 1 - n));
                tags.push_back(t);
            }
        } else if (r < 72) {
            EnsureDepth(1);
            if (rng.coin()) {
                s.op(0x76).op(rng.chance(1, 3) ? 0x88 : 0x87); // DUP EQUAL / DUP EQUALVERIFY
                if (s.b.back() == 0x88) Pop(1);
                else tags.back() = 'n';
            } else {
                EnsureDepth(2);
                s.op(0x87);
                Pop(2);
                tags.push_back('n');
            }
        } else if (r < 77) {
            static const unsigned H[] = {0xa6, 0xa7, 0xa8, 0xa9, 0xaa};
            EnsureDepth(1);
            s.op(H[rng.below(5)]);
            tags.back() = 'b';
        } else if (r < 80) {
            if (rng.chance(1, 4)) {
                EnsureDepth(1);
                s.op(0x69);
                Pop(1);
            } else {
                s.num(1 + rng.below(16));
                s.op(0x69);
            }
        } else if (r < 87 && level < 3) {
            // IF on a literal condition: the generator knows which branch runs
            static const unsigned char TRUTHY[][2] = {{1, 0}, {2, 0}, {0x81, 0}, {1, 1}};
            const bool cond = rng.coin();
            if (cond) {
                if (rng.chance(1, 6)) {
                    const auto& t = TRUTHY[rng.below(4)];
                    s.push(t[1] ? valtype{t[0], 0} : valtype{t[0]});
                } else s.op(0x51);
            } else {
                if (rng.chance(1, 6)) s.push(rng.coin() ? valtype{0} : valtype{0x80});
                else s.op(0x00);
            }
            const bool notif = rng.chance(1, 3);
            s.op(notif ? 0x64 : 0x63);
            const bool first_runs = cond != notif;
            const int nb = 1 + rng.below(3);
            if (first_runs) for (int i = 0; i < nb; ++i) Step(level + 1);
            else Junk(4);
            if (rng.chance(2, 3)) {
                s.op(0x67);
                if (!first_runs) for (int i = 0; i < nb; ++i) Step(level + 1);
                else Junk(4);
                if (rng.chance(1, 10)) { // a second ELSE flips again
                    s.op(0x67);
                    if (first_runs) Step(level + 1);
                    else Junk(3);
                }
            }
            s.op(0x68);
        } else if (r < 90) {
            static const unsigned N[] = {0x61, 0x61, 0xb0, 0xb3, 0xb9, 0xab, 0xb1, 0xb2};
            const unsigned op = N[rng.below(8)];
            if (op == 0xb1 || op == 0xb2) {
                // lock opcodes: only meaningful with a transaction; here mostly with the disable bit / as NOPs
                s.num(op == 0xb2 && rng.coin() ? (int64_t{1} << 31) + rng.below(100) : SmallNum());
                tags.push_back('n');
            }
            s.op(op);
        } else if (r < 94) {
            // signature opcodes on junk: result is a known-false unless NULLFAIL etc. object
            const bool junk = rng.coin();
            switch (rng.below(3)) {
            case 0:
                s.push(junk ? JunkDerSig(rng) : valtype{});
                s.push(JunkPubKey(rng));
                s.op(0xac);
                break;
            case 1:
                s.op(0x00).push(junk ? JunkDerSig(rng) : valtype{}).op(0x51).push(JunkPubKey(rng)).push(JunkPubKey(rng)).op(0x52).op(0xae);
                break;
            default:
                s.op(0x00).op(0x00).push(JunkPubKey(rng)).op(0x51).op(0xae); // 0-of-1: true
            }
            tags.push_back('n');
            if (rng.coin()) s.op(0x91);
        } else if (r < 97) {
            if (alt > 0 && rng.coin()) {
                s.op(0x6c);
                --alt;
                tags.push_back('b');
            } else {
                EnsureDepth(1);
                s.op(0x6b);
                ++alt;
                Pop(1);
            }
        } else if (r < 99) {
            s.op(0x4f + rng.below(256 - 0x4f)); // wild
        } else {
            s.op(0x6a);
        }
    }
};

// Builds a program; returns the generator's idea of the final main-stack depth.
size_t GenProgram(vh::Rng& rng, valtype& out, Stack& initial, int max_ops)
{
    ProgGen g(rng);
    const int ninit = rng.chance(1, 3) ? rng.below(4) : 0;
    for (int i = 0; i < ninit; ++i) {
        if (rng.coin()) {
            initial.push_back(NumEnc(g.SmallNum()));
            g.tags.push_back('n');
        } else {
            initial.push_back(rng.bytes(1 + rng.below(10)));
            g.tags.push_back('b');
        }
    }
    const int nsteps = 1 + rng.below(max_ops);
    for (int i = 0; i < nsteps; ++i) g.Step(0);
    out = g.s.b;
    return g.tags.size();
}

void GenProg(vh::Rng& rng, Case& k)
{
    k.fam = "prog";
    GenProgram(rng, k.script, k.stack, 60);
    k.flags = RandFlags(rng);
    k.sv = RandSv(rng, k.script);
    k.budget = rng.chance(1, 4) ? rng.range(0, 200) : 10000;
}

// ---------------------------------------------------------------------------------------------------------------
// family cond: conditional grammar stress (balanced and unbalanced), MINIMALIF operands, invalid-anywhere opcodes in dead code

void GenCond(vh::Rng& rng, Case& k)
{
    k.fam = "cond";
    SB s;
    const int n = 1 + rng.below(14);
    int open = 0;
    for (int i = 0; i < n; ++i) {
        const uint64_t r = rng.below(100);
        if (r < 22) {
            if (rng.chance(3, 4)) {
                const valtype b = PoolBool(rng);
                if (rng.chance(1, 5)) s.push(b);
                else s.pushmin(b);
            }
            s.op(rng.chance(1, 3) ? 0x64 : 0x63);
            ++open;
        } else if (r < 38) {
            s.op(0x67);
        } else if (r < 58) {
            s.op(0x68);
            --open;
        } else if (r < 75) {
            s.pushmin(PoolBool(rng));
        } else if (r < 80) {
            s.op(0x61);
        } else if (r < 84) {
            static const unsigned X[] = {0x50, 0x62, 0x65, 0x66, 0x89, 0x8a, 0x7e, 0x8d, 0xba, 0xbb, 0xff, 0x6a, 0xab};
            s.op(X[rng.below(13)]);
        } else if (r < 87) {
            s.push(rng.bytes(519 + rng.below(4)), 2);
        } else if (r < 93) {
            s.op(rng.coin() ? 0x75 : 0x76);
        } else {
            s.op(0x74);
        }
    }
    if (rng.chance(3, 4)) {
        while (open-- > 0) s.op(0x68);
        if (rng.coin()) s.op(0x51);
    }
    const int ninit = rng.below(4);
    for (int i = 0; i < ninit; ++i) k.stack.push_back(PoolBool(rng));
    k.script = s.b;
    k.flags = RandFlags(rng);
    if (rng.chance(1, 3)) k.flags |= SCRIPT_VERIFY_MINIMALIF;
    k.sv = RandSv(rng, k.script);
    k.budget = 10000;
}

// ---------------------------------------------------------------------------------------------------------------
// family limit: every resource limit at / just under / just over

void GenLimit(vh::Rng& rng, Case& k)
{
    k.fam = "limit";
    SB s;
    k.flags = RandFlags(rng);
    k.budget = 100000;
    const uint64_t which = rng.below(8);
    bool want_sv_limited = !rng.chance(1, 5);
    switch (which) {
    case 0: { // push size
        static const size_t SZ[] = {0, 1, 75, 76, 255, 256, 519, 520, 521, 522, 1000};
        const size_t n = rng.chance(3, 4) ? 519 + rng.below(4) : SZ[rng.below(11)];
        const bool dead = rng.chance(1, 4);
        if (dead) s.op(0x00).op(0x63);
        s.push(rng.bytes(n), rng.chance(1, 4) ? 4 : rng.chance(1, 3) ? 1 : 2);
        if (dead) s.op(0x68).op(0x51);
        else if (rng.coin()) s.op(0x82);
        k.note = "push" + std::to_string(n) + (dead ? "dead" : "");
        break;
    }
    case 1: { // opcode count with plain opcodes (also inside a dead branch)
        const int n = 198 + rng.below(6);
        const bool dead = rng.chance(1, 3);
        int cnt = 0;
        if (dead) {
            s.op(0x00).op(0x63);
            cnt = 2; // IF + ENDIF
        }
        static const unsigned C[] = {0x61, 0x61, 0xb0, 0x74, 0x75};
        int depth = 0;
        while (cnt < n) {
            unsigned op = C[rng.below(5)];
            if (op == 0x75 && depth == 0) op = 0x74;
            if (!dead) depth += op == 0x74 ? 1 : op == 0x75 ? -1 : 0;
            else if (op != 0x61) op = 0x61;
            s.op(op);
            ++cnt;
            if (rng.chance(1, 6)) { // push opcodes (everything up to and including OP_16) do not count; OP_RESERVED only when dead
                static const unsigned P[] = {0x60, 0x60, 0x60, 0x4f, 0x51, 0x5f, 0x00, 0x50};
                unsigned q = P[rng.below(dead ? 8 : 7)];
                s.op(q);
                if (q == 0x50 || rng.coin()) continue;
                if (dead || cnt >= n) continue;
                s.op(0x75); // drop it again (counts)
                ++cnt;
            }
        }
        if (dead) s.op(0x68);
        s.op(0x51);
        k.note = "ops" + std::to_string(n);
        break;
    }
    case 2: { // opcode count where CHECKMULTISIG adds its key count
        const int nk = rng.chance(1, 2) ? 20 : rng.below(21);
        const int target = 199 + rng.below(5);
        int plain = target - 1 - nk;
        if (rng.chance(1, 5)) { // second multisig
            plain -= 1 + 1;
            s.op(0x00).op(0x00).push(JunkPubKey(rng)).op(0x51).op(0xae).op(0x75);
            plain -= 1; // the OP_DROP
        }
        for (int i = 0; i < plain; ++i) s.op(0x61);
        Stack st;
        MsigOperands(rng, st, nk, 0, false);
        if (rng.chance(1, 6)) st.erase(st.begin()); // not enough elements as well
        for (const auto& x : st) s.pushmin(x);
        s.op(rng.chance(1, 4) ? 0xaf : 0xae);
        if (s.b.back() == 0xaf) s.op(0x51);
        k.note = "msigops" + std::to_string(target);
        want_sv_limited = true;
        break;
    }
    case 3: { // stack + altstack size
        const int target = 998 + rng.below(5);
        int have = rng.chance(1, 2) ? 950 + rng.below(50) : rng.below(900);
        have = std::min(have, target);
        if (rng.chance(1, 10)) have = target; // all from the initial stack
        for (int i = 0; i < have; ++i) k.stack.push_back(rng.chance(1, 50) ? valtype{1} : valtype{});
        if (have == 0) {
            s.op(0x51);
            have = 1;
        }
        int alt = 0;
        while (have < target) {
            const int room = target - have;
            const uint64_t r = rng.below(10);
            if (r < 3 && room >= 3 && have - alt >= 3) s.op(0x6f), have += 3;
            else if (r < 5 && room >= 2 && have - alt >= 2) s.op(0x6e), have += 2;
            else if (r < 6 && have - alt >= 2) s.op(0x6b), ++alt;
            else if (r < 7) s.op(0x74), have += 1;
            else if (r < 8 && have - alt >= 1) s.op(0x76), have += 1;
            else s.op(0x51), have += 1;
            if (s.b.size() > 5000) break;
        }
        if (rng.coin()) s.op(rng.coin() ? 0x61 : 0x75);
        k.note = "stack" + std::to_string(target);
        break;
    }
    case 4: { // script size
        const size_t target = 9998 + rng.below(5);
        s.op(0x51);
        PadScriptTo(s.b, target, rng);
        k.note = "size" + std::to_string(s.b.size());
        break;
    }
    case 5: { // PICK / ROLL at the edge of a deep stack
        const int depth = rng.chance(1, 3) ? 990 + rng.below(10) : 2 + rng.below(30);
        for (int i = 0; i < depth; ++i) k.stack.push_back(NumEnc(i));
        static const int D[] = {-2, -1, 0, 1};
        const int64_t n = rng.chance(1, 4) ? rng.below(depth) : depth + D[rng.below(4)];
        s.num(n).op(rng.coin() ? 0x79 : 0x7a);
        k.note = "pick";
        break;
    }
    case 6: { // CHECKMULTISIG key / signature counts
        static const int NK[] = {0, 1, 2, 3, 19, 20, 21, 22, -1};
        const int nk = NK[rng.below(9)];
        int ns = rng.chance(1, 2) ? 0 : rng.chance(1, 2) ? nk : nk + rng.range(-1, 1);
        Stack st;
        st.push_back(rng.chance(1, 6) ? valtype{0} : valtype{});
        for (int i = 0; i < std::max(ns, 0); ++i) st.push_back(rng.chance(1, 6) ? JunkDerSig(rng) : valtype{});
        st.push_back(NumEnc(ns));
        for (int i = 0; i < std::max(nk, 0); ++i) st.push_back(JunkPubKey(rng));
        st.push_back(NumEnc(nk));
        if (rng.chance(1, 8)) st.erase(st.begin() + rng.below(st.size()));
        if (rng.coin()) k.stack = st;
        else for (const auto& x : st) s.pushmin(x);
        s.op(rng.chance(1, 4) ? 0xaf : 0xae);
        if (rng.coin()) s.op(0x91);
        k.note = "msig" + std::to_string(nk) + "_" + std::to_string(ns);
        want_sv_limited = true;
        break;
    }
    default: { // 4-byte operand rule: results may overflow, operands may not
        static const int64_t E[] = {2147483647LL, -2147483647LL, 2147483646LL, 2147483648LL, -2147483648LL, 1, -1, 0};
        const int64_t a = E[rng.below(8)], b = E[rng.below(8)];
        s.num(a).num(b).op(rng.coin() ? 0x93 : 0x94);
        if (rng.coin()) s.op(rng.coin() ? 0x8b : 0x8c);
        if (rng.coin()) s.op(0x82);
        k.note = "num4";
    }
    }
    k.script = s.b;
    k.sv = RandSv(rng, k.script);
    if (want_sv_limited && k.sv == SigVersion::TAPSCRIPT) k.sv = rng.coin() ? SigVersion::BASE : SigVersion::WITNESS_V0;
}

// ---------------------------------------------------------------------------------------------------------------
// transaction context for VerifyScript cases

CKey RandKey(vh::Rng& rng, bool compressed = true)
{
    CKey k;
    do {
        const valtype b = rng.bytes(32);
        k.Set(b.begin(), b.end(), compressed);
    } while (!k.IsValid());
    return k;
}

uint256 RandU256(vh::Rng& rng)
{
    const valtype b = rng.bytes(32);
    return uint256{std::span<const unsigned char>{b}};
}

void MakeTx(vh::Rng& rng, Case& k)
{
    static const uint32_t VERS[] = {2, 2, 2, 2, 1, 1, 0, 3, 0xffffffff, 0x80000000};
    static const uint32_t SEQS[] = {0xffffffff, 0xffffffff, 0xfffffffe, 0, 1, 0x0000ffff, 0x00400000, 0x0040ffff, 0x80000000, 0x7fffffff};
    static const uint32_t LOCKS[] = {0, 0, 0, 1, 499999999, 500000000, 500000001, 0xffffffff, 0x7fffffff};
    CMutableTransaction& tx = k.tx;
    tx.version = VERS[rng.below(10)];
    tx.nLockTime = rng.chance(1, 4) ? static_cast<uint32_t>(rng.next()) : LOCKS[rng.below(9)];
    const int nin = 1 + rng.below(3);
    const int nout = rng.chance(1, 10) ? 0 : 1 + rng.below(3);
    for (int i = 0; i < nin; ++i) {
        const uint32_t seq = rng.chance(1, 4) ? static_cast<uint32_t>(rng.next()) : SEQS[rng.below(10)];
        tx.vin.emplace_back(COutPoint(Txid::FromUint256(RandU256(rng)), rng.below(4)), CScript(), seq);
        k.spent.emplace_back(rng.range(0, 2100000000000000LL), ToScript(rng.bytes(rng.coin() ? 22 : 34)));
    }
    for (int i = 0; i < nout; ++i) tx.vout.emplace_back(rng.range(0, 2100000000000000LL), ToScript(rng.bytes(rng.below(35))));
    k.n_in = rng.below(nin);
    k.amount = rng.chance(1, 8) ? 0 : rng.range(1, 2100000000000000LL);
    k.verify = true;
}

void SetSpent(Case& k) { k.spent[k.n_in] = CTxOut(k.amount, ToScript(k.spk)); }

valtype Sha256Of(const valtype& d)
{
    valtype h(32);
    CSHA256().Write(d.data(), d.size()).Finalize(h.data());
    return h;
}
valtype Hash160Of(const valtype& d)
{
    valtype h(20);
    CHash160().Write(d).Finalize(h);
    return h;
}
valtype V(const uint256& u) { return valtype(u.begin(), u.end()); }

struct Tap {
    valtype spk;      // OP_1 <32>
    valtype control;  // for the leaf
    uint256 merkle_root;
    uint256 leaf_hash;
    bool has_tree{false};
};

// Output key for internal key `internal` and, optionally, a leaf at depth `depth` (sibling hashes random).
Tap MakeTap(vh::Rng& rng, const XOnlyPubKey& internal, const valtype* leaf, unsigned leaf_ver, int depth)
{
    Tap t;
    std::optional<std::pair<XOnlyPubKey, bool>> q;
    if (leaf) {
        t.has_tree = true;
        t.leaf_hash = ComputeTapleafHash(leaf_ver & 0xfe, *leaf);
        uint256 h = t.leaf_hash;
        valtype path;
        for (int i = 0; i < depth; ++i) {
            const uint256 sib = RandU256(rng);
            path.insert(path.end(), sib.begin(), sib.end());
            h = ComputeTapbranchHash(h, sib);
        }
        t.merkle_root = h;
        q = internal.CreateTapTweak(&t.merkle_root);
        t.control.push_back((leaf_ver & 0xfe) | (q && q->second ? 1 : 0));
        t.control.insert(t.control.end(), internal.data(), internal.data() + 32);
        t.control.insert(t.control.end(), path.begin(), path.end());
    } else {
        q = internal.CreateTapTweak(nullptr);
    }
    SB s;
    s.op(0x51);
    s.push(q ? valtype(q->first.data(), q->first.data() + 32) : rng.bytes(32));
    t.spk = s.b;
    return t;
}

script_verify_flags WithFlags(vh::Rng& rng, script_verify_flags f, std::initializer_list<script_verify_flag_name> want)
{
    if (!rng.chance(1, 6))
        for (auto w : want) f |= w;
    return FixFlags(f, rng);
}

// ---------------------------------------------------------------------------------------------------------------
// family wrap: a program behind every kind of output (bare, P2SH, P2WSH, P2SH-P2WSH, P2TR script path), with flawed wrappers

void GenWrap(vh::Rng& rng, Case& k)
{
    k.fam = "wrap";
    MakeTx(rng, k);
    valtype prog;
    Stack items;
    if (rng.chance(1, 5)) {
        prog = {0x51};
    } else {
        const size_t depth = GenProgram(rng, prog, items, 14);
        // clean up to exactly one true element (best effort: the generator's depth may be off)
        SB tail;
        if (!rng.chance(1, 8)) {
            size_t d = depth;
            while (d >= 2) tail.op(0x6d), d -= 2;
            if (d) tail.op(0x75);
            tail.op(0x51);
        }
        prog.insert(prog.end(), tail.b.begin(), tail.b.end());
    }
    if (rng.chance(1, 12)) items.push_back(PoolBytes(rng)); // one element too many (CLEANSTACK)
    k.flags = RandFlags(rng);
    SB ss;
    const uint64_t mode = rng.below(10);
    const uint64_t flaw = rng.chance(1, 3) ? 1 + rng.below(8) : 0;
    auto push_items = [&] {
        for (const auto& x : items) {
            if (rng.chance(1, 15)) ss.push(x, rng.below(3));
            else ss.pushmin(x);
        }
    };
    if (mode < 2) { // bare
        k.note = "bare";
        push_items();
        if (flaw == 1) ss.op(0x61);
        k.spk = prog;
        if (flaw == 2) k.wit.push_back(PoolBytes(rng)); // unexpected witness
    } else if (mode < 4) { // P2SH
        k.note = "p2sh";
        k.flags = WithFlags(rng, k.flags, {SCRIPT_VERIFY_P2SH});
        push_items();
        if (flaw == 1) ss.op(0x61);
        ss.push(prog, flaw == 3 ? 2 : -1);
        valtype h = Hash160Of(prog);
        if (flaw == 4) h[rng.below(20)] ^= 1;
        if (flaw == 2) k.wit.push_back(PoolBytes(rng));
        SB p;
        p.op(0xa9).push(h).op(0x87);
        if (flaw == 5) p.op(0x61); // no longer the P2SH pattern
        k.spk = p.b;
    } else if (mode < 7) { // P2WSH, native or P2SH-wrapped
        const bool wrapped = mode == 6;
        k.note = wrapped ? "p2sh-p2wsh" : "p2wsh";
        k.flags = WithFlags(rng, k.flags, {SCRIPT_VERIFY_P2SH, SCRIPT_VERIFY_WITNESS});
        if (rng.chance(1, 30)) { // a witness script over the size limit
            PadScriptTo(prog, 9999 + rng.below(4), rng);
        }
        k.wit = items;
        if (flaw == 6 && !k.wit.empty()) k.wit[rng.below(k.wit.size())] = rng.bytes(521);
        k.wit.push_back(prog);
        valtype h = Sha256Of(prog);
        if (flaw == 4) h[rng.below(32)] ^= 1;
        if (flaw == 7) h.resize(rng.coin() ? 31 : 33); // wrong program length
        if (flaw == 8) k.wit.clear();
        SB p;
        p.op(flaw == 5 ? 0x52 + rng.below(15) : 0x00).push(h);
        if (wrapped) {
            ss.push(p.b, flaw == 3 ? 1 : -1);
            if (flaw == 1) ss.b.insert(ss.b.begin(), 0x00); // one more push in front
            SB q;
            q.op(0xa9).push(Hash160Of(p.b)).op(0x87);
            k.spk = q.b;
        } else {
            k.spk = p.b;
            if (flaw == 1) ss.op(0x00);
        }
    } else if (mode < 9) { // P2TR script path
        k.note = "p2tr";
        k.flags = WithFlags(rng, k.flags, {SCRIPT_VERIFY_P2SH, SCRIPT_VERIFY_WITNESS, SCRIPT_VERIFY_TAPROOT});
        const CKey key = RandKey(rng);
        const XOnlyPubKey internal{key.GetPubKey()};
        const unsigned leaf_ver = flaw == 5 ? 0xc2 + 2 * rng.below(8) : 0xc0;
        const int depth = rng.below(4);
        if (rng.chance(1, 25)) prog.insert(prog.begin(), 0xbb + rng.below(0xfe - 0xbb + 1)); // OP_SUCCESSx in front
        if (rng.chance(1, 6)) {
            // an opcode at the edge of one of the OP_SUCCESSx ranges, in front or inside a dead branch
            static const unsigned EDGE[] = {79, 80, 81, 97, 98, 125, 126, 129, 130, 131, 134, 135, 136, 137, 138, 139, 140, 141, 142, 143,
                                            148, 149, 153, 154, 186, 187, 188, 253, 254, 255};
            const unsigned e = EDGE[rng.below(sizeof(EDGE) / sizeof(EDGE[0]))];
            if (rng.coin()) prog.insert(prog.begin(), e);
            else {
                const unsigned char dead[] = {0x00, 0x63, static_cast<unsigned char>(e), 0x68};
                prog.insert(prog.begin(), dead, dead + 4);
            }
        }
        Tap t = MakeTap(rng, internal, &prog, leaf_ver, depth);
        k.wit = items;
        if (flaw == 6 && !k.wit.empty()) k.wit[rng.below(k.wit.size())] = rng.bytes(521);
        if (rng.chance(1, 40)) { // initial stack at the limit
            const size_t n = 999 + rng.below(3);
            while (k.wit.size() < n) k.wit.insert(k.wit.begin(), valtype{});
        }
        k.wit.push_back(prog);
        valtype control = t.control;
        if (flaw == 1) control[0] ^= 1;
        if (flaw == 2) control.push_back(0);
        if (flaw == 3 && control.size() > 33) control[33 + rng.below(control.size() - 33)] ^= 0x10;
        if (flaw == 4) control[1 + rng.below(32)] ^= 0x04;
        if (flaw == 7) control.resize(rng.coin() ? 32 : 33 + 32 * 129);
        k.wit.push_back(control);
        if (rng.chance(1, 8)) {
            valtype annex = rng.bytes(1 + rng.below(10));
            annex[0] = 0x50;
            k.wit.push_back(annex);
        }
        k.spk = t.spk;
        if (flaw == 8) { // P2SH-wrapped v1 program: not taproot
            ss.push(t.spk);
            SB q;
            q.op(0xa9).push(Hash160Of(t.spk)).op(0x87);
            k.spk = q.b;
        }
    } else { // other witness programs: unknown versions / lengths, pay-to-anchor
        k.note = "witprog";
        k.flags = WithFlags(rng, k.flags, {SCRIPT_VERIFY_P2SH, SCRIPT_VERIFY_WITNESS, SCRIPT_VERIFY_TAPROOT});
        static const size_t LENS[] = {1, 2, 2, 20, 31, 32, 33, 40, 41};
        const size_t len = LENS[rng.below(9)];
        valtype p = rng.bytes(len);
        if (len == 2 && rng.coin()) p = {0x4e, 0x73};
        SB q;
        q.op(rng.chance(1, 4) ? 0x00 : rng.chance(1, 3) ? 0x51 : 0x52 + rng.below(15)).push(p);
        if (rng.chance(1, 10)) q.b[0] = 0x4f;
        k.wit = items;
        if (rng.chance(1, 4)) {
            ss.push(q.b);
            SB w;
            w.op(0xa9).push(Hash160Of(q.b)).op(0x87);
            k.spk = w.b;
        } else {
            k.spk = q.b;
        }
    }
    k.script_sig = ss.b;
    SetSpent(k);
}

// table part of family wrap: opcode value `op` as the first operation of a tapscript leaf (classification OP_SUCCESSx / not)
void GenTapOp(vh::Rng& rng, Case& k, unsigned op)
{
    k.fam = "wrap";
    k.note = "p2tr-op" + std::to_string(op);
    MakeTx(rng, k);
    k.flags = RandFlags(rng);
    k.flags |= script_verify_flags{SCRIPT_VERIFY_P2SH} | SCRIPT_VERIFY_WITNESS | SCRIPT_VERIFY_TAPROOT;
    if (rng.chance(3, 4)) k.flags &= ~SCRIPT_VERIFY_DISCOURAGE_OP_SUCCESS;
    SB prog;
    if (rng.coin()) prog.op(0x00).op(0x63); // dead branch
    if (op <= 0x4e) prog.push(rng.bytes(op < 0x4c ? op : 3), op < 0x4c ? 0 : op == 0x4c ? 1 : op == 0x4d ? 2 : 4);
    else prog.op(op);
    if (prog.b[0] == 0x00 && prog.b.size() > 1 && prog.b[1] == 0x63) prog.op(0x68);
    prog.op(0x51);
    k.wit.push_back(NumEnc(rng.range(0, 5)));
    k.wit.push_back(NumEnc(rng.range(0, 5)));
    const CKey key = RandKey(rng);
    Tap t = MakeTap(rng, XOnlyPubKey{key.GetPubKey()}, &prog.b, 0xc0, rng.below(3));
    k.wit.push_back(prog.b);
    k.wit.push_back(t.control);
    k.spk = t.spk;
    SetSpent(k);
}

// ---------------------------------------------------------------------------------------------------------------
// family lock: CHECKLOCKTIMEVERIFY / CHECKSEQUENCEVERIFY against transaction fields at and around every boundary

void GenLock(vh::Rng& rng, Case& k)
{
    k.fam = "lock";
    MakeTx(rng, k);
    k.flags = WithFlags(rng, RandFlags(rng), {SCRIPT_VERIFY_CHECKLOCKTIMEVERIFY, SCRIPT_VERIFY_CHECKSEQUENCEVERIFY});
    const bool csv = rng.coin();
    int64_t operand;
    static const int D[] = {-1, 0, 0, 1};
    if (!csv) {
        const uint32_t lt = k.tx.nLockTime;
        switch (rng.below(6)) {
        case 0: operand = int64_t{lt} + D[rng.below(4)]; break;
        case 1: operand = 500000000 + D[rng.below(4)]; break;
        case 2: operand = rng.below(int64_t{lt} + 1); break;
        case 3: operand = PoolNum(rng); break;
        case 4: operand = -1; break;
        default: operand = int64_t{lt};
        }
        if (rng.chance(1, 3)) k.tx.vin[k.n_in].nSequence = rng.coin() ? 0xffffffff : 0xfffffffe;
    } else {
        if (rng.chance(2, 3)) k.tx.version = 2;
        uint32_t& seq = k.tx.vin[k.n_in].nSequence;
        if (rng.chance(2, 3)) seq &= 0x7fffffff;
        switch (rng.below(7)) {
        case 0: operand = int64_t{seq & 0x0040ffff} + D[rng.below(4)]; break;
        case 1: operand = int64_t{seq} + D[rng.below(4)]; break;
        case 2: operand = (int64_t{seq & 0x0040ffff} ^ 0x00400000); break;
        case 3: operand = (int64_t{1} << 31) | rng.below(70000); break;
        case 4: operand = PoolNum(rng); break;
        case 5: operand = int64_t{seq & 0xffff} | (rng.next() & 0x7fbf0000); break; // noise in the unconstrained bits
        default: operand = int64_t{seq & 0x0040ffff};
        }
    }
    if (operand < -(int64_t{1} << 40)) operand = -1;
    SB s;
    valtype e = NumEnc(operand);
    if (rng.chance(1, 12)) e = NonMinimal(e, rng);
    if (rng.chance(1, 15)) s.op(0x61); // nothing on the stack / something else
    else s.pushmin(e);
    s.op(csv ? 0xb2 : 0xb1);
    if (rng.chance(3, 4)) s.op(0x75).op(0x51);
    k.spk = s.b;
    k.note = csv ? "csv" : "cltv";
    SetSpent(k);
}

// ---------------------------------------------------------------------------------------------------------------
// family sig: structured spends with real signatures, valid and flawed

enum SigFlaw { SF_NONE, SF_FLIP, SF_HT_SWAP, SF_HT_ODD, SF_HIGH_S, SF_PADDED, SF_WRONG_KEY, SF_WRONG_AMOUNT, SF_EMPTY, SF_WRONG_CODE, SF_N };
const char* const SF_NAMES[] = {"", "flip", "htswap", "htodd", "highs", "padded", "wrongkey", "wrongamt", "empty", "wrongcode"};

SigFlaw RandFlaw(vh::Rng& rng) { return rng.chance(1, 2) ? SF_NONE : static_cast<SigFlaw>(1 + rng.below(SF_N - 1)); }

const unsigned char ORDER_N[32] = {0xFF, 0xFF, 0xFF, 0xFF, 0xFF, 0xFF, 0xFF, 0xFF, 0xFF, 0xFF, 0xFF, 0xFF, 0xFF, 0xFF, 0xFF, 0xFE,
                                   0xBA, 0xAE, 0xDC, 0xE6, 0xAF, 0x48, 0xA0, 0x3B, 0xBF, 0xD2, 0x5E, 0x8C, 0xD0, 0x36, 0x41, 0x41};

void DerInt(valtype& out, const valtype& be, bool pad)
{
    size_t i = 0;
    while (i + 1 < be.size() && be[i] == 0) ++i;
    valtype v(be.begin() + i, be.end());
    if (v[0] & 0x80) v.insert(v.begin(), 0);
    if (pad) v.insert(v.begin(), 0);
    out.push_back(0x02);
    out.push_back(v.size());
    out.insert(out.end(), v.begin(), v.end());
}

// re-encode a strict DER signature (no hashtype byte) with S negated and/or R padded with a superfluous zero byte
valtype DerMutate(const valtype& sig, bool negate_s, bool pad_r)
{
    const size_t lr = sig[3];
    valtype r(sig.begin() + 4, sig.begin() + 4 + lr);
    const size_t ls = sig[5 + lr];
    valtype s(sig.begin() + 6 + lr, sig.begin() + 6 + lr + ls);
    if (negate_s) {
        valtype s32(32, 0);
        while (s.size() > 32) s.erase(s.begin());
        std::copy(s.begin(), s.end(), s32.begin() + (32 - s.size()));
        int borrow = 0;
        for (int i = 31; i >= 0; --i) {
            int d = int{ORDER_N[i]} - int{s32[i]} - borrow;
            borrow = d < 0;
            s32[i] = static_cast<unsigned char>(d & 0xff);
        }
        s = s32;
    }
    valtype body;
    DerInt(body, r, pad_r);
    DerInt(body, s, false);
    valtype out{0x30, static_cast<unsigned char>(body.size())};
    out.insert(out.end(), body.begin(), body.end());
    return out;
}

valtype EcdsaSig(vh::Rng& rng, const CKey& key, const valtype& code, const Case& k, SigVersion sv, SigFlaw flaw)
{
    if (flaw == SF_EMPTY) return {};
    static const int HT[] = {1, 2, 3, 0x81, 0x82, 0x83};
    static const int ODD[] = {0, 4, 0x50, 0x7f, 0x80, 0x84, 0xff, 0x41, 0x21};
    int ht = rng.coin() ? 1 : HT[rng.below(6)];
    if (flaw == SF_HT_ODD) ht = ODD[rng.below(9)];
    valtype c = code;
    if (flaw == SF_WRONG_CODE) c.push_back(0x61);
    const CAmount amt = k.amount + (flaw == SF_WRONG_AMOUNT ? 1 : 0);
    const CKey signer = flaw == SF_WRONG_KEY ? RandKey(rng) : key;
    const uint256 h = SignatureHash(ToScript(c), k.tx, k.n_in, ht, amt, sv);
    std::vector<unsigned char> sig;
    signer.Sign(h, sig);
    if (flaw == SF_HIGH_S) sig = DerMutate(sig, true, false);
    if (flaw == SF_PADDED) sig = DerMutate(sig, false, true);
    if (flaw == SF_FLIP) sig[4 + rng.below(sig.size() - 4)] ^= 1 << rng.below(8);
    sig.push_back(flaw == SF_HT_SWAP ? (ht == 1 ? 2 : 1) : ht);
    return sig;
}

valtype PubBytes(vh::Rng& rng, CKey& key, int form)
{
    // form 0 compressed, 1 uncompressed, 2 hybrid
    valtype raw;
    for (const std::byte b : key) raw.push_back(std::to_integer<unsigned char>(b));
    CKey k2;
    k2.Set(raw.begin(), raw.end(), form == 0);
    key = k2;
    const CPubKey pk = key.GetPubKey();
    valtype b(pk.begin(), pk.end());
    if (form == 2) b[0] = 6 | (b[64] & 1);
    (void)rng;
    return b;
}

int RandPubForm(vh::Rng& rng) { return rng.chance(3, 4) ? 0 : rng.chance(2, 3) ? 1 : 2; }

struct Inner {
    valtype script;
    Stack sat;
    std::string note;
};

// a script of the legacy / v0 family with a satisfaction carrying real signatures
Inner MakeInner(vh::Rng& rng, const Case& k, SigVersion sv, SigFlaw flaw)
{
    Inner in;
    const bool neg = rng.chance(1, 6);
    const uint64_t kind = rng.below(sv == SigVersion::BASE ? 10 : 9);
    if (kind < 3) { // <pk> CHECKSIG
        CKey key = RandKey(rng);
        SB s;
        s.push(PubBytes(rng, key, RandPubForm(rng))).op(0xac);
        if (neg) s.op(0x91);
        in.script = s.b;
        in.sat.push_back(EcdsaSig(rng, key, in.script, k, sv, flaw));
        in.note = "pk";
    } else if (kind < 5) { // DUP HASH160 <h> EQUALVERIFY CHECKSIG
        CKey key = RandKey(rng);
        valtype pk = PubBytes(rng, key, RandPubForm(rng));
        valtype h = Hash160Of(pk);
        if (rng.chance(1, 12)) h[0] ^= 1;
        SB s;
        s.op(0x76).op(0xa9).push(h).op(0x88).op(0xac);
        if (neg) s.op(0x91);
        in.script = s.b;
        in.sat.push_back(EcdsaSig(rng, key, in.script, k, sv, flaw));
        in.sat.push_back(pk);
        in.note = "pkh";
    } else if (kind < 8) { // m-of-n CHECKMULTISIG
        const int n = rng.chance(1, 30) ? 20 : 1 + rng.below(4);
        const int m = n == 20 ? 1 + rng.below(2) : 1 + rng.below(n);
        std::vector<CKey> keys;
        SB s;
        s.num(m);
        for (int i = 0; i < n; ++i) {
            keys.push_back(RandKey(rng));
            s.push(PubBytes(rng, keys.back(), rng.chance(7, 8) ? 0 : RandPubForm(rng)));
        }
        s.num(n).op(rng.chance(1, 5) ? 0xaf : 0xae);
        if (s.b.back() == 0xaf) s.op(0x51);
        if (neg) s.op(0x91);
        in.script = s.b;
        std::vector<int> idx(n);
        for (int i = 0; i < n; ++i) idx[i] = i;
        rng.shuffle(idx);
        idx.resize(m);
        std::sort(idx.begin(), idx.end());
        const int bad = rng.below(m);
        Stack sigs;
        for (int i = 0; i < m; ++i) sigs.push_back(EcdsaSig(rng, keys[idx[i]], in.script, k, sv, i == bad ? flaw : SF_NONE));
        valtype dummy;
        switch (rng.below(14)) {
        case 0: if (m >= 2) std::swap(sigs[0], sigs[m - 1]); break;
        case 1: sigs.pop_back(); break;
        case 2: sigs.push_back(sigs.back()); break;
        case 3: dummy = {0}; break;
        case 4: dummy = rng.bytes(1 + rng.below(3)); break;
        case 5: for (auto& x : sigs) x.clear(); break;
        default: break;
        }
        in.sat.push_back(dummy);
        for (auto& x : sigs) in.sat.push_back(x);
        in.note = "msig" + std::to_string(m) + "of" + std::to_string(n);
    } else if (kind < 9) { // <pk1> CHECKSIGVERIFY CODESEPARATOR <pk2> CHECKSIG
        CKey k1 = RandKey(rng), k2 = RandKey(rng);
        SB a, b;
        a.push(PubBytes(rng, k1, 0)).op(0xad).op(0xab);
        b.push(PubBytes(rng, k2, 0)).op(0xac);
        if (neg) b.op(0x91);
        valtype full = a.b;
        full.insert(full.end(), b.b.begin(), b.b.end());
        in.script = full;
        const bool which = rng.coin();
        in.sat.push_back(EcdsaSig(rng, k2, rng.chance(1, 8) ? full : b.b, k, sv, which ? flaw : SF_NONE));
        in.sat.push_back(EcdsaSig(rng, k1, full, k, sv, which ? SF_NONE : flaw));
        in.note = "codesep";
    } else { // legacy only: the script contains its own signature (removed from the signed code)
        CKey key = RandKey(rng);
        SB tail;
        tail.op(0x75).push(PubBytes(rng, key, 0)).op(0xac);
        if (neg) tail.op(0x91);
        const valtype sig = EcdsaSig(rng, key, tail.b, k, sv, flaw);
        SB s;
        s.push(sig).cat(tail.b);
        in.script = s.b;
        in.sat.push_back(sig);
        in.note = "findanddelete";
    }
    if (neg) in.note += "-not";
    return in;
}

valtype SchnorrSig(vh::Rng& rng, const CKey& key, const Case& k, SigVersion sv, int ht, const uint256* keypath_root, const uint256& leaf_hash,
                   uint32_t codesep, const valtype* annex)
{
    PrecomputedTransactionData txdata;
    txdata.Init(k.tx, std::vector<CTxOut>(k.spent), /*force=*/true);
    ScriptExecutionData ed;
    ed.m_annex_init = true;
    ed.m_annex_present = annex != nullptr;
    if (annex) ed.m_annex_hash = (HashWriter{} << *annex).GetSHA256();
    if (sv == SigVersion::TAPSCRIPT) {
        ed.m_tapleaf_hash = leaf_hash;
        ed.m_tapleaf_hash_init = true;
        ed.m_codeseparator_pos = codesep;
        ed.m_codeseparator_pos_init = true;
    }
    uint256 h;
    if (!SignatureHashSchnorr(h, ed, k.tx, k.n_in, static_cast<uint8_t>(ht), sv, txdata, MissingDataBehavior::FAIL)) h = RandU256(rng);
    valtype sig(64);
    key.SignSchnorr(h, sig, keypath_root, RandU256(rng));
    if (ht) sig.push_back(static_cast<unsigned char>(ht));
    return sig;
}

enum TapFlaw { TF_NONE, TF_FLIP, TF_BAD_HT, TF_SIZE, TF_WRONG_KEY, TF_ANNEX_ADDED, TF_WRONG_SPENT, TF_EMPTY, TF_WRONG_LEAF, TF_WRONG_CODESEP, TF_EXPLICIT_DEFAULT, TF_N };
const char* const TF_NAMES[] = {"", "flip", "badht", "size", "wrongkey", "annexadded", "wrongspent", "empty", "wrongleaf", "wrongcodesep", "explicit0"};

int RandTapHt(vh::Rng& rng, TapFlaw flaw)
{
    static const int HT[] = {0, 0, 0, 1, 2, 3, 0x81, 0x82, 0x83};
    static const int BAD[] = {4, 0x80, 0x84, 0xff, 0x7f, 0x40};
    return flaw == TF_BAD_HT ? BAD[rng.below(6)] : HT[rng.below(9)];
}

valtype TapSig(vh::Rng& rng, const CKey& key, Case& k, SigVersion sv, TapFlaw flaw, const uint256* keypath_root, uint256 leaf_hash, uint32_t codesep,
               const valtype* annex)
{
    if (flaw == TF_EMPTY) return {};
    const int ht = RandTapHt(rng, flaw);
    if (flaw == TF_WRONG_LEAF) leaf_hash = RandU256(rng);
    if (flaw == TF_WRONG_CODESEP) codesep = codesep == 0xffffffff ? 0 : codesep + 1;
    const CKey signer = flaw == TF_WRONG_KEY ? RandKey(rng) : key;
    valtype sig = SchnorrSig(rng, signer, k, sv, ht, keypath_root, leaf_hash, codesep, annex);
    if (flaw == TF_FLIP) sig[rng.below(64)] ^= 1 << rng.below(8);
    if (flaw == TF_SIZE) rng.coin() ? sig.push_back(1) : sig.pop_back();
    if (flaw == TF_EXPLICIT_DEFAULT && sig.size() == 64) sig.push_back(0);
    return sig;
}

valtype XOnlyBytes(const CKey& key)
{
    const XOnlyPubKey x{key.GetPubKey()};
    return valtype(x.data(), x.data() + 32);
}

size_t WitnessSize(const Stack& w)
{
    auto cs = [](size_t n) { return n < 253 ? 1 : n <= 0xffff ? 3 : 5; };
    size_t t = cs(w.size());
    for (const auto& x : w) t += cs(x.size()) + x.size();
    return t;
}

void GenSig(vh::Rng& rng, Case& k)
{
    k.fam = "sig";
    MakeTx(rng, k);
    k.flags = RandFlags(rng);
    const uint64_t type = rng.below(13);
    SB ss;
    if (type < 4) { // legacy: bare or P2SH
        const SigFlaw flaw = RandFlaw(rng);
        Inner in = MakeInner(rng, k, SigVersion::BASE, flaw);
        for (const auto& x : in.sat) ss.pushmin(x);
        if (type < 2) {
            k.spk = in.script;
            k.note = "bare-" + in.note;
        } else {
            k.flags = WithFlags(rng, k.flags, {SCRIPT_VERIFY_P2SH});
            ss.push(in.script);
            SB p;
            p.op(0xa9).push(Hash160Of(in.script)).op(0x87);
            k.spk = p.b;
            k.note = "p2sh-" + in.note;
        }
        k.note += std::string(flaw ? "/" : "") + SF_NAMES[flaw];
    } else if (type < 6) { // P2WPKH, native or wrapped
        const SigFlaw flaw = RandFlaw(rng);
        k.flags = WithFlags(rng, k.flags, {SCRIPT_VERIFY_P2SH, SCRIPT_VERIFY_WITNESS});
        CKey key = RandKey(rng);
        valtype pk = PubBytes(rng, key, rng.chance(7, 8) ? 0 : RandPubForm(rng));
        SB code, prog;
        code.op(0x76).op(0xa9).push(Hash160Of(pk)).op(0x88).op(0xac);
        prog.op(0x00).push(Hash160Of(pk));
        if (rng.chance(1, 15)) prog.b[5] ^= 1;
        k.wit.push_back(EcdsaSig(rng, key, code.b, k, SigVersion::WITNESS_V0, flaw));
        k.wit.push_back(pk);
        if (rng.chance(1, 20)) k.wit.push_back({});
        if (type == 5) {
            ss.push(prog.b);
            SB p;
            p.op(0xa9).push(Hash160Of(prog.b)).op(0x87);
            k.spk = p.b;
            k.note = "p2sh-p2wpkh";
        } else {
            k.spk = prog.b;
            k.note = "p2wpkh";
        }
        k.note += std::string(flaw ? "/" : "") + SF_NAMES[flaw];
    } else if (type < 8) { // P2WSH, native or wrapped
        const SigFlaw flaw = RandFlaw(rng);
        k.flags = WithFlags(rng, k.flags, {SCRIPT_VERIFY_P2SH, SCRIPT_VERIFY_WITNESS});
        Inner in = MakeInner(rng, k, SigVersion::WITNESS_V0, flaw);
        k.wit = in.sat;
        k.wit.push_back(in.script);
        SB prog;
        prog.op(0x00).push(Sha256Of(in.script));
        if (type == 7) {
            ss.push(prog.b);
            SB p;
            p.op(0xa9).push(Hash160Of(prog.b)).op(0x87);
            k.spk = p.b;
            k.note = "p2sh-p2wsh-" + in.note;
        } else {
            k.spk = prog.b;
            k.note = "p2wsh-" + in.note;
        }
        k.note += std::string(flaw ? "/" : "") + SF_NAMES[flaw];
    } else {
        k.flags = WithFlags(rng, k.flags, {SCRIPT_VERIFY_P2SH, SCRIPT_VERIFY_WITNESS, SCRIPT_VERIFY_TAPROOT});
        TapFlaw flaw = rng.coin() ? TF_NONE : static_cast<TapFlaw>(1 + rng.below(TF_N - 1));
        const CKey ikey = RandKey(rng);
        const XOnlyPubKey internal{ikey.GetPubKey()};
        valtype annex;
        const valtype* annexp = nullptr;
        if (rng.chance(1, 6) && flaw != TF_ANNEX_ADDED) {
            annex = rng.bytes(1 + rng.below(20));
            annex[0] = 0x50;
            annexp = &annex;
        }
        if (type == 8) { // key path
            if (flaw == TF_WRONG_LEAF || flaw == TF_WRONG_CODESEP || flaw == TF_EMPTY) flaw = TF_NONE;
            const bool tree = rng.coin();
            const valtype fake_leaf = rng.bytes(5);
            Tap t = MakeTap(rng, internal, tree ? &fake_leaf : nullptr, 0xc0, rng.below(3));
            k.spk = t.spk;
            SetSpent(k);
            const uint256 zero;
            valtype sig = TapSig(rng, ikey, k, SigVersion::TAPROOT, flaw, tree ? &t.merkle_root : &zero, uint256(), 0xffffffff, annexp);
            k.wit.push_back(sig);
            k.note = "p2tr-key";
        } else {
            const bool neg = rng.chance(1, 6);
            SB leaf;
            std::vector<std::pair<CKey, uint32_t>> signers; // key, codeseparator position in force; witness order = reverse
            std::vector<bool> sign_it;
            if (type == 9 || type == 10) {
                const uint64_t v = type == 10 ? 4 : rng.below(4);
                CKey k1 = RandKey(rng), k2 = RandKey(rng);
                const valtype x1 = XOnlyBytes(k1), x2 = XOnlyBytes(k2);
                if (v == 0) {
                    leaf.push(x1).op(0xac);
                    signers = {{k1, 0xffffffff}};
                    k.note = "tap-pk";
                } else if (v == 1) {
                    leaf.push(x1).op(0xad).push(x2).op(0xac);
                    signers = {{k1, 0xffffffff}, {k2, 0xffffffff}};
                    k.note = "tap-2pk";
                } else if (v == 2) {
                    leaf.push(x1).op(0xad).op(0xab).push(x2).op(0xac);
                    signers = {{k1, 0xffffffff}, {k2, 2}};
                    k.note = "tap-codesep";
                } else if (v == 3) {
                    leaf.op(0x00).op(0x63).op(0xab).op(0x68).push(x1).op(0xac);
                    signers = {{k1, 0xffffffff}};
                    k.note = "tap-deadcodesep";
                } else { // k-of-n with CHECKSIGADD
                    const int n = 2 + rng.below(4);
                    const int m = 1 + rng.below(n);
                    std::vector<int> idx(n);
                    for (int i = 0; i < n; ++i) idx[i] = i;
                    rng.shuffle(idx);
                    sign_it.assign(n, false);
                    for (int i = 0; i < m; ++i) sign_it[idx[i]] = true;
                    if (rng.chance(1, 10)) sign_it[idx[m % n]] = !sign_it[idx[m % n]]; // one too many / too few
                    for (int i = 0; i < n; ++i) {
                        CKey ki = RandKey(rng);
                        const XOnlyPubKey xi{ki.GetPubKey()};
                        leaf.push(valtype(xi.data(), xi.data() + 32)).op(i == 0 ? 0xac : 0xba);
                        signers.push_back({ki, 0xffffffff});
                    }
                    leaf.num(m).op(rng.chance(1, 5) ? 0xa2 : 0x9c);
                    k.note = "tap-multia" + std::to_string(m) + "of" + std::to_string(n);
                }
                if (neg) leaf.op(0x91), k.note += "-not";
                const int depth = rng.below(4);
                Tap t = MakeTap(rng, internal, &leaf.b, 0xc0, depth);
                k.spk = t.spk;
                SetSpent(k);
                const size_t badi = rng.below(signers.size());
                for (size_t i = signers.size(); i-- > 0;) {
                    if (!sign_it.empty() && !sign_it[i]) {
                        k.wit.push_back({});
                        continue;
                    }
                    k.wit.push_back(TapSig(rng, signers[i].first, k, SigVersion::TAPSCRIPT, i == badi ? flaw : TF_NONE, nullptr, t.leaf_hash, signers[i].second, annexp));
                }
                k.wit.push_back(leaf.b);
                k.wit.push_back(t.control);
            } else { // validation weight budget; unknown / empty public key types
                const bool real = rng.chance(1, 3);
                CKey k1 = RandKey(rng);
                valtype pk;
                if (real) pk = XOnlyBytes(k1);
                else pk = rng.chance(1, 8) ? valtype{} : rng.bytes(rng.coin() ? 33 : 1 + rng.below(40));
                if (pk.size() == 32 && !real) pk.push_back(0);
                int reps = real ? rng.below(3) : rng.below(8);
                const int want = static_cast<int>(rng.range(-2, 2)); // budget left after the last check
                int nops = 0;
                const int depth = rng.below(3);
                if (flaw != TF_NONE && !real) flaw = TF_NONE;
                if (flaw == TF_EMPTY || flaw == TF_WRONG_LEAF || flaw == TF_WRONG_CODESEP || flaw == TF_ANNEX_ADDED) flaw = TF_NONE;
                const bool at_limit = rng.chance(3, 4);
                for (int iter = 0; iter < 400; ++iter) {
                    SB l;
                    for (int i = 0; i < nops; ++i) l.op(0x61);
                    l.push(pk);
                    for (int i = 0; i < reps; ++i) l.op(0x6e).op(0xad);
                    l.op(0xac);
                    if (neg) l.op(0x91);
                    leaf = l;
                    Stack w;
                    w.push_back(valtype(real ? 64 : 1, 1));
                    w.push_back(leaf.b);
                    w.push_back(valtype(33 + 32 * depth));
                    if (annexp) w.push_back(annex);
                    if (!at_limit) break;
                    const int64_t left = static_cast<int64_t>(WitnessSize(w)) + 50 - 50 * (reps + 1);
                    if (left == want) break;
                    if (left > want) ++reps;
                    else ++nops;
                }
                Tap t = MakeTap(rng, internal, &leaf.b, 0xc0, depth);
                k.spk = t.spk;
                SetSpent(k);
                if (real) k.wit.push_back(TapSig(rng, k1, k, SigVersion::TAPSCRIPT, flaw, nullptr, t.leaf_hash, 0xffffffff, annexp));
                else k.wit.push_back(valtype{1});
                k.wit.push_back(leaf.b);
                k.wit.push_back(t.control);
                k.note = std::string("tap-budget") + (real ? "-real" : "-unk") + std::to_string(pk.size()) + (neg ? "-not" : "");
            }
        }
        if (annexp) k.wit.push_back(annex);
        if (flaw == TF_ANNEX_ADDED) {
            valtype a = rng.bytes(1 + rng.below(5));
            a[0] = 0x50;
            k.wit.push_back(a);
        }
        if (flaw == TF_WRONG_SPENT) {
            if (k.spent.size() > 1 && rng.coin()) {
                const size_t j = (k.n_in + 1) % k.spent.size();
                k.spent[j].nValue ^= 1;
            } else {
                k.amount ^= 1; // the amount of the spent output itself
                k.spent[k.n_in].nValue = k.amount;
            }
        }
        k.note += std::string(flaw ? "/" : "") + TF_NAMES[flaw];
        k.script_sig = ss.b;
        return;
    }
    k.script_sig = ss.b;
    SetSpent(k);
}

void GenOp1Rand(vh::Rng& rng, Case& k) { GenOp1(rng, k, -1); }

using GenFn = void (*)(vh::Rng&, Case&);
struct Fam {
    const char* name;
    GenFn fn;
    uint32_t weight; // per 1000 cases
};
// signature cases are expensive for the Python reference (~10 ms per verification): kept to a few percent
const Fam FAMS[] = {{"op1", GenOp1Rand, 240}, {"arith", GenArith, 110}, {"prog", GenProg, 250}, {"cond", GenCond, 90}, {"limit", GenLimit, 90},
                    {"wrap", GenWrap, 90}, {"lock", GenLock, 60}, {"sig", GenSig, 70}};

} // namespace

// cases: one script evaluation each. params: fams=comma list (default all), sig=per-mille weight of the sig family
VH_CMD(script)
{
    const std::string fams = "," + args.gets("fams", "op1,arith,prog,cond,limit,wrap,lock,sig") + ",";
    std::vector<uint32_t> w;
    for (const auto& f : FAMS) {
        uint32_t x = fams.find(std::string(",") + f.name + ",") != std::string::npos ? f.weight : 0;
        if (std::string(f.name) == "sig" && x) x = static_cast<uint32_t>(args.geti("sig", f.weight));
        w.push_back(x);
    }
    ECC_Context ecc;
    for (uint64_t c = args.from; c < args.to; ++c) {
        vh::set_case(c);
        vh::Rng rng(args.seed, c);
        Case k;
        // boundary tables first: cases 0..511 run every opcode value twice under EvalScript, cases 512..1023 put every opcode
        // value twice into a tapscript leaf (OP_SUCCESSx classification), then random
        if (c < 512 && w[0]) GenOp1(rng, k, static_cast<int>(c & 0xff));
        else if (c >= 512 && c < 1024 && w[5]) GenTapOp(rng, k, static_cast<unsigned>(c & 0xff));
        else FAMS[rng.weighted(w)].fn(rng, k);
        RunCase(c, k);
    }
    return 0;
}
