// Shared by e4_snapshot.cpp (C20) and e1_prune.cpp (C19): reproduces the deterministic regtest chain for which
// chainparams commits an assumeutxo snapshot at height 110 (TestChain100Setup + 10 blocks, exactly as
// src/test/validation_chainstatemanager_tests.cpp does), writes the genuine snapshot with node::CreateUTXOSnapshot,
// and keeps blocks + snapshot bytes in memory so that fresh nodes can be fed from them.
// Header-only; everything in an anonymous namespace (one copy per TU).
#pragma once

#include <common/vh.h>

#include <chain.h>
#include <chainparams.h>
#include <coins.h>
#include <consensus/merkle.h>
#include <crypto/sha256.h>
#include <node/blockstorage.h>
#include <node/utxo_snapshot.h>
#include <pow.h>
#include <primitives/block.h>
#include <rpc/blockchain.h>
#include <streams.h>
#include <test/util/setup_common.h>
#include <txdb.h>
#include <univalue.h>
#include <util/fs.h>
#include <validation.h>

#include <cstdio>
#include <memory>
#include <stdexcept>
#include <string>
#include <vector>

namespace {
namespace snapchain {

using Bytes = std::vector<unsigned char>;

inline Bytes ReadFileBytes(const fs::path& p)
{
    FILE* f = fsbridge::fopen(p, "rb");
    if (!f) throw std::runtime_error("cannot read " + fs::PathToString(p));
    Bytes out;
    unsigned char buf[65536];
    size_t n;
    while ((n = std::fread(buf, 1, sizeof buf, f)) > 0) out.insert(out.end(), buf, buf + n);
    std::fclose(f);
    return out;
}
inline void WriteFileBytes(const fs::path& p, const Bytes& b)
{
    FILE* f = fsbridge::fopen(p, "wb");
    if (!f) throw std::runtime_error("cannot write " + fs::PathToString(p));
    const size_t n = b.empty() ? 0 : std::fwrite(b.data(), 1, b.size(), f);
    if (std::fclose(f) != 0 || n != b.size()) throw std::runtime_error("short write " + fs::PathToString(p));
}

struct Chain {
    std::vector<std::shared_ptr<const CBlock>> blocks; // [h] for h = 0..tip (0 = genesis)
    std::vector<CBlockHeader> headers;                 // same indexing
    Bytes snap110;                                     // genuine snapshot at the committed height
    Bytes snap109;                                     // a consistent snapshot for a block chainparams does not commit to
    uint256 base_hash;                                 // block 110
    std::string au_hash_hex;                           // committed hash_serialized (display order)
    uint64_t au_chain_tx{0};
    int au_height{110};
    int tip{0};
    std::string genuine_digest;                        // own digest (UtxoDigest) of the UTXO set at height 110
};

inline std::pair<std::string, uint64_t> UtxoDigest(Chainstate& cs);

inline Bytes MakeSnapshot(TestChain100Setup& a, const char* name)
{
    fs::path p = a.m_path_root / fs::u8path(name);
    FILE* outfile{fsbridge::fopen(p, "wb")};
    AutoFile af{outfile};
    UniValue r = CreateUTXOSnapshot(a.m_node, a.m_node.chainman->ActiveChainstate(), std::move(af), p, p);
    (void)r;
    return ReadFileBytes(p);
}

// extra: blocks mined above 110 (used for "snapshot has less work than the tip" and for extending the snapshot chain)
inline Chain BuildChain(int extra)
{
    Chain c;
    {
        TestChain100Setup a{ChainType::REGTEST, TestOpts{.extra_args = {"-debug=0", "-checkmempool=0"}}};
        a.mineBlocks(9);
        c.snap109 = MakeSnapshot(a, "snap109.dat");
        a.mineBlocks(1);
        const auto au = a.m_node.chainman->GetParams().AssumeutxoForHeight(110);
        if (!au) throw std::runtime_error("chainparams has no assumeutxo entry for regtest height 110");
        {
            LOCK(::cs_main);
            const CBlockIndex* tip = a.m_node.chainman->ActiveChain().Tip();
            if (tip->nHeight != 110 || tip->GetBlockHash() != au->blockhash)
                throw std::runtime_error("fixture chain does not reproduce the committed assumeutxo block at height 110");
        }
        c.base_hash = au->blockhash;
        c.au_hash_hex = au->hash_serialized.ToString();
        c.au_chain_tx = au->m_chain_tx_count;
        c.snap110 = MakeSnapshot(a, "snap110.dat");
        c.genuine_digest = UtxoDigest(a.m_node.chainman->ActiveChainstate()).first;
        if (extra > 0) a.mineBlocks(extra);
        LOCK(::cs_main);
        const CChain& ch = a.m_node.chainman->ActiveChain();
        c.tip = ch.Height();
        for (int h = 0; h <= ch.Height(); ++h) {
            auto b = std::make_shared<CBlock>();
            if (!a.m_node.chainman->m_blockman.ReadBlock(*b, *ch[h])) throw std::runtime_error("ReadBlock failed while copying the base chain");
            c.headers.push_back(static_cast<const CBlockHeader&>(*b));
            c.blocks.push_back(std::move(b));
        }
    }
    return c;
}

// A header chain forking off `parent` (given as header + height + time), n headers long; valid PoW, regtest nBits.
inline std::vector<CBlockHeader> ForkHeaders(const CBlockHeader& parent, int n, uint64_t salt, const Consensus::Params& cp)
{
    std::vector<CBlockHeader> out;
    CBlockHeader prev = parent;
    for (int i = 0; i < n; ++i) {
        CBlockHeader h;
        h.nVersion = 0x20000000;
        h.hashPrevBlock = prev.GetHash();
        unsigned char m[32] = {};
        uint64_t s = salt * 1000003ULL + i + 1;
        std::memcpy(m, &s, 8);
        m[31] = 0x5a;
        h.hashMerkleRoot = uint256{std::span<const unsigned char>{m, 32}};
        h.nTime = prev.nTime + 1;
        h.nBits = parent.nBits; // regtest: no retargeting
        h.nNonce = 0;
        while (!CheckProofOfWork(h.GetHash(), h.nBits, cp)) ++h.nNonce;
        out.push_back(h);
        prev = h;
    }
    return out;
}

// Content digest of a chainstate's UTXO set, computed with own code: flush, then walk the coins DB cursor and
// SHA256 (txid, n, height, coinbase, value, script) of every entry. Returns hex digest and the count.
inline std::pair<std::string, uint64_t> UtxoDigest(Chainstate& cs)
{
    LOCK(::cs_main);
    cs.ForceFlushStateToDisk();
    std::unique_ptr<CCoinsViewCursor> cur{cs.CoinsDB().Cursor()};
    CSHA256 h;
    uint64_t n = 0;
    while (cur->Valid()) {
        COutPoint k;
        Coin coin;
        if (cur->GetKey(k) && cur->GetValue(coin)) {
            h.Write(reinterpret_cast<const unsigned char*>(k.hash.begin()), 32);
            unsigned char buf[4 + 4 + 1 + 8];
            uint32_t vn = k.n, ht = coin.nHeight;
            int64_t v = coin.out.nValue;
            std::memcpy(buf, &vn, 4);
            std::memcpy(buf + 4, &ht, 4);
            buf[8] = coin.fCoinBase;
            std::memcpy(buf + 9, &v, 8);
            h.Write(buf, sizeof buf);
            uint32_t sl = coin.out.scriptPubKey.size();
            h.Write(reinterpret_cast<unsigned char*>(&sl), 4);
            h.Write(coin.out.scriptPubKey.data(), sl);
            ++n;
        }
        cur->Next();
    }
    unsigned char out[32];
    h.Finalize(out);
    return {vh::Hex(out, 32), n};
}

} // namespace snapchain
} // namespace
