// C46: signing produces valid spends and never fakes a satisfaction (engine E5, family c46_sign).
// Per case one solvable output script is generated (type-directed miniscript in wsh() or in tr() leaves, or a
// legacy/segwit/taproot descriptor template), then several (availability subset, spending transaction) variations are
// signed with ProduceSignature or SignTransaction. Online monitor: "complete" => VerifyScript(STANDARD flags) succeeds
// with an independently built checker. Logged for the offline abstract policy evaluator (checks/C46.py): the policy
// AST, the available keys/preimages, and the transaction's version / nLockTime / nSequence.
#include <common/vh.h>
#include <e5_msgen.h>
#include <e5_scriptgen.h>

#include <chainparams.h>
#include <coins.h>
#include <crypto/ripemd160.h>
#include <crypto/sha256.h>
#include <hash.h>
#include <key.h>
#include <key_io.h>
#include <policy/policy.h>
#include <primitives/transaction.h>
#include <pubkey.h>
#include <script/descriptor.h>
#include <script/interpreter.h>
#include <script/script.h>
#include <script/script_error.h>
#include <script/sign.h>
#include <script/signingprovider.h>
#include <streams.h>
#include <util/chaintype.h>
#include <util/strencodings.h>
#include <util/translation.h>

#include <map>
#include <set>
#include <memory>
#include <string>
#include <vector>

namespace {

using msgen::F;
using msgen::Node;
using sgen::Pool;
using sgen::Script;
using sgen::HashOf;

uint32_t PickLockTime(vh::Rng& rng, const std::vector<uint32_t>& afters)
{
    if (afters.empty() || rng.chance(1, 8)) {
        switch (rng.below(4)) {
        case 0: return 0;
        case 1: return static_cast<uint32_t>(rng.below(1000000));
        case 2: return 500000000u + static_cast<uint32_t>(rng.below(1000000000));
        default: return 0xffffffffu;
        }
    }
    uint32_t mx = 0;
    for (uint32_t a : afters) mx = std::max(mx, a);
    uint32_t a = afters[rng.below(afters.size())];
    switch (rng.below(7)) {
    case 0: return a;
    case 1: return a - 1;
    case 2: return a + 1;
    case 3: return mx;
    case 4: return mx - 1;
    case 5: return a < 500000000u ? 499999999u : 0xffffffffu;        // largest of the same kind
    default: return a < 500000000u ? 500000000u + a : (a - 500000000u); // other kind
    }
}

uint32_t PickSequence(vh::Rng& rng, const std::vector<uint32_t>& olders)
{
    if (olders.empty() || rng.chance(1, 8)) {
        switch (rng.below(5)) {
        case 0: return 0xffffffffu;
        case 1: return 0xfffffffeu;
        case 2: return 0;
        case 3: return static_cast<uint32_t>(rng.below(0x10000));
        default: return static_cast<uint32_t>(rng.next());
        }
    }
    uint32_t mx = 0;
    for (uint32_t o : olders) mx = std::max(mx, o & 0xffff);
    uint32_t o = olders[rng.below(olders.size())];
    const uint32_t typ = o & (1u << 22);
    const uint32_t val = o & 0xffff;
    uint32_t r;
    switch (rng.below(8)) {
    case 0: r = typ | val; break;
    case 1: r = typ | (val ? val - 1 : 0); break;
    case 2: r = typ | std::min<uint32_t>(val + 1, 0xffff); break;
    case 3: r = typ | mx; break;
    case 4: r = typ | 0xffff; break;
    case 5: r = (typ ^ (1u << 22)) | 0xffff; break;               // other kind
    case 6: r = typ | val | (1u << 31); break;                     // disable flag set
    default: r = typ | val | (static_cast<uint32_t>(rng.below(64)) << 16 & ~(1u << 22)); break; // junk in ignored bits
    }
    return r;
}

std::string TxHex(const CTransaction& tx)
{
    DataStream ss;
    ss << TX_WITH_WITNESS(tx);
    return HexStr(ss);
}

std::string IntList(const std::vector<int>& v)
{
    std::string r = "[";
    for (size_t i = 0; i < v.size(); ++i) r += (i ? "," : "") + std::to_string(v[i]);
    return r + "]";
}

} // namespace

// p: subsets (variations per script), maxdepth
VH_CMD(c46_sign)
{
    ECC_Context ecc;
    SelectParams(ChainType::REGTEST);
    const int64_t nsub = args.geti("subsets", 8);
    const int64_t maxdepth = args.geti("maxdepth", 4);
    for (uint64_t c = args.from; c < args.to; ++c) {
        vh::set_case(c);
        vh::Rng rng(args.seed, c);
        Pool pool = sgen::MakePool(rng);
        // two keys outside the pool: a decoy that is always available (must never help) and the key of the other input
        const Pool extra = sgen::MakePool(rng, 2, 0);

        // generate until the descriptor parser accepts (sane miniscript); bounded
        Script sc;
        std::unique_ptr<Descriptor> desc;
        FlatSigningProvider parse_out;
        int attempts = 0;
        for (; attempts < 12 && !desc; ++attempts) {
            sc = sgen::GenScript(rng, pool, maxdepth);
            std::string err;
            auto v = Parse(sc.desc, parse_out, err, false);
            vh::log().obs("candidates");
            if (v.size() == 1) {
                desc = std::move(v[0]);
            } else {
                vh::log().obs("candidates_rejected_by_parser");
            }
        }
        if (!desc) {
            vh::log().obs("no_script");
            vh::log().rec(vh::J().u("case", c).b("skip", true));
            continue;
        }
        std::vector<CScript> spks;
        FlatSigningProvider pub;
        if (!desc->Expand(0, DUMMY_SIGNING_PROVIDER, spks, pub) || spks.empty()) {
            vh::log().obs("expand_failed");
            vh::log().rec(vh::J().u("case", c).b("skip", true).str("desc", sc.desc));
            continue;
        }
        const CScript spk = spks[0];
        vh::log().obs("scripts");
        vh::log().obs("class:" + sc.klass);

        std::vector<int> keys, hashes;
        std::vector<uint32_t> olders, afters;
        for (const Node& n : sc.asts) msgen::CollectLeaves(n, keys, hashes, olders, afters);
        if (sc.internal_key >= 0) keys.push_back(sc.internal_key);
        std::sort(keys.begin(), keys.end());
        keys.erase(std::unique(keys.begin(), keys.end()), keys.end());
        std::sort(hashes.begin(), hashes.end());
        hashes.erase(std::unique(hashes.begin(), hashes.end()), hashes.end());

        std::vector<std::string> vars;
        for (int64_t v = 0; v < nsub; ++v) {
            // availability
            static const uint32_t PROB[6] = {0, 30, 60, 85, 100, 100};
            const uint32_t pk = PROB[rng.below(6)], ph = PROB[rng.below(6)];
            std::vector<int> akeys, ahashes;
            for (int k : keys)
                if (rng.below(100) < pk) akeys.push_back(k);
            for (int h : hashes)
                if (rng.below(100) < ph) ahashes.push_back(h);
            // "all but one" variations exercise the single missing item
            if (v == 1 && !keys.empty()) {
                akeys = keys;
                akeys.erase(akeys.begin() + rng.below(akeys.size()));
                ahashes = hashes;
            }
            if (v == 2 && !hashes.empty()) {
                akeys = keys;
                ahashes = hashes;
                ahashes.erase(ahashes.begin() + rng.below(ahashes.size()));
            }
            if (v == 0) {
                akeys = keys;
                ahashes = hashes;
            }
            FlatSigningProvider prov = pub;
            for (int k : akeys) {
                CKey kk = sgen::KeyFor(pool, sc, k);
                prov.keys[kk.GetPubKey().GetID()] = kk;
            }
            // a key the policy does not mention is always around (must never help)
            prov.keys[extra.keys[0].GetPubKey().GetID()] = extra.keys[0];

            // the spending transaction
            CMutableTransaction tx;
            tx.version = static_cast<uint32_t>(rng.weighted({12, 70, 18}) + 1);
            tx.nLockTime = PickLockTime(rng, afters);
            const size_t nin = 1 + rng.below(2);
            const size_t idx = rng.below(nin);
            std::vector<CTxOut> spent;
            const CScript other_spk = GetScriptForDestination(WitnessV0KeyHash(extra.keys[1].GetPubKey()));
            const bool other_key_avail = rng.coin();
            for (size_t i = 0; i < nin; ++i) {
                CTxIn in;
                in.prevout = COutPoint(Txid::FromUint256(uint256(rng.bytes(32))), static_cast<uint32_t>(rng.below(4)));
                in.nSequence = i == idx ? PickSequence(rng, olders) : static_cast<uint32_t>(rng.next());
                tx.vin.push_back(in);
                spent.emplace_back(static_cast<CAmount>(rng.range(1000, 100000000)), i == idx ? spk : other_spk);
            }
            const size_t nout = 1 + rng.below(2);
            for (size_t i = 0; i < nout; ++i) tx.vout.emplace_back(static_cast<CAmount>(rng.range(546, 50000)), CScript() << OP_TRUE);
            static const int SIGHASHES[7] = {SIGHASH_DEFAULT, SIGHASH_DEFAULT, SIGHASH_DEFAULT, SIGHASH_ALL, SIGHASH_NONE, SIGHASH_SINGLE, SIGHASH_ALL | SIGHASH_ANYONECANPAY};
            const int sighash = SIGHASHES[rng.below(7)];
            const bool use_signtx = ahashes.empty() && rng.chance(1, 3);
            if (other_key_avail && use_signtx) prov.keys[extra.keys[1].GetPubKey().GetID()] = extra.keys[1];

            bool complete = false;
            std::string how;
            if (use_signtx) {
                how = "SignTransaction";
                std::map<COutPoint, Coin> coins;
                for (size_t i = 0; i < nin; ++i) coins.emplace(tx.vin[i].prevout, Coin(spent[i], 1, false));
                std::map<int, bilingual_str> errors;
                SignTransaction(tx, &prov, coins, {.sighash_type = sighash}, errors);
                complete = errors.count(static_cast<int>(idx)) == 0;
                vh::log().obs("signtransaction_calls");
            } else {
                how = "ProduceSignature";
                PrecomputedTransactionData txdata;
                txdata.Init(tx, std::vector<CTxOut>(spent), true);
                SignatureData sigdata;
                for (int h : ahashes) {
                    const auto& pre = pool.pre[h];
                    sigdata.sha256_preimages[HashOf(F::SHA256, pre)] = pre;
                    sigdata.hash256_preimages[HashOf(F::HASH256, pre)] = pre;
                    sigdata.ripemd160_preimages[HashOf(F::RIPEMD160, pre)] = pre;
                    sigdata.hash160_preimages[HashOf(F::HASH160, pre)] = pre;
                }
                MutableTransactionSignatureCreator creator(tx, static_cast<unsigned>(idx), spent[idx].nValue, &txdata, {.sighash_type = sighash});
                const bool ret = ProduceSignature(prov, creator, spk, sigdata);
                complete = sigdata.complete;
                if (ret != complete) vh::log().violation("sign-return-differs-from-complete", "ProduceSignature's return value differs from sigdata.complete", vh::J().str("desc", sc.desc));
                UpdateInput(tx.vin[idx], sigdata);
                vh::log().obs("producesignature_calls");
            }
            // independent verification of what was produced
            const CTransaction ctx(tx);
            PrecomputedTransactionData vdata;
            vdata.Init(ctx, std::vector<CTxOut>(spent), true);
            ScriptError serr = SCRIPT_ERR_OK;
            const bool verified = VerifyScript(ctx.vin[idx].scriptSig, spk, &ctx.vin[idx].scriptWitness, STANDARD_SCRIPT_VERIFY_FLAGS,
                                               TransactionSignatureChecker(&ctx, static_cast<unsigned>(idx), spent[idx].nValue, vdata, MissingDataBehavior::FAIL), &serr);
            if (complete) vh::log().obs("complete");
            else vh::log().obs("incomplete");
            if (complete && !verified) {
                vh::log().violation("sign-complete-but-invalid", "signing reported the input complete but the spend fails script verification with the standard flags",
                                    vh::J().str("desc", sc.desc).str("how", how).str("script_error", ScriptErrorString(serr)).hex("scriptSig", ctx.vin[idx].scriptSig)
                                        .str("tx", TxHex(ctx)));
            }
            vars.push_back(vh::J().raw("keys", IntList(akeys)).raw("hashes", IntList(ahashes)).u("version", tx.version).u("locktime", tx.nLockTime)
                               .u("sequence", tx.vin[idx].nSequence).i("sighash", sighash).str("how", how).b("complete", complete).b("verified", verified)
                               .u("witness_items", ctx.vin[idx].scriptWitness.stack.size()).done());
        }
        vh::log().rec(vh::J().u("case", c).str("desc", sc.desc).str("class", sc.klass).raw("policy", sc.policy).raw("allkeys", IntList(keys)).raw("allhashes", IntList(hashes))
                          .u("attempts", attempts).raw("vars", vh::JArr(vars)));
    }
    return 0;
}
