// C04 (pure-function half) — E5 family `merkle`:
//   ComputeMerkleRoot(+mutated flag), BlockMerkleRoot(+mutated), BlockWitnessMerkleRoot, TransactionMerklePath
//   are called on generated leaf lists / blocks; inputs and outputs are logged; the oracle is
//   pyref/merkle.py:check_merkle(rec, st) (naive recursive Python merkle, hashlib only).
//
// Record format (one JSON object per case, consumed by pyref.merkle.check_merkle):
//   {"case":c, "k":"leaves", "cls":<generator class>, "ls":<u64 leaf seed>, "idx":[i0,i1,...],
//    "root":hex32, "mut":bool, "root_nomut":hex32}
//        leaf j of the list is  SHA256( le64(ls) || le32(idx[j]) )  (internal byte order, as stored in uint256);
//        equal idx values are equal leaves (this is how duplication patterns are expressed);
//        root/mut   = ComputeMerkleRoot(leaves, &mutated); root_nomut = ComputeMerkleRoot(leaves) (null flag pointer).
//        An empty idx list is legal (root = 32 zero bytes, mut=false).
//   {"case":c, "k":"block", "cls":..., "txs":[hex of the full (witness) serialization of each DISTINCT tx],
//    "order":[index into txs for every block position], "root":hex32, "mut":bool, "wroot":hex32,
//    "paths":[[pos,[hex32,...]],...]}
//        root/mut = BlockMerkleRoot(block,&mutated); wroot = BlockWitnessMerkleRoot(block) (leaf 0 replaced by 32 zero bytes);
//        paths    = TransactionMerklePath(block,pos) for the listed positions (siblings ordered from the deepest level).
//        txid = SHA256d(serialization without witness), wtxid = SHA256d(full serialization) — recomputed in Python.
//   All 32-byte values are hex of the in-memory (little-endian/internal) byte order, NOT the reversed display order.
//
// params: maxn (default 300) maximum list length of the random classes.
#include <common/vh.h>

#include <consensus/merkle.h>
#include <crypto/sha256.h>
#include <primitives/block.h>
#include <primitives/transaction.h>
#include <script/script.h>
#include <streams.h>
#include <uint256.h>

#include <string>
#include <vector>

namespace {

uint256 Leaf(uint64_t ls, uint32_t i)
{
    unsigned char buf[12];
    for (int k = 0; k < 8; ++k) buf[k] = (ls >> (8 * k)) & 0xff;
    for (int k = 0; k < 4; ++k) buf[8 + k] = (i >> (8 * k)) & 0xff;
    uint256 r;
    CSHA256().Write(buf, 12).Finalize(r.begin());
    return r;
}

std::string IdxJson(const std::vector<uint32_t>& idx)
{
    std::string s = "[";
    for (size_t i = 0; i < idx.size(); ++i) {
        if (i) s += ",";
        s += std::to_string(idx[i]);
    }
    return s + "]";
}

// Index list generator. Returns the class name.
// classes: distinct | taildup (CVE-2012-2459: "last k nodes of level L repeated", root preserving when the level count allows)
//          | anydup (random equal adjacent / non adjacent pairs anywhere) | allsame | pairdup_inner (equal pair at an inner even position)
std::string GenIdx(vh::Rng& rng, uint64_t c, size_t maxn, std::vector<uint32_t>& idx)
{
    idx.clear();
    // cases 0..64: every length 0..64, distinct leaves
    if (c <= 64) {
        for (uint32_t i = 0; i < c; ++i) idx.push_back(i);
        return "distinct";
    }
    // cases 65..1024: systematic tail duplications "last k nodes of level L repeated" for every length 1..64, L 0..4, k 1..3
    if (c < 65 + 960) {
        const uint64_t e = c - 65;
        const size_t n0 = 1 + e % 64;
        const uint32_t L0 = (e / 64) % 5;
        const uint32_t k0 = 1 + static_cast<uint32_t>(e / 320);
        for (uint32_t i = 0; i < n0; ++i) idx.push_back(i);
        const size_t span0 = std::min<size_t>(n0, size_t{k0} << L0);
        for (size_t i = n0 - span0; i < n0; ++i) idx.push_back(static_cast<uint32_t>(i));
        return "taildup";
    }
    const uint32_t cls = rng.below(10);
    size_t n = 1 + rng.below(rng.chance(3, 4) ? 64 : maxn);
    for (uint32_t i = 0; i < n; ++i) idx.push_back(i);
    if (cls <= 1) return "distinct";
    if (cls <= 5) {
        // repeat the last k nodes of level L: append copies of the last k*2^L leaves (clipped to the list)
        const uint32_t L = rng.below(5);
        const uint32_t k = 1 + rng.below(3);
        size_t span = std::min<size_t>(n, size_t{k} << L);
        // optionally align the list length to a multiple of 2^L so that the duplication is root preserving
        if (rng.coin()) {
            const size_t unit = size_t{1} << L;
            size_t nn = (n / unit) * unit;
            if (nn == 0) nn = unit;
            idx.clear();
            for (uint32_t i = 0; i < nn; ++i) idx.push_back(i);
            n = nn;
            span = std::min<size_t>(n, size_t{k} << L);
        }
        for (size_t i = n - span; i < n; ++i) idx.push_back(static_cast<uint32_t>(i));
        return "taildup";
    }
    if (cls == 6) {
        const uint32_t reps = 1 + rng.below(3);
        for (uint32_t r = 0; r < reps; ++r) {
            const size_t a = rng.below(idx.size()), b = rng.below(idx.size());
            idx[a] = idx[b];
        }
        return "anydup";
    }
    if (cls == 7) {
        for (auto& v : idx) v = 0;
        return "allsame";
    }
    if (cls == 8) {
        // equal adjacent pair at an even position (2k,2k+1) of level L: copy a whole aligned subtree over its right sibling
        const uint32_t L = rng.below(4);
        const size_t unit = size_t{1} << L;
        if (n >= 2 * unit) {
            const size_t pairs = n / (2 * unit);
            const size_t p = rng.below(pairs);
            for (size_t i = 0; i < unit; ++i) idx[2 * unit * p + unit + i] = idx[2 * unit * p + i];
        }
        return "pairdup_inner";
    }
    // equal adjacent pair at an ODD position (2k+1,2k+2): must NOT set the flag by itself
    if (n >= 3) {
        const size_t p = 1 + 2 * rng.below((n - 1) / 2);
        if (p + 1 < n) idx[p + 1] = idx[p];
    }
    return "pairdup_odd";
}

CTransactionRef MakeTx(vh::Rng& rng, bool coinbase, bool witness)
{
    CMutableTransaction tx;
    tx.version = static_cast<int32_t>(rng.below(3)) + 1;
    tx.nLockTime = rng.chance(1, 4) ? static_cast<uint32_t>(rng.next()) : 0;
    const size_t nin = coinbase ? 1 : 1 + rng.below(3);
    tx.vin.resize(nin);
    for (auto& in : tx.vin) {
        if (coinbase) {
            in.prevout.SetNull();
        } else {
            uint256 h;
            rng.fill(h.begin(), 32);
            in.prevout = COutPoint(Txid::FromUint256(h), static_cast<uint32_t>(rng.below(4)));
        }
        const auto sig = rng.bytes(coinbase ? 2 + rng.below(20) : rng.below(12));
        in.scriptSig = CScript(sig.begin(), sig.end());
        in.nSequence = rng.coin() ? 0xffffffff : static_cast<uint32_t>(rng.next());
        if (witness) {
            const size_t items = 1 + rng.below(3);
            for (size_t i = 0; i < items; ++i) in.scriptWitness.stack.push_back(rng.bytes(rng.below(20)));
        }
    }
    const size_t nout = 1 + rng.below(3);
    tx.vout.resize(nout);
    for (auto& out : tx.vout) {
        out.nValue = static_cast<int64_t>(rng.below(2100000000000000ULL));
        const auto spk = rng.bytes(rng.below(30));
        out.scriptPubKey = CScript(spk.begin(), spk.end());
    }
    return MakeTransactionRef(std::move(tx));
}

} // namespace

VH_CMD(merkle)
{
    const size_t maxn = static_cast<size_t>(args.geti("maxn", 300));
    for (uint64_t c = args.from; c < args.to; ++c) {
        vh::set_case(c);
        vh::Rng rng(args.seed, c);
        // 1 in 4 cases (beyond the exhaustive prefix) is a block case
        const bool block_case = c >= 65 + 960 && (c % 4 == 3);
        if (!block_case) {
            std::vector<uint32_t> idx;
            const std::string cls = GenIdx(rng, c, maxn, idx);
            const uint64_t ls = rng.next();
            std::vector<uint256> leaves;
            leaves.reserve(idx.size());
            for (uint32_t i : idx) leaves.push_back(Leaf(ls, i));
            bool mutated = false;
            const uint256 root = ComputeMerkleRoot(leaves, &mutated);
            const uint256 root2 = ComputeMerkleRoot(leaves);
            vh::log().rec(vh::J().u("case", c).str("k", "leaves").str("cls", cls).str("ls", std::to_string(ls)).raw("idx", IdxJson(idx))
                              .hex("root", root).b("mut", mutated).hex("root_nomut", root2));
            vh::log().obs("h_leaf_lists");
            continue;
        }
        // block case: build distinct txs, then an order (with duplication patterns) over them
        std::vector<uint32_t> order;
        std::string cls = GenIdx(rng, 2000 + c, std::min<size_t>(maxn, 120), order);
        if (order.empty()) order.push_back(0);
        // compact the index space: distinct tx per distinct index value
        uint32_t maxi = 0;
        for (auto v : order) maxi = std::max(maxi, v);
        const bool any_witness = rng.chance(2, 3);
        std::vector<CTransactionRef> txs;
        for (uint32_t i = 0; i <= maxi; ++i) txs.push_back(MakeTx(rng, /*coinbase=*/i == 0, /*witness=*/any_witness && rng.coin()));
        CBlock block;
        for (auto v : order) block.vtx.push_back(txs[v]);
        bool mutated = false;
        const uint256 root = BlockMerkleRoot(block, &mutated);
        const uint256 wroot = BlockWitnessMerkleRoot(block);
        std::vector<std::string> txhex;
        for (const auto& tx : txs) {
            DataStream ds;
            ds << TX_WITH_WITNESS(*tx);
            txhex.push_back(vh::JStr(vh::Hex(ds)));
        }
        std::vector<std::string> paths;
        std::vector<uint32_t> positions;
        if (block.vtx.size() <= 16) {
            for (uint32_t p = 0; p < block.vtx.size(); ++p) positions.push_back(p);
        } else {
            positions = {0, static_cast<uint32_t>(block.vtx.size() - 1)};
            for (int i = 0; i < 6; ++i) positions.push_back(static_cast<uint32_t>(rng.below(block.vtx.size())));
        }
        for (uint32_t p : positions) {
            const auto path = TransactionMerklePath(block, p);
            std::vector<std::string> hs;
            for (const auto& h : path) hs.push_back(vh::JStr(vh::Hex(h)));
            paths.push_back("[" + std::to_string(p) + "," + vh::JArr(hs) + "]");
        }
        vh::log().rec(vh::J().u("case", c).str("k", "block").str("cls", cls).raw("txs", vh::JArr(txhex)).raw("order", IdxJson(order))
                          .hex("root", root).b("mut", mutated).hex("wroot", wroot).raw("paths", vh::JArr(paths)));
        vh::log().obs("h_blocks");
    }
    return 0;
}
