// C53: BIP9 deployment states. One case = one deployment (period 2..20, threshold 1..period, start/timeout/min_activation_height,
// incl. ALWAYS_ACTIVE / NEVER_ACTIVE) and one block tree (main chain + branches sharing a prefix) with random signalling and
// non-monotone (but MTP-respecting) timestamps. For every block (as pindexPrev) and for nullptr the harness queries
// VersionBitsConditionChecker::GetStateFor / GetStateSinceHeightFor / GetStateStatisticsFor under several cache regimes
// (fresh cache per query, forward, reverse, random order on one cache) and VersionBitsCache::IsActiveAfter / ComputeBlockVersion / Info.
// Online monitor: all regimes must agree (state must not depend on what was queried before). The fresh-cache results are logged
// and recomputed by an own Python BIP9 state machine (checks/C53.py + pyref/bip9.py).
#include <common/vh.h>

#include <chain.h>
#include <consensus/params.h>
#include <kernel/chainparams.h>
#include <versionbits.h>
#include <versionbits_impl.h>

#include <algorithm>
#include <memory>
#include <string>
#include <vector>

namespace {

const char* const STATE_NAMES[] = {"defined", "started", "locked_in", "active", "failed"};

struct Tree {
    std::vector<std::unique_ptr<CBlockIndex>> blocks;
    std::vector<int> parent;
    CBlockIndex* add(int par, int32_t version, uint32_t time)
    {
        auto b = std::make_unique<CBlockIndex>();
        b->pprev = par >= 0 ? blocks[par].get() : nullptr;
        b->nHeight = par >= 0 ? blocks[par]->nHeight + 1 : 0;
        b->BuildSkip();
        b->nVersion = version;
        b->nTime = time;
        b->nBits = 0x207fffff;
        blocks.push_back(std::move(b));
        parent.push_back(par);
        return blocks.back().get();
    }
};

int64_t OwnMTP(const Tree& t, int idx)
{
    std::vector<int64_t> v;
    for (int i = 0; i < 11 && idx >= 0; ++i, idx = t.parent[idx]) v.push_back(t.blocks[idx]->nTime);
    std::sort(v.begin(), v.end());
    return v[v.size() / 2];
}

} // namespace

VH_CMD(versionbits)
{
    const bool anytime = args.geti("anytime", 0) != 0; // experiment only: timestamps that ignore the time > MTP(prev) rule
    const int max_periods = static_cast<int>(args.geti("max_periods", 10));
    for (uint64_t c = args.from; c < args.to; ++c) {
        vh::set_case(c);
        vh::Rng rng(args.seed, c);
        // ---- deployment ----
        Consensus::BIP9Deployment dep;
        const int P = static_cast<int>(2 + rng.below(19));
        int T;
        switch (rng.below(5)) {
        case 0: T = P; break;
        case 1: T = 1; break;
        case 2: T = std::max(1, P * 3 / 4); break;
        default: T = static_cast<int>(1 + rng.below(P));
        }
        dep.period = P;
        dep.threshold = T;
        dep.bit = static_cast<int>(rng.below(29));
        const int64_t base = 1000000;
        const int periods = static_cast<int>(3 + rng.below(max_periods - 2));
        const int main_len = P * periods + static_cast<int>(rng.below(P));
        const int64_t avg_step = static_cast<int64_t>(1 + rng.below(30));
        const int64_t span = avg_step * main_len;
        const uint64_t special = rng.below(20);
        if (special == 0) {
            dep.nStartTime = Consensus::BIP9Deployment::ALWAYS_ACTIVE;
            dep.nTimeout = Consensus::BIP9Deployment::NO_TIMEOUT;
        } else if (special == 1) {
            dep.nStartTime = Consensus::BIP9Deployment::NEVER_ACTIVE;
            dep.nTimeout = Consensus::BIP9Deployment::NEVER_ACTIVE;
        } else {
            switch (rng.below(5)) {
            case 0: dep.nStartTime = 0; break;
            case 1: dep.nStartTime = base; break;
            default: dep.nStartTime = base + rng.range(0, span * 2 / 3);
            }
            switch (rng.below(6)) {
            case 0: dep.nTimeout = Consensus::BIP9Deployment::NO_TIMEOUT; break;
            case 1: dep.nTimeout = dep.nStartTime; break;
            case 2: dep.nTimeout = std::max<int64_t>(0, dep.nStartTime - rng.range(1, 1000)); break;
            default: dep.nTimeout = dep.nStartTime + rng.range(1, span);
            }
        }
        switch (rng.below(4)) {
        case 0: dep.min_activation_height = static_cast<int>(rng.below(main_len + 2 * P)); break;
        case 1: dep.min_activation_height = P * static_cast<int>(rng.below(periods + 1)) + static_cast<int>(rng.range(-1, 1)); break;
        default: dep.min_activation_height = 0;
        }
        if (dep.min_activation_height < 0) dep.min_activation_height = 0;

        // ---- tree ----
        Tree tree;
        const uint32_t mask = uint32_t{1} << dep.bit;
        struct Branch {
            int from; // index of fork parent (-1: genesis itself starts here)
            int len;
        };
        const int nbranches = static_cast<int>(rng.below(4));
        auto grow = [&](int par, int len) {
            // signalling probability and time style are per branch, so branches sharing a prefix diverge in state
            const uint32_t sig_table[8] = {0, 3, 5, 7, 9, 10, static_cast<uint32_t>(10 * T / P), static_cast<uint32_t>(10 * T / P + 1)};
            const uint32_t sig_num = sig_table[rng.below(8)];
            const bool periodic = rng.chance(1, 3); // whole periods signal / do not signal
            bool period_on = rng.coin();
            const int64_t step = static_cast<int64_t>(1 + rng.below(2 * avg_step));
            for (int i = 0; i < len; ++i) {
                const int h = par >= 0 ? tree.blocks[par]->nHeight + 1 : 0;
                if (h % P == 0) period_on = rng.chance(std::min<uint32_t>(sig_num + 2, 10), 10);
                bool sig = periodic ? (period_on ? !rng.chance(1, 3 * P) : rng.chance(1, 3 * P)) : rng.chance(std::min<uint32_t>(sig_num, 10), 10);
                int32_t version = 0x20000000;
                if (sig) version |= static_cast<int32_t>(mask);
                if (rng.chance(1, 12)) { // other bits, and versions whose top bits are not 001 (never count as signalling)
                    static const uint32_t tops[] = {0x00000000u, 0x40000000u, 0x60000000u, 0x80000000u, 0xe0000000u, 0x20000000u};
                    version = static_cast<int32_t>(tops[rng.below(6)] | (rng.next() & 0x1fffffffu) | (rng.coin() ? mask : 0));
                }
                if (rng.chance(1, 40)) version = static_cast<int32_t>(rng.below(5)); // legacy versions
                int64_t time;
                if (par < 0) {
                    time = base;
                } else if (anytime) {
                    time = base + rng.range(0, span);
                } else {
                    const int64_t mtp = OwnMTP(tree, par);
                    switch (rng.below(8)) {
                    case 0: time = mtp + 1; break;                                  // as early as allowed (may be before the parent's time)
                    case 1: time = mtp + 1 + static_cast<int64_t>(rng.below(3)); break;
                    case 2: time = tree.blocks[par]->nTime + static_cast<int64_t>(rng.below(4 * step + 1)); break;
                    case 3: time = mtp + 1 + static_cast<int64_t>(rng.below(20 * step + 1)); break; // jump ahead
                    default: time = std::max<int64_t>(mtp + 1, static_cast<int64_t>(tree.blocks[par]->nTime) + rng.range(-step, step));
                    }
                    if (time <= mtp) time = mtp + 1;
                }
                tree.add(par, version, static_cast<uint32_t>(time));
                par = static_cast<int>(tree.blocks.size()) - 1;
            }
        };
        grow(-1, main_len + 1);
        for (int b = 0; b < nbranches; ++b) {
            const int from = static_cast<int>(rng.below(tree.blocks.size()));
            const int len = static_cast<int>(1 + rng.below(static_cast<uint64_t>(3 * P)));
            grow(from, len);
        }
        const int N = static_cast<int>(tree.blocks.size());
        auto ptr = [&](int q) -> const CBlockIndex* { return q == 0 ? nullptr : tree.blocks[q - 1].get(); }; // query index 0 = nullptr

        // ---- regime 0: fresh cache per query ----
        const VersionBitsConditionChecker checker(dep);
        std::vector<int> st0(N + 1), since0(N + 1);
        std::vector<BIP9Stats> stats0(N + 1);
        std::vector<std::vector<bool>> sigblocks(N + 1);
        for (int q = 0; q <= N; ++q) {
            ThresholdConditionCache cache;
            st0[q] = static_cast<int>(checker.GetStateFor(ptr(q), cache));
            ThresholdConditionCache cache2;
            since0[q] = checker.GetStateSinceHeightFor(ptr(q), cache2);
            stats0[q] = checker.GetStateStatisticsFor(ptr(q), &sigblocks[q]);
            const BIP9Stats s2 = checker.GetStateStatisticsFor(ptr(q));
            if (s2.count != stats0[q].count || s2.elapsed != stats0[q].elapsed || s2.possible != stats0[q].possible)
                vh::log().violation("stats-depend-on-out-param", "GetStateStatisticsFor differs with/without signalling_blocks", vh::J().i("q", q));
        }
        uint64_t mism = 0;
        auto expect = [&](const char* regime, int q, int got_state, int got_since) {
            if ((got_state >= 0 && got_state != st0[q]) || (got_since >= 0 && got_since != since0[q])) {
                if (mism++ < 3)
                    vh::log().violation("state-depends-on-query-order", "result with a warm cache differs from the result with a fresh cache",
                                        vh::J().str("regime", regime).i("query", q).i("fresh_state", st0[q]).i("got_state", got_state).i("fresh_since", since0[q]).i("got_since", got_since)
                                            .i("period", P).i("threshold", T).i("start", dep.nStartTime).i("timeout", dep.nTimeout));
            }
        };
        // ---- regimes 1..3: one cache, forward / reverse / random order with interleaved since-queries ----
        {
            ThresholdConditionCache cache;
            for (int q = 0; q <= N; ++q) expect("forward", q, static_cast<int>(checker.GetStateFor(ptr(q), cache)), -1);
            for (int q = 0; q <= N; ++q) expect("forward-since", q, -1, checker.GetStateSinceHeightFor(ptr(q), cache));
        }
        {
            ThresholdConditionCache cache;
            for (int q = N; q >= 0; --q) expect("reverse", q, static_cast<int>(checker.GetStateFor(ptr(q), cache)), -1);
            for (int q = N; q >= 0; --q) expect("reverse-since", q, -1, checker.GetStateSinceHeightFor(ptr(q), cache));
        }
        {
            ThresholdConditionCache cache;
            for (int i = 0; i < 3 * N; ++i) {
                const int q = static_cast<int>(rng.below(N + 1));
                if (rng.coin()) expect("random", q, static_cast<int>(checker.GetStateFor(ptr(q), cache)), -1);
                else expect("random-since", q, -1, checker.GetStateSinceHeightFor(ptr(q), cache));
            }
        }
        // ---- regime 4: the node-facing VersionBitsCache on a Consensus::Params carrying this deployment ----
        {
            Consensus::Params params = CChainParams::RegTest()->GetConsensus();
            params.vDeployments[Consensus::DEPLOYMENT_TESTDUMMY] = dep;
            VersionBitsCache vbc;
            for (int i = 0; i < 2 * N; ++i) {
                const int q = static_cast<int>(rng.below(N + 1));
                switch (rng.below(3)) {
                case 0: {
                    const bool active = vbc.IsActiveAfter(ptr(q), params, Consensus::DEPLOYMENT_TESTDUMMY);
                    if (active != (st0[q] == 3) && mism++ < 3)
                        vh::log().violation("state-depends-on-query-order", "VersionBitsCache::IsActiveAfter differs from the fresh-cache state", vh::J().i("query", q).i("fresh_state", st0[q]).b("active", active));
                    break;
                }
                case 1: {
                    const int32_t v = vbc.ComputeBlockVersion(ptr(q), params);
                    const bool want_bit = st0[q] == 1 || st0[q] == 2;
                    const int32_t want = static_cast<int32_t>(0x20000000u | (want_bit ? mask : 0));
                    if (v != want && mism++ < 3)
                        vh::log().violation("compute-block-version", "ComputeBlockVersion does not signal exactly in STARTED/LOCKED_IN", vh::J().i("query", q).i("state", st0[q]).i("got", v).i("want", want));
                    break;
                }
                default: {
                    if (q == 0) break;
                    const CBlockIndex& bi = *ptr(q);
                    const int qp = bi.pprev ? tree.parent[q - 1] + 1 : 0; // query index of the parent
                    const BIP9Info info = vbc.Info(bi, params, Consensus::DEPLOYMENT_TESTDUMMY);
                    if (info.current_state != STATE_NAMES[st0[qp]] || info.next_state != STATE_NAMES[st0[q]] || info.since != since0[qp]) {
                        if (mism++ < 3)
                            vh::log().violation("state-depends-on-query-order", "VersionBitsCache::Info differs from fresh-cache results",
                                                vh::J().i("query", q).str("current", info.current_state).str("next", info.next_state).i("since", info.since)
                                                    .i("fresh_current", st0[qp]).i("fresh_next", st0[q]).i("fresh_since", since0[qp]));
                    }
                    break;
                }
                }
            }
            vbc.Clear();
            for (int i = 0; i < N / 4; ++i) {
                const int q = static_cast<int>(rng.below(N + 1));
                const bool active = vbc.IsActiveAfter(ptr(q), params, Consensus::DEPLOYMENT_TESTDUMMY);
                if (active != (st0[q] == 3) && mism++ < 3)
                    vh::log().violation("state-depends-on-query-order", "VersionBitsCache::IsActiveAfter (after Clear) differs from the fresh-cache state", vh::J().i("query", q).i("fresh_state", st0[q]).b("active", active));
            }
        }
        // ---- log ----
        std::string par = "[", ver = "[", tim = "[", st = "\"", since = "[", cnt = "[", el = "[", pos = "\"", sigs = "[";
        for (int i = 0; i < N; ++i) {
            if (i) { par += ","; ver += ","; tim += ","; }
            par += std::to_string(tree.parent[i]);
            ver += std::to_string(tree.blocks[i]->nVersion);
            tim += std::to_string(tree.blocks[i]->nTime);
        }
        for (int q = 0; q <= N; ++q) {
            st += static_cast<char>('0' + st0[q]);
            if (q) { since += ","; cnt += ","; el += ","; sigs += ","; }
            since += std::to_string(since0[q]);
            cnt += std::to_string(stats0[q].count);
            el += std::to_string(stats0[q].elapsed);
            pos += stats0[q].possible ? '1' : '0';
            std::string sb = "\"";
            for (bool b : sigblocks[q]) sb += b ? '1' : '0';
            sigs += sb + "\"";
        }
        vh::log().line("{\"case\":" + std::to_string(c) + ",\"P\":" + std::to_string(P) + ",\"T\":" + std::to_string(T) + ",\"bit\":" + std::to_string(dep.bit) +
                       ",\"start\":" + std::to_string(dep.nStartTime) + ",\"timeout\":" + std::to_string(dep.nTimeout) + ",\"mah\":" + std::to_string(dep.min_activation_height) +
                       ",\"sp\":" + std::to_string(stats0[0].period) + ",\"sth\":" + std::to_string(stats0[0].threshold) +
                       ",\"par\":" + par + "],\"ver\":" + ver + "],\"time\":" + tim + "],\"st\":" + st + "\",\"since\":" + since + "],\"cnt\":" + cnt + "],\"el\":" + el + "],\"pos\":" + pos +
                       "\",\"sig\":" + sigs + "]}");
    }
    return 0;
}
