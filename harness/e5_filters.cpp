// C51: probabilistic filters never produce false negatives.
//   flt_gcs          GCSFilter(params, elements): every inserted element matches (Match / MatchAny), own re-decode of the
//                    encoding succeeds and still matches; parameters + elements + encoding are logged so that Python re-encodes
//                    them with its own BIP158 Golomb-Rice coder and siphash and compares the bytes.
//   flt_blockfilter  BlockFilter(BASIC, block, undo): the element set is derived by own rule from the generated block; every
//                    element matches; encoding re-computed in Python; serialization round trip.
//   flt_bloom        CBloomFilter: every inserted key / outpoint is contained (checked right after insertion and at the end).
//   flt_rbloom       CRollingBloomFilter(n, fp): after any insert sequence the last n inserted keys are contained (window edge
//                    checked after every insert, whole window at every generation boundary and at the end).
//   flt_pmt          CPartialMerkleTree(txids, matches): ExtractMatches returns exactly the matched txids with positions and
//                    the merkle root (own naive double-SHA256 tree here; hashlib re-check in Python), also after a
//                    serialization round trip.
#include <common/vh.h>

#include <blockfilter.h>
#include <common/bloom.h>
#include <crypto/sha256.h>
#include <merkleblock.h>
#include <primitives/block.h>
#include <primitives/transaction.h>
#include <script/script.h>
#include <streams.h>
#include <uint256.h>
#include <undo.h>

#include <algorithm>
#include <array>
#include <deque>
#include <set>
#include <stdexcept>
#include <string>
#include <vector>

namespace {

using Bytes = std::vector<unsigned char>;

std::string HexArr(const std::vector<Bytes>& v)
{
    std::string s = "[";
    for (size_t i = 0; i < v.size(); ++i) {
        if (i) s += ",";
        s += "\"" + vh::Hex(v[i]) + "\"";
    }
    return s + "]";
}

uint64_t Fnv(const unsigned char* p, size_t n, uint64_t h = 0xcbf29ce484222325ULL)
{
    for (size_t i = 0; i < n; ++i) {
        h ^= p[i];
        h *= 0x100000001b3ULL;
    }
    return h;
}

Bytes RandElement(vh::Rng& rng)
{
    size_t len;
    switch (rng.below(12)) {
    case 0: len = 0; break;
    case 1: len = 1; break;
    case 2: len = 7 + rng.below(3); break; // around the siphash block size
    case 3: len = 15 + rng.below(3); break;
    case 4: len = 100 + rng.below(120); break;
    default: len = 20 + rng.below(16); break; // script-like
    }
    return rng.bytes(len);
}

size_t PickCount(vh::Rng& rng, size_t cap)
{
    size_t n;
    const uint64_t r = rng.below(100);
    if (r < 3) n = 0;
    else if (r < 8) n = 1;
    else if (r < 38) n = 2 + rng.below(9);
    else if (r < 78) n = 11 + rng.below(90);
    else if (r < 98) n = 101 + rng.below(1900);
    else n = 2001 + rng.below(18000);
    return std::min(n, cap);
}

// ---------------------------------------------------------------- merkle (own, from the definition)
using H32 = std::array<unsigned char, 32>;
H32 DSha(const unsigned char* p, size_t n)
{
    H32 a, b;
    CSHA256().Write(p, n).Finalize(a.data());
    CSHA256().Write(a.data(), 32).Finalize(b.data());
    return b;
}
H32 NaiveMerkleRoot(std::vector<H32> level)
{
    if (level.empty()) return H32{};
    while (level.size() > 1) {
        if (level.size() & 1) level.push_back(level.back());
        std::vector<H32> next;
        for (size_t i = 0; i < level.size(); i += 2) {
            unsigned char buf[64];
            std::copy(level[i].begin(), level[i].end(), buf);
            std::copy(level[i + 1].begin(), level[i + 1].end(), buf + 32);
            next.push_back(DSha(buf, 64));
        }
        level.swap(next);
    }
    return level[0];
}

} // namespace

// ===================================================================================================== GCS
VH_CMD(flt_gcs)
{
    const int64_t maxn = args.geti("maxn", 20000);
    const uint64_t log_big_every = args.geti("log_big_every", 8);
    for (uint64_t c = args.from; c < args.to; ++c) {
        vh::set_case(c);
        vh::Rng rng(args.seed, c);
        uint8_t P;
        {
            const uint64_t r = rng.below(100);
            if (r < 20) P = 19;
            else if (r < 22) P = 0;
            else if (r < 45) P = 1 + rng.below(8);
            else if (r < 85) P = 9 + rng.below(16);
            else if (r < 97) P = 25 + rng.below(7);
            else P = 32;
        }
        uint64_t M;
        const uint64_t twoP = uint64_t{1} << P;
        switch (rng.below(6)) {
        case 0: M = (P == 19) ? 784931 : twoP; break;
        case 1: M = 1; break;
        case 2: M = twoP; break;
        case 3: M = twoP + twoP / 2; break;
        default: M = 1 + rng.below(std::min<uint64_t>(twoP * 8, 0xffffffffULL)); break;
        }
        if (M > 0xffffffffULL) M = 0xffffffffULL;
        if (M == 0) M = 1;
        GCSFilter::Params params(rng.next(), rng.next(), P, static_cast<uint32_t>(M));
        if (rng.chance(1, 20)) params.m_siphash_k0 = 0, params.m_siphash_k1 = 0;
        const size_t nraw = PickCount(rng, static_cast<size_t>(maxn));
        std::vector<Bytes> raw;
        GCSFilter::ElementSet set;
        size_t dups = 0;
        for (size_t i = 0; i < nraw; ++i) {
            if (!raw.empty() && rng.chance(1, 10)) {
                raw.push_back(raw[rng.below(raw.size())]);
                ++dups;
            } else {
                raw.push_back(RandElement(rng));
            }
            set.insert(raw.back());
        }
        // distinct elements in first-seen order (for the log)
        std::vector<Bytes> distinct;
        {
            std::set<Bytes> seen;
            for (const auto& e : raw)
                if (seen.insert(e).second) distinct.push_back(e);
        }
        bool bad = false;
        std::string enc_hex;
        uint32_t N = 0;
        try {
            GCSFilter filter(params, set);
            N = filter.GetN();
            const Bytes& enc = filter.GetEncoded();
            enc_hex = vh::Hex(enc);
            // 1. every inserted element matches
            std::vector<size_t> probe;
            if (distinct.size() <= 600) {
                for (size_t i = 0; i < distinct.size(); ++i) probe.push_back(i);
            } else {
                for (size_t i = 0; i < distinct.size(); i += distinct.size() / 500) probe.push_back(i);
                probe.push_back(distinct.size() - 1);
            }
            size_t checked = 0;
            for (size_t i : probe) {
                ++checked;
                if (!filter.Match(distinct[i])) {
                    bad = true;
                    vh::log().violation("gcs-false-negative", "GCSFilter::Match is false for an inserted element",
                                        vh::J().u("P", P).u("M", M).u("N", N).hex("element", distinct[i]).u("index", i));
                    break;
                }
            }
            vh::log().obs("gcs_match_checks", static_cast<int64_t>(checked));
            // 2. MatchAny on query sets that contain at least one member
            for (int q = 0; q < 4 && !distinct.empty(); ++q) {
                GCSFilter::ElementSet query;
                const size_t members = 1 + rng.below(std::min<size_t>(3, distinct.size()));
                Bytes one;
                for (size_t k = 0; k < members; ++k) {
                    one = distinct[rng.below(distinct.size())];
                    query.insert(one);
                }
                const size_t strangers = q == 0 ? 0 : rng.below(q == 3 ? 200 : 20);
                for (size_t k = 0; k < strangers; ++k) query.insert(rng.bytes(33 + rng.below(3))); // lengths never generated as members w.h.p. distinct
                if (!filter.MatchAny(query)) {
                    bad = true;
                    vh::log().violation("gcs-matchany-false-negative", "GCSFilter::MatchAny is false for a query set containing an inserted element",
                                        vh::J().u("P", P).u("M", M).u("N", N).hex("member", one).u("query_size", query.size()));
                    break;
                }
                vh::log().obs("gcs_matchany_checks");
            }
            // 3. the encoding decodes (full decode check) and the decoded filter still matches
            try {
                GCSFilter re(params, enc, /*skip_decode_check=*/false);
                if (re.GetN() != N) {
                    bad = true;
                    vh::log().violation("gcs-redecode-n", "re-decoded filter has a different N", vh::J().u("N", N).u("reN", re.GetN()));
                }
                for (int k = 0; k < 8 && !distinct.empty(); ++k) {
                    const Bytes& e = distinct[k == 0 ? 0 : k == 1 ? distinct.size() - 1 : rng.below(distinct.size())];
                    if (!re.Match(e)) {
                        bad = true;
                        vh::log().violation("gcs-false-negative", "re-decoded GCSFilter::Match is false for an inserted element",
                                            vh::J().u("P", P).u("M", M).u("N", N).hex("element", e));
                        break;
                    }
                }
                vh::log().obs("gcs_redecode_ok");
            } catch (const std::exception& e) {
                bad = true;
                vh::log().violation("gcs-own-encoding-rejected", "GCSFilter refuses to decode its own encoding",
                                    vh::J().u("P", P).u("M", M).u("N", N).str("what", e.what()).str("enc", enc_hex.substr(0, 400)));
            }
        } catch (const std::exception& e) {
            bad = true;
            vh::log().violation("gcs-build-threw", "GCSFilter construction threw", vh::J().u("P", P).u("M", M).str("what", e.what()));
        }
        if (distinct.empty()) vh::log().obs("gcs_empty");
        if (dups) vh::log().obs("gcs_with_duplicates");
        if (P == 19 && M == 784931) vh::log().obs("gcs_basic_params");
        if (P == 0) vh::log().obs("gcs_P0");
        if (P == 32) vh::log().obs("gcs_P32");
        if (M == 1) vh::log().obs("gcs_M1");
        if (distinct.size() > 2000) vh::log().obs("gcs_large");
        vh::log().obs_max("gcs_n", static_cast<int64_t>(distinct.size()));

        const bool full = bad || distinct.size() <= 64 || (log_big_every && c % log_big_every == 0 && distinct.size() <= 2000) || (c % 64 == 0);
        vh::J j;
        j.u("case", c).str("fam", "gcs").u("P", P).u("M", M).str("k0", std::to_string(params.m_siphash_k0)).str("k1", std::to_string(params.m_siphash_k1))
            .u("n", distinct.size()).u("N", N).b("nt", !distinct.empty());
        uint64_t h = Fnv(reinterpret_cast<const unsigned char*>(enc_hex.data()), enc_hex.size());
        j.str("sig", std::to_string(h ^ (uint64_t(P) << 56) ^ M));
        if (full) {
            j.raw("elems", HexArr(distinct)).str("enc", enc_hex);
        }
        vh::log().rec(j);
    }
    return 0;
}

// ===================================================================================================== BlockFilter
VH_CMD(flt_blockfilter)
{
    for (uint64_t c = args.from; c < args.to; ++c) {
        vh::set_case(c);
        vh::Rng rng(args.seed, c);
        // script palette (so that scripts repeat across outputs and prevouts)
        std::vector<Bytes> pal;
        const size_t npal = 1 + rng.below(30);
        for (size_t i = 0; i < npal; ++i) {
            Bytes s;
            switch (rng.below(8)) {
            case 0: break;                                            // empty script
            case 1: s = rng.bytes(1 + rng.below(40)); s[0] = OP_RETURN; break; // data carrier
            case 2: s = {OP_RETURN}; break;
            default: s = rng.bytes(1 + rng.below(40)); if (s[0] == OP_RETURN) s[0] = OP_DUP; break;
            }
            pal.push_back(s);
        }
        CBlock block;
        block.nVersion = static_cast<int32_t>(rng.next());
        block.nTime = static_cast<uint32_t>(rng.next());
        block.nBits = static_cast<uint32_t>(rng.next());
        block.nNonce = static_cast<uint32_t>(rng.next());
        block.hashPrevBlock = uint256(rng.bytes(32));
        block.hashMerkleRoot = uint256(rng.bytes(32));
        CBlockUndo undo;
        const size_t ntx = 1 + rng.below(rng.chance(1, 10) ? 60 : 8);
        std::vector<Bytes> outs, prevs;
        for (size_t t = 0; t < ntx; ++t) {
            CMutableTransaction mtx;
            const size_t nin = 1 + rng.below(3);
            for (size_t i = 0; i < nin; ++i) mtx.vin.emplace_back(COutPoint(Txid::FromUint256(uint256(rng.bytes(32))), static_cast<uint32_t>(rng.below(4))));
            const size_t nout = rng.below(5);
            for (size_t i = 0; i < nout; ++i) {
                const Bytes& s = pal[rng.below(pal.size())];
                mtx.vout.emplace_back(static_cast<CAmount>(rng.below(100000000)), CScript(s.begin(), s.end()));
                outs.push_back(s);
            }
            block.vtx.push_back(MakeTransactionRef(std::move(mtx)));
            if (t > 0) {
                CTxUndo tu;
                for (size_t i = 0; i < nin; ++i) {
                    const Bytes& s = pal[rng.below(pal.size())];
                    tu.vprevout.emplace_back(CTxOut(static_cast<CAmount>(rng.below(100000000)), CScript(s.begin(), s.end())), static_cast<int>(rng.below(1000)), false);
                    prevs.push_back(s);
                }
                undo.vtxundo.push_back(std::move(tu));
            }
        }
        // expected elements by own reading of BIP158: every non-empty output script that does not start with OP_RETURN,
        // every non-empty spent script
        std::set<Bytes> expect;
        for (const auto& s : outs)
            if (!s.empty() && s[0] != OP_RETURN) expect.insert(s);
        for (const auto& s : prevs)
            if (!s.empty()) expect.insert(s);
        bool bad = false;
        std::string enc_hex;
        const uint256 bh = block.GetHash();
        try {
            BlockFilter bf(BlockFilterType::BASIC, block, undo);
            enc_hex = vh::Hex(bf.GetEncodedFilter());
            if (bf.GetBlockHash() != bh) {
                bad = true;
                vh::log().violation("blockfilter-hash", "BlockFilter::GetBlockHash differs from the block's hash", vh::J());
            }
            for (const auto& e : expect) {
                if (!bf.GetFilter().Match(e)) {
                    bad = true;
                    vh::log().violation("blockfilter-false-negative", "basic block filter does not match a script of the block",
                                        vh::J().hex("script", e).u("n", expect.size()));
                    break;
                }
            }
            vh::log().obs("bf_match_checks", static_cast<int64_t>(expect.size()));
            // serialization round trip (cfilter payload)
            DataStream ss;
            ss << bf;
            BlockFilter bf2;
            ss >> bf2;
            if (bf2.GetEncodedFilter() != bf.GetEncodedFilter() || bf2.GetBlockHash() != bh || bf2.GetFilterType() != BlockFilterType::BASIC) {
                bad = true;
                vh::log().violation("blockfilter-roundtrip", "BlockFilter serialization round trip changed the filter", vh::J());
            }
            for (const auto& e : expect) {
                if (!bf2.GetFilter().Match(e)) {
                    bad = true;
                    vh::log().violation("blockfilter-false-negative", "deserialized basic block filter does not match a script of the block", vh::J().hex("script", e));
                    break;
                }
            }
            vh::log().obs("bf_roundtrips");
        } catch (const std::exception& e) {
            bad = true;
            vh::log().violation("blockfilter-threw", "BlockFilter construction / round trip threw", vh::J().str("what", e.what()));
        }
        if (expect.empty()) vh::log().obs("bf_empty");
        bool has_opret = false, has_empty = false;
        for (const auto& s : outs) {
            if (s.empty()) has_empty = true;
            else if (s[0] == OP_RETURN) has_opret = true;
        }
        if (has_opret) vh::log().obs("bf_with_op_return");
        if (has_empty) vh::log().obs("bf_with_empty_script");
        vh::J j;
        j.u("case", c).str("fam", "bf").hex("block_hash", bh).raw("outs", HexArr(outs)).raw("prevs", HexArr(prevs)).str("enc", enc_hex)
            .u("n", expect.size()).b("nt", !expect.empty()).str("sig", std::to_string(Fnv(bh.data(), 32)));
        vh::log().rec(j);
    }
    return 0;
}

// ===================================================================================================== CBloomFilter
VH_CMD(flt_bloom)
{
    static const double FPS[] = {0.5, 0.1, 0.01, 0.001, 0.000001, 1e-12, 0.999999, 0.25, 0.00001};
    for (uint64_t c = args.from; c < args.to; ++c) {
        vh::set_case(c);
        vh::Rng rng(args.seed, c);
        unsigned nelem;
        switch (rng.below(6)) {
        case 0: nelem = 1 + rng.below(3); break;
        case 1: case 2: nelem = 1 + rng.below(50); break;
        case 3: case 4: nelem = 1 + rng.below(2000); break;
        default: nelem = 1 + rng.below(40000); break;
        }
        const double fp = FPS[rng.below(sizeof(FPS) / sizeof(FPS[0]))];
        const unsigned tweak = rng.chance(1, 8) ? 0 : static_cast<unsigned>(rng.next());
        const unsigned char flags = static_cast<unsigned char>(rng.below(3));
        CBloomFilter filter(nelem, fp, tweak, flags);
        size_t nins;
        switch (rng.below(4)) {
        case 0: nins = rng.below(4); break;
        case 1: nins = nelem; break;
        case 2: nins = rng.below(2 * nelem + 1); break;
        default: nins = rng.below(nelem + 1); break;
        }
        nins = std::min<size_t>(nins, 3000);
        std::vector<Bytes> keys;
        std::vector<COutPoint> ops;
        bool bad = false;
        for (size_t i = 0; i < nins && !bad; ++i) {
            if (rng.chance(1, 4)) {
                COutPoint op(Txid::FromUint256(uint256(rng.bytes(32))), rng.chance(1, 4) ? 0xffffffffu : static_cast<uint32_t>(rng.below(1000)));
                filter.insert(op);
                ops.push_back(op);
                if (!filter.contains(op)) {
                    bad = true;
                    vh::log().violation("bloom-false-negative", "CBloomFilter does not contain an outpoint right after insertion",
                                        vh::J().u("nelem", nelem).str("fp", std::to_string(fp)).u("tweak", tweak).u("i", i));
                }
            } else {
                Bytes k = RandElement(rng);
                filter.insert(k);
                keys.push_back(k);
                if (!filter.contains(k)) {
                    bad = true;
                    vh::log().violation("bloom-false-negative", "CBloomFilter does not contain a key right after insertion",
                                        vh::J().u("nelem", nelem).str("fp", std::to_string(fp)).u("tweak", tweak).u("i", i).hex("key", k));
                }
            }
        }
        // at the end everything inserted is still contained; also through a serialization round trip
        DataStream ss;
        ss << filter;
        CBloomFilter copy;
        ss >> copy;
        for (const auto& k : keys) {
            if (bad) break;
            if (!filter.contains(k) || !copy.contains(k)) {
                bad = true;
                vh::log().violation("bloom-false-negative", "CBloomFilter lost an inserted key", vh::J().u("nelem", nelem).str("fp", std::to_string(fp)).u("tweak", tweak).hex("key", k).u("inserted", nins));
            }
        }
        for (const auto& op : ops) {
            if (bad) break;
            if (!filter.contains(op) || !copy.contains(op)) {
                bad = true;
                vh::log().violation("bloom-false-negative", "CBloomFilter lost an inserted outpoint", vh::J().u("nelem", nelem).str("fp", std::to_string(fp)).u("tweak", tweak).u("inserted", nins));
            }
        }
        vh::log().obs("bloom_contains_checks", static_cast<int64_t>(2 * (keys.size() + ops.size())));
        if (!ops.empty()) vh::log().obs("bloom_outpoints");
        if (nins > nelem) vh::log().obs("bloom_overfull");
        if (nins == 0) vh::log().obs("bloom_nothing_inserted");
        if (!filter.IsWithinSizeConstraints()) vh::log().obs("bloom_outside_constraints");
        // a stranger that is reported absent shows that the filter is not trivially "match all"
        bool discriminates = false;
        for (int k = 0; k < 8 && !discriminates; ++k) discriminates = !filter.contains(rng.bytes(37));
        if (discriminates) vh::log().obs("bloom_discriminating");
        else vh::log().obs("bloom_match_all_like");
        vh::J j;
        j.u("case", c).str("fam", "bloom").u("nelem", nelem).str("fp", std::to_string(fp)).u("ins", nins).b("nt", nins > 0 && discriminates)
            .str("sig", std::to_string(Fnv(reinterpret_cast<const unsigned char*>(ss.data()), ss.size()) ^ c));
        vh::log().rec(j);
    }
    return 0;
}

// ===================================================================================================== CRollingBloomFilter
VH_CMD(flt_rbloom)
{
    static const double FPS[] = {0.5, 0.1, 0.01, 0.001, 0.000001, 1e-9, 0.9, 0.3};
    const int64_t max_inserts = args.geti("max_inserts", 12000);
    for (uint64_t c = args.from; c < args.to; ++c) {
        vh::set_case(c);
        vh::Rng rng(args.seed, c);
        unsigned n;
        switch (rng.below(8)) {
        case 0: n = 1; break;
        case 1: n = 2 + rng.below(3); break;
        case 2: case 3: n = 1 + rng.below(40); break;
        case 4: case 5: n = 1 + rng.below(300); break;
        case 6: n = 2 * (1 + rng.below(500)) + 1; break; // odd
        default: n = 1 + rng.below(3000); break;
        }
        const double fp = FPS[rng.below(sizeof(FPS) / sizeof(FPS[0]))];
        CRollingBloomFilter filter(n, fp);
        const unsigned gen = (n + 1) / 2; // entries per generation per the class documentation: ceil(n/2)
        size_t total = std::min<size_t>(static_cast<size_t>(max_inserts), n * (1 + rng.below(9)) + rng.below(2 * n + 2));
        std::deque<Bytes> window; // the most recent <= n inserted keys, oldest first
        bool bad = false;
        size_t inserted_since_reset = 0, full_checks = 0, edge_checks = 0, resets = 0, reinserts = 0;
        const uint32_t p_reinsert = std::vector<uint32_t>{0, 0, 5, 30}[rng.below(4)];
        const uint32_t keylen_mode = rng.below(3);
        auto full_check = [&](const char* when) {
            ++full_checks;
            for (size_t i = 0; i < window.size(); ++i) {
                if (!filter.contains(window[i])) {
                    bad = true;
                    vh::log().violation("rolling-bloom-forgot-recent", "CRollingBloomFilter does not contain one of the last n inserted keys",
                                        vh::J().u("n", n).str("fp", std::to_string(fp)).u("age", window.size() - i).u("inserted_since_reset", inserted_since_reset).str("when", when).hex("key", window[i]));
                    return;
                }
            }
        };
        for (size_t i = 0; i < total && !bad; ++i) {
            if (rng.chance(1, 4000)) {
                filter.reset();
                window.clear();
                inserted_since_reset = 0;
                ++resets;
            }
            Bytes k;
            if (!window.empty() && rng.below(100) < p_reinsert) {
                k = window[rng.below(window.size())];
                ++reinserts;
            } else {
                k = keylen_mode == 0 ? rng.bytes(32) : keylen_mode == 1 ? rng.bytes(4) : RandElement(rng);
            }
            filter.insert(k);
            ++inserted_since_reset;
            window.push_back(k);
            if (window.size() > n) window.pop_front();
            // window edges after every insert: newest, oldest still guaranteed, one random
            ++edge_checks;
            const Bytes* probes[3] = {&window.back(), &window.front(), &window[rng.below(window.size())]};
            for (int p = 0; p < 3 && !bad; ++p) {
                if (!filter.contains(*probes[p])) {
                    bad = true;
                    vh::log().violation("rolling-bloom-forgot-recent", "CRollingBloomFilter does not contain one of the last n inserted keys",
                                        vh::J().u("n", n).str("fp", std::to_string(fp)).u("probe", p).u("window", window.size()).u("inserted_since_reset", inserted_since_reset).hex("key", *probes[p]));
                }
            }
            // the whole window right before and right after a generation switch
            const size_t m = inserted_since_reset % gen;
            if (!bad && (m == 0 || m == 1) && (window.size() <= 400 || rng.chance(1, 8))) full_check(m == 0 ? "generation-full" : "generation-start");
        }
        if (!bad) full_check("end");
        vh::log().obs("rb_edge_checks", static_cast<int64_t>(edge_checks));
        vh::log().obs("rb_full_window_checks", static_cast<int64_t>(full_checks));
        if (resets) vh::log().obs("rb_resets", static_cast<int64_t>(resets));
        if (reinserts) vh::log().obs("rb_with_reinserts");
        if (total >= 3 * size_t{gen}) vh::log().obs("rb_wrapped_generations");
        if (total > n) vh::log().obs("rb_window_slid");
        if (n == 1) vh::log().obs("rb_n1");
        if (n & 1) vh::log().obs("rb_odd_n");
        bool discriminates = false;
        for (int k = 0; k < 8 && !discriminates; ++k) discriminates = !filter.contains(rng.bytes(37));
        if (discriminates) vh::log().obs("rb_discriminating");
        vh::J j;
        j.u("case", c).str("fam", "rbloom").u("n", n).str("fp", std::to_string(fp)).u("ins", total).b("nt", total > n && discriminates)
            .str("sig", std::to_string((uint64_t(n) << 32) ^ total ^ (c << 48)));
        vh::log().rec(j);
    }
    return 0;
}

// ===================================================================================================== CPartialMerkleTree
VH_CMD(flt_pmt)
{
    const uint64_t log_big_every = args.geti("log_big_every", 8);
    for (uint64_t c = args.from; c < args.to; ++c) {
        vh::set_case(c);
        vh::Rng rng(args.seed, c);
        size_t ntx;
        {
            static const size_t SPECIAL[] = {1, 2, 3, 4, 5, 6, 7, 8, 9, 15, 16, 17, 31, 32, 33, 63, 64, 65, 127, 128, 129, 255, 256, 257};
            const uint64_t r = rng.below(100);
            if (r < 45) ntx = SPECIAL[rng.below(sizeof(SPECIAL) / sizeof(SPECIAL[0]))];
            else if (r < 85) ntx = 1 + rng.below(100);
            else if (r < 98) ntx = 1 + rng.below(1200);
            else ntx = 1 + rng.below(4200);
        }
        std::vector<Txid> txids;
        std::vector<H32> leaves;
        std::set<H32> uniq;
        while (txids.size() < ntx) {
            H32 h;
            rng.fill(h.data(), 32);
            if (rng.chance(1, 50)) std::fill(h.begin() + 1, h.end(), 0); // tiny ids
            if (!uniq.insert(h).second) continue; // the transaction ids of a block are unique
            leaves.push_back(h);
            txids.push_back(Txid::FromUint256(uint256(std::span<const unsigned char>(h.data(), 32))));
        }
        std::vector<bool> match(ntx, false);
        const uint64_t mode = rng.below(8);
        switch (mode) {
        case 0: break; // none
        case 1: std::fill(match.begin(), match.end(), true); break;
        case 2: match[0] = true; break;
        case 3: match[ntx - 1] = true; break;
        case 4: match[rng.below(ntx)] = true; break;
        case 5: for (size_t i = 0; i < ntx; ++i) match[i] = rng.chance(1, 2); break;
        case 6: for (size_t i = 0; i < ntx; ++i) match[i] = rng.chance(1, 16); break;
        default: { // a contiguous run
            size_t a = rng.below(ntx), b = rng.below(ntx);
            if (a > b) std::swap(a, b);
            for (size_t i = a; i <= b; ++i) match[i] = true;
        }
        }
        std::vector<unsigned> want_idx;
        for (size_t i = 0; i < ntx; ++i)
            if (match[i]) want_idx.push_back(static_cast<unsigned>(i));
        const H32 root = NaiveMerkleRoot(leaves);
        const uint256 root256{std::span<const unsigned char>(root.data(), 32)};

        bool bad = false;
        auto verify = [&](CPartialMerkleTree& t, const char* what) {
            std::vector<Txid> got;
            std::vector<unsigned> idx;
            const uint256 r = t.ExtractMatches(got, idx);
            vh::J d;
            d.u("ntx", ntx).u("nmatch", want_idx.size()).str("stage", what);
            if (r != root256) {
                bad = true;
                vh::log().violation("pmt-wrong-root", "ExtractMatches does not return the merkle root of the txid list",
                                    d.hex("got", r).hex("want", root256));
                return;
            }
            if (got.size() != want_idx.size() || idx.size() != want_idx.size()) {
                bad = true;
                vh::log().violation("pmt-wrong-matches", "ExtractMatches returns a different number of matches", d.u("got", got.size()).u("got_idx", idx.size()));
                return;
            }
            for (size_t i = 0; i < want_idx.size(); ++i) {
                if (idx[i] != want_idx[i] || got[i] != txids[want_idx[i]]) {
                    bad = true;
                    vh::log().violation("pmt-wrong-matches", "ExtractMatches returns a wrong txid or position", d.u("i", i).u("got_idx", idx[i]).u("want_idx", want_idx[i]));
                    return;
                }
            }
        };
        std::string ser_hex;
        try {
            CPartialMerkleTree pmt(txids, match);
            if (pmt.GetNumTransactions() != ntx) {
                bad = true;
                vh::log().violation("pmt-wrong-count", "GetNumTransactions differs from the number of txids", vh::J().u("ntx", ntx).u("got", pmt.GetNumTransactions()));
            }
            verify(pmt, "built");
            DataStream ss;
            ss << pmt;
            ser_hex = vh::Hex(ss);
            CPartialMerkleTree pmt2;
            ss >> pmt2;
            if (!bad) verify(pmt2, "deserialized");
            vh::log().obs("pmt_roundtrips");
        } catch (const std::exception& e) {
            bad = true;
            vh::log().violation("pmt-threw", "CPartialMerkleTree build / round trip threw", vh::J().u("ntx", ntx).str("what", e.what()));
        }
        static const char* MODE[] = {"none", "all", "first", "last", "single", "half", "sparse", "run"};
        vh::log().obs(std::string("pmt_match_") + MODE[mode]);
        if (ntx == 1) vh::log().obs("pmt_single_tx");
        if (ntx & 1) vh::log().obs("pmt_odd_width");
        if ((ntx & (ntx - 1)) == 0) vh::log().obs("pmt_power_of_two");
        if (ntx > 1000) vh::log().obs("pmt_large");
        vh::log().obs_max("pmt_ntx", static_cast<int64_t>(ntx));
        vh::J j;
        j.u("case", c).str("fam", "pmt").u("ntx", ntx).u("nmatch", want_idx.size()).hex("root", root).b("nt", ntx > 1)
            .str("sig", std::to_string(Fnv(root.data(), 32) ^ want_idx.size()));
        if (bad || ntx <= 64 || (log_big_every && c % log_big_every == 0)) {
            std::vector<Bytes> ids;
            for (const auto& l : leaves) ids.emplace_back(l.begin(), l.end());
            std::string m;
            for (bool b : match) m += b ? '1' : '0';
            j.raw("txids", HexArr(ids)).str("match", m).str("ser", ser_hex.size() <= 40000 ? ser_hex : std::string());
        }
        vh::log().rec(j);
    }
    return 0;
}
