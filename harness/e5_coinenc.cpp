// C18: UTXO database encodings. Inputs are generated here, the node's encoders/decoders are called, inputs and
// outputs are logged; the oracle is /verif/pyref/coin_ref.py (own CompressAmount, script compression with secp256k1
// point recovery, VARINT, Coin / TxInUndo formats, coins-DB key format).
//
// Sub-commands:
//   amountcomp   CompressAmount / DecompressAmount / AmountCompression on d*10^e +- k tables and random amounts
//   coinenc      one coin per case: CompressScript, ScriptCompression, Coin, TxInUndoFormatter, CTxUndo; decode again
//   coindb       coins -> CCoinsViewCache::Flush -> CCoinsViewDB::BatchWrite (LevelDB under $TMPDIR) -> fresh
//                CCoinsViewDB on the same directory -> GetCoin / Cursor / raw records
#include <common/vh.h>

#include <coins.h>
#include <compressor.h>
#include <consensus/amount.h>
#include <dbwrapper.h>
#include <key.h>
#include <primitives/transaction.h>
#include <pubkey.h>
#include <script/script.h>
#include <serialize.h>
#include <streams.h>
#include <txdb.h>
#include <uint256.h>
#include <undo.h>
#include <util/fs.h>

#include <cstdlib>
#include <ios>
#include <memory>
#include <string>
#include <vector>

namespace {
using Bytes = std::vector<unsigned char>;

std::string JHex(const Bytes& b) { return "\"" + vh::Hex(b) + "\""; }
Bytes StreamBytes(const DataStream& ss) { return Bytes(UCharCast(ss.data()), UCharCast(ss.data()) + ss.size()); }

CAmount GenAmount(vh::Rng& r)
{
    switch (r.below(8)) {
    case 0: return r.range(0, MAX_MONEY);
    case 1: return MAX_MONEY - static_cast<CAmount>(r.below(4));
    case 2: return static_cast<CAmount>(r.below(1000));
    case 3: {
        CAmount pw = 1;
        for (uint64_t k = r.below(16); k > 0; --k) pw *= 10;
        CAmount v = static_cast<CAmount>(1 + r.below(9)) * pw + r.range(-3, 3);
        return std::min<CAmount>(MAX_MONEY, std::max<CAmount>(0, v));
    }
    case 4: {
        CAmount pw = 1;
        for (uint64_t k = r.below(15); k > 0; --k) pw *= 10;
        const __int128 v = static_cast<__int128>(r.below(100000)) * pw;
        return v > MAX_MONEY ? MAX_MONEY : static_cast<CAmount>(v);
    }
    case 5: return static_cast<CAmount>(r.below(21000000)) * COIN;
    case 6: return static_cast<CAmount>(r.below(2100000000ULL)) * 1000000;
    default: return r.range(0, MAX_MONEY) / 1000 * 1000;
    }
}

uint32_t GenHeight(vh::Rng& r)
{
    switch (r.below(8)) {
    case 0: return 0;
    case 1: return 1;
    case 2: return 1u << 30;
    case 3: return (1u << 31) - 1;
    case 4: return static_cast<uint32_t>(r.below(3));
    case 5: return static_cast<uint32_t>(63 + r.below(3)); // code 127/128: VARINT length boundary
    case 6: return static_cast<uint32_t>(8254 + r.below(4)); // code 16511/16512
    default: return static_cast<uint32_t>(r.below(1u << 31));
    }
}

// uncompressed public key of a random secret (valid curve point)
Bytes ValidPoint(vh::Rng& r)
{
    for (;;) {
        Bytes sec = r.bytes(32);
        CKey k;
        k.Set(sec.begin(), sec.end(), /*fCompressedIn=*/false);
        if (!k.IsValid()) continue;
        CPubKey pk = k.GetPubKey();
        return Bytes(pk.begin(), pk.end());
    }
}

const char* const CLS[] = {"p2pkh", "p2sh", "p2pk_c_valid", "p2pk_c_random", "p2pk_u_valid", "p2pk_u_invalid", "p2pk_hybrid", "template_perturbed",
                           "len_0_80", "len_varint1", "len_maxscript", "len_varint2", "p2pk_bad_tail", "random", "witness_program", "special_values"};
constexpr int NCLS = 16;

Bytes GenScript(vh::Rng& r, int cls, uint64_t idx)
{
    Bytes s;
    auto p2pkh = [&](const Bytes& h) {
        Bytes x{0x76, 0xa9, 0x14};
        x.insert(x.end(), h.begin(), h.end());
        x.push_back(0x88);
        x.push_back(0xac);
        return x;
    };
    auto p2sh = [&](const Bytes& h) {
        Bytes x{0xa9, 0x14};
        x.insert(x.end(), h.begin(), h.end());
        x.push_back(0x87);
        return x;
    };
    auto p2pk = [&](const Bytes& key) {
        Bytes x{static_cast<unsigned char>(key.size())};
        x.insert(x.end(), key.begin(), key.end());
        x.push_back(0xac);
        return x;
    };
    switch (cls) {
    case 0: return p2pkh(r.chance(1, 10) ? Bytes(20, r.coin() ? 0 : 0xff) : r.bytes(20));
    case 1: return p2sh(r.chance(1, 10) ? Bytes(20, r.coin() ? 0 : 0xff) : r.bytes(20));
    case 2: {
        Bytes u = ValidPoint(r);
        Bytes c(u.begin(), u.begin() + 33);
        c[0] = 2 + (u[64] & 1);
        return p2pk(c);
    }
    case 3: {
        Bytes c = r.bytes(33);
        c[0] = 2 + static_cast<unsigned char>(r.below(2));
        return p2pk(c);
    }
    case 4: return p2pk(ValidPoint(r));
    case 5: {
        Bytes u = ValidPoint(r);
        switch (r.below(5)) {
        case 0: u[64] ^= 1; break;                                             // y off by one
        case 1: u[1 + r.below(64)] ^= static_cast<unsigned char>(1u << r.below(8)); break; // single bit flip
        case 2: {
            Bytes y = r.bytes(32);
            std::copy(y.begin(), y.end(), u.begin() + 33);
            break;
        }
        case 3: std::fill(u.begin() + 1, u.begin() + 33, 0xff); break;          // x >= p
        default: std::fill(u.begin() + 33, u.end(), 0xff); break;              // y >= p
        }
        return p2pk(u);
    }
    case 6: {
        Bytes u = ValidPoint(r);
        u[0] = 6 + (u[64] & 1);
        if (r.chance(1, 4)) u[0] ^= 1; // wrong hybrid parity
        return p2pk(u);
    }
    case 7: {
        // a template with one defect
        Bytes base;
        switch (r.below(4)) {
        case 0: base = p2pkh(r.bytes(20)); break;
        case 1: base = p2sh(r.bytes(20)); break;
        case 2: {
            Bytes u = ValidPoint(r);
            Bytes c(u.begin(), u.begin() + 33);
            c[0] = 2 + (u[64] & 1);
            base = p2pk(c);
            break;
        }
        default: base = p2pk(ValidPoint(r));
        }
        switch (r.below(5)) {
        case 0: base.push_back(r.coin() ? 0 : base.back()); break; // one byte longer
        case 1: base.pop_back(); break;                              // one byte shorter
        case 2: base.insert(base.begin(), base.front()); break;      // shifted
        case 3: {
            // change one of the fixed (non-payload) bytes
            std::vector<size_t> fixed;
            if (base.size() == 25) fixed = {0, 1, 2, 23, 24};
            else if (base.size() == 23) fixed = {0, 1, 22};
            else if (base.size() == 35) fixed = {0, 1, 34};
            else fixed = {0, 1, 66};
            size_t at = fixed[r.below(fixed.size())];
            base[at] = static_cast<unsigned char>(base[at] + (r.coin() ? 1 : -1));
            break;
        }
        default: base.erase(base.begin() + r.below(base.size())); break;
        }
        return base;
    }
    case 8: return r.bytes(idx % 81);
    case 9: return r.bytes(119 + idx % 6);      // nSize+6 = 125..130 straddles the 1/2-byte VARINT boundary (127/128)
    case 10: return r.bytes(9998 + idx % 6);    // MAX_SCRIPT_SIZE = 10000
    case 11: return r.bytes(16503 + idx % 6);   // nSize+6 = 16511/16512: 2/3-byte VARINT boundary
    case 12: {
        Bytes s2 = r.coin() ? p2pk(ValidPoint(r)) : p2pk([&] { Bytes u = ValidPoint(r); Bytes c(u.begin(), u.begin() + 33); c[0] = 2 + (u[64] & 1); return c; }());
        s2.back() = static_cast<unsigned char>(r.coin() ? 0xad : r.below(256));
        return s2;
    }
    case 13: return r.bytes(r.below(600));
    case 14: {
        Bytes x{static_cast<unsigned char>(r.coin() ? 0x00 : 0x51), static_cast<unsigned char>(r.coin() ? 20 : 32)};
        Bytes prog = r.bytes(x[1]);
        x.insert(x.end(), prog.begin(), prog.end());
        return x;
    }
    default: {
        // special x / y values inside p2pk templates
        static const char* P_HEX = "fffffffffffffffffffffffffffffffffffffffffffffffffffffffefffffc2f";
        Bytes pb = vh::UnHex(P_HEX);
        Bytes x(32, 0);
        switch (r.below(5)) {
        case 0: break;                         // x = 0
        case 1: x = pb; break;                 // x = p
        case 2: x = pb; x[31] -= 1; break;     // x = p-1
        case 3: x[31] = static_cast<unsigned char>(1 + r.below(8)); break; // tiny x
        default: x = pb; x[31] += 1; break;    // x = p+1
        }
        if (r.coin()) {
            Bytes c{static_cast<unsigned char>(2 + r.below(2))};
            c.insert(c.end(), x.begin(), x.end());
            return p2pk(c);
        }
        Bytes u{4};
        u.insert(u.end(), x.begin(), x.end());
        Bytes y = r.coin() ? Bytes(32, 0) : r.bytes(32);
        u.insert(u.end(), y.begin(), y.end());
        return p2pk(u);
    }
    }
}

std::string CoinFields(const Coin& c, const Bytes* same_script)
{
    Bytes spk(c.out.scriptPubKey.begin(), c.out.scriptPubKey.end());
    const bool same = same_script && spk == *same_script;
    return "[" + std::to_string(c.nHeight) + "," + (c.fCoinBase ? "true" : "false") + "," + std::to_string(c.out.nValue) + "," + (same ? std::string("\"=\"") : JHex(spk)) + "]";
}

// raw byte blob for reading whole LevelDB keys / values through the wrapper's typed interface
struct RawBlob {
    Bytes data;
    template <typename Stream>
    void Unserialize(Stream& s)
    {
        data.resize(s.size());
        if (!data.empty()) s.read(std::as_writable_bytes(std::span{data}));
    }
};
} // namespace

// ================================================================================================ amountcomp
VH_CMD(amountcomp)
{
    const int64_t batch = args.geti("batch", 64);
    // boundary table d*10^e + k
    std::vector<CAmount> table{0, 1, MAX_MONEY, MAX_MONEY - 1, COIN, 50 * COIN, 1000000};
    for (int d = 1; d <= 9; ++d) {
        CAmount pw = 1;
        for (int e = 0; e <= 15; ++e, pw *= 10) {
            for (int k = -3; k <= 3; ++k) {
                CAmount v = d * pw + k;
                if (v >= 0 && v <= MAX_MONEY) table.push_back(v);
            }
        }
    }
    const uint64_t table_cases = (table.size() + batch - 1) / batch;
    for (uint64_t c = args.from; c < args.to; ++c) {
        vh::set_case(c);
        vh::Rng rng(args.seed, c);
        std::vector<std::string> items;
        for (int64_t i = 0; i < batch; ++i) {
            CAmount v;
            if (c < table_cases) {
                const size_t at = c * batch + i;
                if (at >= table.size()) break;
                v = table[at];
                vh::log().obs("boundary_amounts");
            } else {
                v = GenAmount(rng);
                vh::log().obs("random_amounts");
            }
            const uint64_t comp = CompressAmount(static_cast<uint64_t>(v));
            const uint64_t back = DecompressAmount(comp);
            DataStream ss;
            ss << Using<AmountCompression>(v);
            const Bytes enc = StreamBytes(ss);
            CAmount v2 = -1;
            bool ok = true;
            try {
                ss >> Using<AmountCompression>(v2);
                ok = ss.empty();
            } catch (const std::ios_base::failure&) {
                ok = false;
            }
            items.push_back("[" + std::to_string(v) + "," + std::to_string(comp) + "," + std::to_string(back) + "," + JHex(enc) + "," + (ok ? std::to_string(v2) : std::string("null")) + "]");
        }
        vh::log().rec(vh::J().u("case", c).str("k", "amt").raw("a", vh::JArr(items)));
    }
    return 0;
}

// ================================================================================================ coinenc
VH_CMD(coinenc)
{
    ECC_Context ecc;
    for (uint64_t c = args.from; c < args.to; ++c) {
        vh::set_case(c);
        vh::Rng rng(args.seed, c);
        const int cls = static_cast<int>(c % NCLS);
        const Bytes spk = GenScript(rng, cls, c / NCLS);
        const CScript script(spk.begin(), spk.end());
        const CAmount value = GenAmount(rng);
        const uint32_t height = GenHeight(rng);
        const bool cb = rng.coin();
        vh::J j;
        j.u("case", c).str("k", "coin").str("cls", CLS[cls]).hex("spk", spk).i("v", value).u("h", height).b("cb", cb);
        vh::log().obs(std::string("cls_") + CLS[cls]);

        // CompressScript (the predicate + special encoding)
        CompressedScript comp;
        const bool special = CompressScript(script, comp);
        j.raw("cs", special ? "[true," + JHex(Bytes(comp.begin(), comp.end())) + "]" : std::string("[false]"));
        if (special) vh::log().obs("enc_special_" + std::to_string(comp[0])); else vh::log().obs("enc_raw");

        // ScriptCompression formatter
        {
            DataStream ss;
            ss << Using<ScriptCompression>(script);
            j.hex("sc", StreamBytes(ss));
            CScript back;
            std::string res;
            try {
                ss >> Using<ScriptCompression>(back);
                Bytes b(back.begin(), back.end());
                res = (ss.empty() ? "" : "!") + (b == spk ? std::string("=") : vh::Hex(b));
            } catch (const std::ios_base::failure&) {
                res = "fail";
            }
            j.str("sc_rt", res);
        }
        // Coin
        const Coin coin(CTxOut(value, script), static_cast<int>(height), cb);
        Bytes coin_bytes;
        {
            DataStream ss;
            ss << coin;
            coin_bytes = StreamBytes(ss);
            j.hex("coin", coin_bytes);
            Coin back;
            try {
                ss >> back;
                j.raw("coin_rt", ss.empty() ? CoinFields(back, &spk) : std::string("\"trailing\""));
            } catch (const std::ios_base::failure&) {
                j.raw("coin_rt", "\"fail\"");
            }
        }
        // TxInUndoFormatter
        {
            DataStream ss;
            ss << Using<TxInUndoFormatter>(coin);
            j.hex("undo", StreamBytes(ss));
            Coin back;
            try {
                ss >> Using<TxInUndoFormatter>(back);
                j.raw("undo_rt", ss.empty() ? CoinFields(back, &spk) : std::string("\"trailing\""));
            } catch (const std::ios_base::failure&) {
                j.raw("undo_rt", "\"fail\"");
            }
            // legacy record: a non-zero / multi-byte version VARINT where the dummy byte is today
            if (height > 0) {
                DataStream legacy;
                const uint32_t code = height * 2 + (cb ? 1 : 0);
                const unsigned int version = rng.coin() ? static_cast<unsigned int>(1 + rng.below(2)) : static_cast<unsigned int>(rng.below(1u << 31));
                legacy << VARINT(code) << VARINT(version) << Using<TxOutCompression>(coin.out);
                j.hex("undo_legacy", StreamBytes(legacy));
                Coin lb;
                try {
                    legacy >> Using<TxInUndoFormatter>(lb);
                    j.raw("undo_legacy_rt", legacy.empty() ? CoinFields(lb, &spk) : std::string("\"trailing\""));
                } catch (const std::ios_base::failure&) {
                    j.raw("undo_legacy_rt", "\"fail\"");
                }
                vh::log().obs("undo_legacy_version");
            } else {
                vh::log().obs("undo_height0_no_dummy");
            }
        }
        // CTxUndo with a few more coins (small scripts) around this one
        {
            CTxUndo undo;
            std::vector<std::string> fj;
            const size_t n = rng.below(4);
            for (size_t i = 0; i <= n; ++i) {
                if (i == n / 2) {
                    undo.vprevout.push_back(coin);
                    fj.push_back("[" + std::to_string(height) + "," + (cb ? "true" : "false") + "," + std::to_string(value) + ",\"=\"]");
                } else {
                    Bytes s2 = GenScript(rng, static_cast<int>(rng.below(8)), rng.below(81));
                    Coin c2(CTxOut(GenAmount(rng), CScript(s2.begin(), s2.end())), static_cast<int>(GenHeight(rng)), rng.coin());
                    fj.push_back(CoinFields(c2, nullptr));
                    undo.vprevout.push_back(std::move(c2));
                }
            }
            DataStream ss;
            ss << undo;
            j.raw("txundo_f", vh::JArr(fj)).hex("txundo", StreamBytes(ss));
            CTxUndo back;
            std::vector<std::string> bj;
            try {
                ss >> back;
                for (auto& bc : back.vprevout) bj.push_back(CoinFields(bc, &spk));
                j.raw("txundo_rt", ss.empty() ? vh::JArr(bj) : std::string("\"trailing\""));
            } catch (const std::ios_base::failure&) {
                j.raw("txundo_rt", "\"fail\"");
            }
        }
        vh::log().rec(j);
    }
    return 0;
}

// ================================================================================================ coindb
VH_CMD(coindb)
{
    ECC_Context ecc;
    const int64_t ncoins = args.geti("coins", 48);
    const char* tmp = std::getenv("TMPDIR");
    const fs::path base = fs::PathFromString(tmp ? tmp : ".") / "vh_coindb";
    for (uint64_t c = args.from; c < args.to; ++c) {
        vh::set_case(c);
        vh::Rng rng(args.seed, c);
        const fs::path dir = base / fs::PathFromString("c" + std::to_string(c));
        fs::remove_all(dir);
        fs::create_directories(dir);
        const bool obfuscate = rng.coin();
        const uint64_t batch_bytes = rng.coin() ? 32 << 20 : 200 + rng.below(3000); // small: several partial LevelDB batches
        struct Item {
            Bytes txid;
            uint32_t n;
            Coin coin;
            Bytes spk;
        };
        std::vector<Item> items;
        for (int64_t i = 0; i < ncoins; ++i) {
            Item it;
            it.txid = (i > 0 && rng.chance(1, 3)) ? items.back().txid : rng.bytes(32);
            static const uint32_t NS[] = {0, 1, 2, 127, 128, 255, 16511, 16512, 65535, 0xfffffffe, 0xffffffff};
            it.n = rng.coin() ? NS[rng.below(11)] : static_cast<uint32_t>(rng.below(10000));
            bool dup = false;
            for (auto& o : items) dup |= (o.txid == it.txid && o.n == it.n);
            if (dup) continue;
            int cls = static_cast<int>(rng.below(NCLS));
            if (cls == 10 || cls == 11) cls = rng.chance(1, 4) ? 10 : 13; // keep most records small
            for (;;) {
                it.spk = GenScript(rng, cls, rng.below(1000));
                // the coins cache refuses unspendable outputs (OP_RETURN first / longer than MAX_SCRIPT_SIZE)
                if (!CScript(it.spk.begin(), it.spk.end()).IsUnspendable()) break;
                if (cls == 10) cls = 9;
            }
            it.coin = Coin(CTxOut(GenAmount(rng), CScript(it.spk.begin(), it.spk.end())), static_cast<int>(GenHeight(rng)), rng.coin());
            items.push_back(std::move(it));
        }
        const uint256 best{std::span<const unsigned char>{rng.bytes(32)}};
        std::string err;
        try {
            {
                CCoinsViewDB db{DBParams{.path = dir, .cache_bytes = 1 << 20, .memory_only = false, .wipe_data = true, .obfuscate = obfuscate},
                                CoinsViewOptions{.batch_write_bytes = batch_bytes}};
                CCoinsViewCache cache{&db};
                for (auto& it : items) {
                    Coin copy = it.coin;
                    cache.AddCoin(COutPoint(Txid::FromUint256(uint256{std::span<const unsigned char>{it.txid}}), it.n), std::move(copy), /*possible_overwrite=*/false);
                }
                cache.SetBestBlock(best);
                cache.Flush();
            }
            // fresh object on the same directory
            std::vector<std::string> fj, lj, cj, rj;
            {
                CCoinsViewDB db2{DBParams{.path = dir, .cache_bytes = 1 << 20, .memory_only = false, .wipe_data = false, .obfuscate = obfuscate}, CoinsViewOptions{}};
                for (auto& it : items) {
                    const COutPoint op(Txid::FromUint256(uint256{std::span<const unsigned char>{it.txid}}), it.n);
                    fj.push_back("[" + JHex(it.txid) + "," + std::to_string(it.n) + "," + CoinFields(it.coin, nullptr) + "]");
                    auto got = db2.GetCoin(op);
                    lj.push_back(got ? CoinFields(*got, &it.spk) : std::string("null"));
                    if (!db2.HaveCoin(op)) lj.back() = "\"havecoin-false\"";
                }
                if (db2.GetBestBlock() != best) err = "best-block";
                std::unique_ptr<CCoinsViewCursor> cur = db2.Cursor();
                for (; cur->Valid(); cur->Next()) {
                    COutPoint k;
                    Coin v;
                    if (cur->GetKey(k) && cur->GetValue(v)) {
                        cj.push_back("[\"" + vh::Hex(k.hash.ToUint256()) + "\"," + std::to_string(k.n) + "," + CoinFields(v, nullptr) + "]");
                    } else {
                        cj.push_back("null");
                    }
                }
            }
            // raw records
            {
                CDBWrapper raw{DBParams{.path = dir, .cache_bytes = 1 << 20, .memory_only = false, .wipe_data = false, .obfuscate = obfuscate}};
                std::unique_ptr<CDBIterator> it{raw.NewIterator()};
                for (it->SeekToFirst(); it->Valid(); it->Next()) {
                    RawBlob k, v;
                    if (it->GetKey(k) && it->GetValue(v)) rj.push_back("[" + JHex(k.data) + "," + JHex(v.data) + "]");
                }
            }
            vh::log().obs("db_roundtrips");
            vh::log().obs("db_coins", static_cast<int64_t>(items.size()));
            if (obfuscate) vh::log().obs("db_obfuscated");
            if (batch_bytes < (1 << 20)) vh::log().obs("db_partial_batches");
            vh::log().rec(vh::J().u("case", c).str("k", "db").b("obf", obfuscate).u("batch", batch_bytes).str("err", err)
                              .raw("f", vh::JArr(fj)).raw("loaded", vh::JArr(lj)).raw("cursor", vh::JArr(cj)).raw("raw", vh::JArr(rj)));
        } catch (const dbwrapper_error& e) {
            // environment problem (disk), not a property matter
            vh::log().rec(vh::J().u("case", c).str("k", "db_env_error").str("what", e.what()));
            vh::log().obs("db_env_errors");
        }
        fs::remove_all(dir);
    }
    return 0;
}
