// sim_chain: implementation. See sim_chain.h for the API and DESIGN §3-E1 for the intent.
// The reference ledger decides with its own rules; it uses the repository only for containers
// (CTransaction/CBlock/CScript), serialization and hashing.
#include <sim_chain.h>

#include <addresstype.h>
#include <addrman.h>
#include <arith_uint256.h>
#include <banman.h>
#include <chain.h>
#include <chainparams.h>
#include <consensus/merkle.h>
#include <hash.h>
#include <kernel/coinstats.h>
#include <net.h>
#include <net_processing.h>
#include <netgroup.h>
#include <node/blockstorage.h>
#include <node/chainstate.h>
#include <node/kernel_notifications.h>
#include <node/mining_args.h>
#include <node/peerman_args.h>
#include <pubkey.h>
#include <script/sign.h>
#include <script/solver.h>
#include <streams.h>
#include <test/util/net.h>
#include <test/util/txmempool.h>
#include <txdb.h>
#include <txmempool.h>
#include <util/time.h>
#include <util/translation.h>

#include <algorithm>
#include <cassert>
#include <stdexcept>

namespace sim {

// =========================================================================================================
// U256
// =========================================================================================================
U256 U256::operator+(const U256& o) const
{
    U256 r;
    unsigned __int128 c = 0;
    for (int i = 0; i < 4; ++i) {
        c += (unsigned __int128)w[i] + o.w[i];
        r.w[i] = (uint64_t)c;
        c >>= 64;
    }
    return r;
}
U256 U256::operator-(const U256& o) const
{
    U256 r;
    unsigned __int128 b = 0;
    for (int i = 0; i < 4; ++i) {
        unsigned __int128 x = (unsigned __int128)w[i] - o.w[i] - b;
        r.w[i] = (uint64_t)x;
        b = (x >> 64) ? 1 : 0;
    }
    return r;
}
U256 U256::operator~() const
{
    U256 r;
    for (int i = 0; i < 4; ++i) r.w[i] = ~w[i];
    return r;
}
U256 U256::Shl(unsigned n) const
{
    U256 r;
    if (n >= 256) return r;
    const unsigned limbs = n / 64, bits = n % 64;
    for (int i = 3; i >= 0; --i) {
        uint64_t v = 0;
        if (i >= (int)limbs) {
            v = w[i - limbs] << bits;
            if (bits && i - (int)limbs - 1 >= 0) v |= w[i - limbs - 1] >> (64 - bits);
        }
        r.w[i] = v;
    }
    return r;
}
U256 U256::Shr1() const
{
    U256 r;
    for (int i = 0; i < 4; ++i) {
        r.w[i] = w[i] >> 1;
        if (i < 3) r.w[i] |= w[i + 1] << 63;
    }
    return r;
}
U256 U256::Div(const U256& d) const
{
    assert(!d.IsZero());
    U256 q, rem;
    for (int i = 255; i >= 0; --i) {
        const bool top = rem.Bit(255);
        rem = rem.Shl(1);
        if (Bit(i)) rem.w[0] |= 1;
        if (top || rem >= d) {
            rem = rem - d;
            q.w[i / 64] |= uint64_t{1} << (i % 64);
        }
    }
    return q;
}
std::string U256::Hex() const
{
    char buf[65];
    std::snprintf(buf, sizeof buf, "%016llx%016llx%016llx%016llx", (unsigned long long)w[3], (unsigned long long)w[2], (unsigned long long)w[1], (unsigned long long)w[0]);
    return buf;
}
U256 U256::FromCompact(uint32_t bits, bool* negative, bool* overflow)
{
    const unsigned size = bits >> 24;
    uint32_t word = bits & 0x007fffff;
    U256 r;
    if (size <= 3) {
        word >>= 8 * (3 - size);
        r = From64(word);
    } else {
        r = From64(word).Shl(8 * (size - 3));
    }
    if (negative) *negative = word != 0 && (bits & 0x00800000) != 0;
    if (overflow) *overflow = word != 0 && ((size > 34) || (word > 0xff && size > 33) || (word > 0xffff && size > 32));
    return r;
}
U256 U256::FromHash(const uint256& h)
{
    U256 r;
    const unsigned char* p = h.begin();
    for (int i = 0; i < 4; ++i) {
        uint64_t v = 0;
        for (int j = 7; j >= 0; --j) v = (v << 8) | p[i * 8 + j];
        r.w[i] = v;
    }
    return r;
}
U256 U256::WorkFromBits(uint32_t bits)
{
    bool neg = false, ovf = false;
    U256 target = FromCompact(bits, &neg, &ovf);
    if (neg || ovf || target.IsZero()) return U256{};
    // 2^256 / (target+1) == ((2^256 - target - 1) / (target+1)) + 1 == (~target / (target+1)) + 1
    return (~target).Div(target + From64(1)) + From64(1);
}

// =========================================================================================================
// helpers
// =========================================================================================================
std::string ResultName(BlockValidationResult r)
{
    switch (r) {
    case BlockValidationResult::BLOCK_RESULT_UNSET: return "UNSET";
    case BlockValidationResult::BLOCK_CONSENSUS: return "CONSENSUS";
    case BlockValidationResult::BLOCK_CACHED_INVALID: return "CACHED_INVALID";
    case BlockValidationResult::BLOCK_INVALID_HEADER: return "INVALID_HEADER";
    case BlockValidationResult::BLOCK_MUTATED: return "MUTATED";
    case BlockValidationResult::BLOCK_MISSING_PREV: return "MISSING_PREV";
    case BlockValidationResult::BLOCK_INVALID_PREV: return "INVALID_PREV";
    case BlockValidationResult::BLOCK_TIME_FUTURE: return "TIME_FUTURE";
    case BlockValidationResult::BLOCK_HEADER_LOW_WORK: return "HEADER_LOW_WORK";
    }
    return "?";
}
std::string Verdict::ResultName() const { return valid ? "VALID" : sim::ResultName(result); }
const char* StageName(Stage s)
{
    switch (s) {
    case Stage::CHECKBLOCK: return "checkblock";
    case Stage::HEADER: return "header";
    case Stage::CONTEXTUAL: return "contextual";
    case Stage::MUTATED_CTX: return "mutated_ctx";
    case Stage::CONNECT: return "connect";
    }
    return "?";
}
const char* OutTypeName(OutType t)
{
    switch (t) {
    case OutType::P2PK: return "p2pk";
    case OutType::P2PKH: return "p2pkh";
    case OutType::P2WPKH: return "p2wpkh";
    case OutType::P2WSH: return "p2wsh";
    case OutType::P2TR: return "p2tr";
    case OutType::MULTISIG: return "multisig";
    case OutType::ANYONE: return "anyone";
    case OutType::P2SH_P2WPKH: return "p2sh_p2wpkh";
    case OutType::OP_RETURN_: return "op_return";
    }
    return "?";
}
std::string OutPointStr(const COutPoint& o) { return o.hash.ToString() + ":" + std::to_string(o.n); }
std::string CoinJson(const std::optional<Coin>& c)
{
    if (!c) return "null";
    return vh::J().i("value", c->out.nValue).hex("spk", c->out.scriptPubKey).i("height", c->nHeight).b("coinbase", c->IsCoinBase()).done();
}
std::string RefCoinJson(const RefCoin* c)
{
    if (!c) return "null";
    return vh::J().i("value", c->value).hex("spk", c->spk).i("height", c->height).b("coinbase", c->coinbase).done();
}
static Verdict ToVerdict(const BlockValidationState& st)
{
    Verdict v;
    v.valid = st.IsValid();
    v.result = st.GetResult();
    v.reason = st.GetRejectReason();
    v.debug = st.GetDebugMessage();
    return v;
}

std::string NodeOpts::Describe() const
{
    vh::J j;
    j.i("worker_threads", worker_threads).i("prevoutfetch_threads", prevoutfetch_threads).u("coins_cache_bytes", coins_cache_bytes)
        .b("coins_db_in_memory", coins_db_in_memory).b("block_tree_db_in_memory", block_tree_db_in_memory).u("db_batch_bytes", db_batch_bytes)
        .i("sig_cache_bytes", sig_cache_bytes).i("script_cache_bytes", script_cache_bytes).u("prune_target", prune_target).b("fast_prune", fast_prune)
        .str("assumed_valid_block", assumed_valid_block ? assumed_valid_block->ToString() : "").str("minimum_chain_work", minimum_chain_work ? minimum_chain_work->ToString() : "")
        .b("with_mempool", with_mempool).i("h_bip34", h_bip34).i("h_dersig", h_dersig).i("h_cltv", h_cltv).i("h_csv", h_csv).i("h_segwit", h_segwit);
    return j.done();
}

// =========================================================================================================
// VerdictRecorder
// =========================================================================================================
std::vector<Verdict> VerdictRecorder::Get(const uint256& hash) const
{
    std::lock_guard<std::mutex> l(m_mutex);
    auto it = m_verdicts.find(hash);
    return it == m_verdicts.end() ? std::vector<Verdict>{} : it->second;
}
std::optional<Verdict> VerdictRecorder::Last(const uint256& hash) const
{
    std::lock_guard<std::mutex> l(m_mutex);
    auto it = m_verdicts.find(hash);
    if (it == m_verdicts.end() || it->second.empty()) return std::nullopt;
    return it->second.back();
}
size_t VerdictRecorder::Count(const uint256& hash) const
{
    std::lock_guard<std::mutex> l(m_mutex);
    auto it = m_verdicts.find(hash);
    return it == m_verdicts.end() ? 0 : it->second.size();
}
std::vector<ChainEvent> VerdictRecorder::TakeEvents()
{
    std::lock_guard<std::mutex> l(m_mutex);
    std::vector<ChainEvent> r;
    r.swap(m_events);
    return r;
}
void VerdictRecorder::BlockChecked(const std::shared_ptr<const CBlock>& block, const BlockValidationState& state)
{
    std::lock_guard<std::mutex> l(m_mutex);
    ChainEvent e;
    e.kind = ChainEvent::CHECKED;
    e.hash = block->GetHash();
    e.verdict = ToVerdict(state);
    m_verdicts[e.hash].push_back(e.verdict);
    m_events.push_back(std::move(e));
}
void VerdictRecorder::BlockConnected(const kernel::ChainstateRole&, const std::shared_ptr<const CBlock>& block, const CBlockIndex* pindex)
{
    std::lock_guard<std::mutex> l(m_mutex);
    ChainEvent e;
    e.kind = ChainEvent::CONNECTED;
    e.hash = block->GetHash();
    e.height = pindex->nHeight;
    m_events.push_back(std::move(e));
}
void VerdictRecorder::BlockDisconnected(const std::shared_ptr<const CBlock>& block, const CBlockIndex* pindex)
{
    std::lock_guard<std::mutex> l(m_mutex);
    ChainEvent e;
    e.kind = ChainEvent::DISCONNECTED;
    e.hash = block->GetHash();
    e.height = pindex->nHeight;
    m_events.push_back(std::move(e));
}
void VerdictRecorder::UpdatedBlockTip(const CBlockIndex* pindexNew, const CBlockIndex*, bool)
{
    std::lock_guard<std::mutex> l(m_mutex);
    ChainEvent e;
    e.kind = ChainEvent::TIP;
    e.hash = pindexNew->GetBlockHash();
    e.height = pindexNew->nHeight;
    m_events.push_back(std::move(e));
}
void VerdictRecorder::ChainStateFlushed(const kernel::ChainstateRole&, const CBlockLocator& locator)
{
    std::lock_guard<std::mutex> l(m_mutex);
    ChainEvent e;
    e.kind = ChainEvent::FLUSHED;
    if (!locator.IsNull()) e.hash = locator.vHave.front();
    m_events.push_back(std::move(e));
}

std::string IndexInfo::Str() const
{
    if (!exists) return "none";
    std::string s = failed ? "FAILED" : "ok";
    s += have_data ? "+data" : ",no data";
    if (in_active_chain) s += ",active";
    return s;
}

// =========================================================================================================
// SimNode
// =========================================================================================================
namespace {
// Argument strings must outlive the base-class constructor, which runs before SimNode's members exist.
struct ArgStore {
    std::vector<std::string> strs;
    std::vector<const char*> ptrs;
};
ArgStore& PendingArgs()
{
    static ArgStore s;
    return s;
}
TestOpts MakeBaseOpts(const NodeOpts& o)
{
    ArgStore& a = PendingArgs();
    a.strs.clear();
    a.ptrs.clear();
    if (!o.debug_log) {
        a.strs.push_back("-nodebuglogfile");
        a.strs.push_back("-nodebug");
    }
    auto act = [&](const char* name, int h) {
        if (h >= 0) a.strs.push_back(std::string("-testactivationheight=") + name + "@" + std::to_string(h));
    };
    act("bip34", o.h_bip34);
    act("dersig", o.h_dersig);
    act("cltv", o.h_cltv);
    act("csv", o.h_csv);
    act("segwit", o.h_segwit);
    if (o.fast_prune) a.strs.push_back("-fastprune");
    for (const auto& s : o.extra_args) a.strs.push_back(s);
    for (const auto& s : a.strs) a.ptrs.push_back(s.c_str());
    TestOpts t;
    t.extra_args = a.ptrs;
    // the chainman made by the base constructor is thrown away; keep it in memory so that it leaves no files/locks
    t.coins_db_in_memory = true;
    t.block_tree_db_in_memory = true;
    t.setup_net = false;
    t.setup_validation_interface = true;
    return t;
}
} // namespace

SimNode::SimNode(const NodeOpts& opts) : ChainTestingSetup(ChainType::REGTEST, MakeBaseOpts(opts)), m_opts(opts)
{
    // Replace the chainman the base class made with one built from our options.
    m_node.chainman.reset();
    m_coins_db_in_memory = opts.coins_db_in_memory;
    m_block_tree_db_in_memory = opts.block_tree_db_in_memory;
    m_kernel_cache_sizes.coins = std::max<uint64_t>(opts.coins_cache_bytes, 1);
    m_kernel_cache_sizes.coins_db = std::max<uint64_t>(opts.coins_db_cache_bytes, 1);
    m_kernel_cache_sizes.block_tree_db = std::max<uint64_t>(opts.block_tree_db_cache_bytes, 1);
    if (!opts.with_mempool) m_node.mempool.reset();
    SetTime(opts.start_time);
    m_make_chainman = [this] { MakeChainman(); };
    m_make_chainman();
    LoadChainstate();
    m_rec = std::make_shared<VerdictRecorder>();
    m_node.validation_signals->RegisterSharedValidationInterface(m_rec);

    if (opts.setup_net) {
        m_node.netgroupman = std::make_unique<NetGroupManager>(NetGroupManager::NoAsmap());
        m_node.addrman = std::make_unique<AddrMan>(*m_node.netgroupman, /*deterministic=*/false, m_node.args->GetIntArg("-checkaddrman", 0));
        m_node.banman = std::make_unique<BanMan>(m_args.GetDataDirBase() / "banlist", nullptr, DEFAULT_MISBEHAVING_BANTIME);
        m_node.connman = std::make_unique<ConnmanTestMsg>(0x1337, 0x1337, *m_node.addrman, *m_node.netgroupman, Params());
        auto mining_args{node::ReadMiningArgs(*m_node.args)};
        if (mining_args) m_node.mining_args = std::move(*mining_args);
        PeerManager::Options peerman_opts;
        node::ApplyArgsManOptions(*m_node.args, peerman_opts);
        peerman_opts.deterministic_rng = true;
        if (!m_node.mempool) throw std::runtime_error("SimNode: setup_net needs with_mempool");
        m_node.peerman = PeerManager::make(*m_node.connman, *m_node.addrman, m_node.banman.get(), *m_node.chainman, *m_node.mempool, *m_node.warnings, peerman_opts);
        CConnman::Options options;
        options.m_msgproc = m_node.peerman.get();
        m_node.connman->Init(options);
    }
}

SimNode::~SimNode()
{
    if (m_node.validation_signals) {
        m_node.validation_signals->SyncWithValidationInterfaceQueue();
        if (m_rec) m_node.validation_signals->UnregisterSharedValidationInterface(m_rec);
    }
    m_node.peerman.reset();
}

void SimNode::MakeChainman()
{
    assert(!m_node.chainman);
    const CChainParams& chainparams = Params();
    ChainstateManager::Options chainman_opts{
        .chainparams = chainparams,
        .datadir = m_args.GetDataDirNet(),
        .check_block_index = m_opts.check_block_index,
        .notifications = *m_node.notifications,
        .signals = m_node.validation_signals.get(),
        .worker_threads_num = m_opts.worker_threads,
        .prevoutfetch_threads_num = m_opts.prevoutfetch_threads,
    };
    if (m_opts.db_batch_bytes) chainman_opts.coins_view.batch_write_bytes = m_opts.db_batch_bytes;
    if (m_opts.assumed_valid_block) chainman_opts.assumed_valid_block = *m_opts.assumed_valid_block;
    if (m_opts.minimum_chain_work) chainman_opts.minimum_chain_work = UintToArith256(*m_opts.minimum_chain_work);
    if (m_opts.sig_cache_bytes >= 0) chainman_opts.signature_cache_bytes = (size_t)m_opts.sig_cache_bytes;
    if (m_opts.script_cache_bytes >= 0) chainman_opts.script_execution_cache_bytes = (size_t)m_opts.script_cache_bytes;
    const node::BlockManager::Options blockman_opts{
        .chainparams = chainman_opts.chainparams,
        .prune_target = m_opts.prune_target,
        .fast_prune = m_opts.fast_prune,
        .blocks_dir = m_args.GetBlocksDirPath(),
        .notifications = chainman_opts.notifications,
        .block_tree_db_params = DBParams{
            .path = m_args.GetDataDirNet() / "blocks" / "index",
            .cache_bytes = m_kernel_cache_sizes.block_tree_db,
            .memory_only = m_opts.block_tree_db_in_memory,
            .wipe_data = false,
        },
    };
    m_node.chainman = std::make_unique<ChainstateManager>(*Assert(m_node.shutdown_signal), chainman_opts, blockman_opts);
}

void SimNode::LoadChainstate()
{
    auto& chainman{*Assert(m_node.chainman)};
    node::ChainstateLoadOptions options;
    options.mempool = m_node.mempool.get();
    options.coins_db_in_memory = m_opts.coins_db_in_memory;
    options.wipe_chainstate_db = false;
    options.prune = chainman.m_blockman.IsPruneMode();
    options.check_blocks = DEFAULT_CHECKBLOCKS;
    options.check_level = DEFAULT_CHECKLEVEL;
    options.require_full_verification = false;
    auto [status, error] = node::LoadChainstate(chainman, m_kernel_cache_sizes, options);
    if (status != node::ChainstateLoadStatus::SUCCESS) throw std::runtime_error("SimNode: LoadChainstate failed: " + error.original);
    std::tie(status, error) = node::VerifyLoadedChainstate(chainman, options);
    if (status != node::ChainstateLoadStatus::SUCCESS) throw std::runtime_error("SimNode: VerifyLoadedChainstate failed: " + error.original);
    m_node.notifications->setChainstateLoaded(true);
    BlockValidationState state;
    if (!chainman.ActiveChainstate().ActivateBestChain(state)) throw std::runtime_error("SimNode: ActivateBestChain failed: " + state.ToString());
}

bool SimNode::RestartChainman(bool clean)
{
    if (m_node.peerman) throw std::runtime_error("SimNode: RestartChainman with setup_net is not supported");
    m_node.validation_signals->SyncWithValidationInterfaceQueue();
    if (clean) {
        LOCK(::cs_main);
        for (const auto& cs : m_node.chainman->m_chainstates) {
            if (cs->CanFlushToDisk()) cs->ForceFlushStateToDisk();
        }
    }
    m_node.validation_signals->SyncWithValidationInterfaceQueue();
    if (m_node.mempool) {
        // the mempool refers to nothing in the chainman, but entries would be checked against the new coins view
        bilingual_str error;
        m_node.mempool = std::make_unique<CTxMemPool>(MemPoolOptionsForTest(m_node), error);
    }
    m_node.chainman.reset();
    m_node.notifications->setChainstateLoaded(false);
    MakeChainman();
    try {
        LoadChainstate();
    } catch (const std::runtime_error&) {
        return false;
    }
    return true;
}

Chainstate& SimNode::ActiveCs()
{
    LOCK(::cs_main);
    return m_node.chainman->ActiveChainstate();
}

void SimNode::SetTime(int64_t t)
{
    m_time = t;
    SetMockTime(t);
}

void SimNode::Sync() { m_node.validation_signals->SyncWithValidationInterfaceQueue(); }

SubmitResult SimNode::SubmitBlock(const std::shared_ptr<const CBlock>& block, bool force_processing, bool min_pow_checked)
{
    SubmitResult r;
    const uint256 h = block->GetHash();
    const size_t before = m_rec->Count(h);
    bool nb = false;
    r.ret = m_node.chainman->ProcessNewBlock(block, force_processing, min_pow_checked, &nb);
    r.new_block = nb;
    auto all = m_rec->Get(h);
    r.n_checked = all.size() - before;
    if (r.n_checked) r.verdict = all.back();
    return r;
}

SubmitResult SimNode::SubmitHeaders(const std::vector<CBlockHeader>& headers, bool min_pow_checked)
{
    SubmitResult r;
    BlockValidationState st;
    r.ret = m_node.chainman->ProcessNewBlockHeaders(headers, min_pow_checked, st);
    if (!r.ret) r.verdict = ToVerdict(st);
    return r;
}

bool SimNode::ActivateBest()
{
    BlockValidationState st;
    return ActiveCs().ActivateBestChain(st);
}

bool SimNode::Invalidate(const uint256& hash, bool activate)
{
    CBlockIndex* pi = WITH_LOCK(::cs_main, return m_node.chainman->m_blockman.LookupBlockIndex(hash));
    if (!pi) return false;
    BlockValidationState st;
    Chainstate& cs = ActiveCs();
    bool ok = cs.InvalidateBlock(st, pi);
    if (ok && activate) {
        BlockValidationState st2;
        ok = cs.ActivateBestChain(st2);
    }
    return ok;
}

bool SimNode::Reconsider(const uint256& hash)
{
    Chainstate& cs = ActiveCs();
    {
        LOCK(::cs_main);
        CBlockIndex* pi = m_node.chainman->m_blockman.LookupBlockIndex(hash);
        if (!pi) return false;
        cs.ResetBlockFailureFlags(pi);
        m_node.chainman->RecalculateBestHeader();
    }
    BlockValidationState st;
    return cs.ActivateBestChain(st);
}

bool SimNode::Precious(const uint256& hash)
{
    CBlockIndex* pi = WITH_LOCK(::cs_main, return m_node.chainman->m_blockman.LookupBlockIndex(hash));
    if (!pi) return false;
    BlockValidationState st;
    return ActiveCs().PreciousBlock(st, pi);
}

bool SimNode::Flush(FlushStateMode mode)
{
    BlockValidationState st;
    return ActiveCs().FlushStateToDisk(st, mode);
}

Verdict SimNode::TestValidity(const CBlock& block, bool check_pow, bool check_merkle)
{
    LOCK(::cs_main);
    BlockValidationState st = TestBlockValidity(m_node.chainman->ActiveChainstate(), block, check_pow, check_merkle);
    return ToVerdict(st);
}

uint256 SimNode::TipHash()
{
    LOCK(::cs_main);
    const CBlockIndex* t = m_node.chainman->ActiveChain().Tip();
    return t ? t->GetBlockHash() : uint256{};
}
int SimNode::TipHeight()
{
    LOCK(::cs_main);
    return m_node.chainman->ActiveChain().Height();
}
IndexInfo SimNode::Index(const uint256& hash)
{
    LOCK(::cs_main);
    IndexInfo r;
    const CBlockIndex* pi = m_node.chainman->m_blockman.LookupBlockIndex(hash);
    if (!pi) return r;
    r.exists = true;
    r.have_data = pi->nStatus & BLOCK_HAVE_DATA;
    r.have_undo = pi->nStatus & BLOCK_HAVE_UNDO;
    r.failed = pi->nStatus & BLOCK_FAILED_VALID;
    r.in_active_chain = m_node.chainman->ActiveChain().Contains(*pi);
    r.height = pi->nHeight;
    r.validity = pi->nStatus & BLOCK_VALID_MASK;
    r.work_hex = pi->nChainWork.GetHex();
    return r;
}
size_t SimNode::IndexSize()
{
    LOCK(::cs_main);
    return m_node.chainman->BlockIndex().size();
}
std::optional<Coin> SimNode::PeekCoin(const COutPoint& o)
{
    LOCK(::cs_main);
    return m_node.chainman->ActiveChainstate().CoinsTip().PeekCoin(o);
}
bool SimNode::HaveCoinInCache(const COutPoint& o)
{
    LOCK(::cs_main);
    return m_node.chainman->ActiveChainstate().CoinsTip().HaveCoinInCache(o);
}
size_t SimNode::CoinsCacheSize()
{
    LOCK(::cs_main);
    return m_node.chainman->ActiveChainstate().CoinsTip().GetCacheSize();
}
void SimNode::CoinsSanityCheck()
{
    LOCK(::cs_main);
    m_node.chainman->ActiveChainstate().CoinsTip().SanityCheck();
}
uint256 SimNode::ForEachDbCoin(const std::function<void(const COutPoint&, const Coin&)>& fn)
{
    LOCK(::cs_main);
    std::unique_ptr<CCoinsViewCursor> cur = m_node.chainman->ActiveChainstate().CoinsDB().Cursor();
    if (!cur) return uint256{};
    while (cur->Valid()) {
        COutPoint k;
        Coin c;
        if (cur->GetKey(k) && cur->GetValue(c)) fn(k, c);
        cur->Next();
    }
    return cur->GetBestBlock();
}
std::optional<SimNode::DbStats> SimNode::ComputeDbStats()
{
    LOCK(::cs_main);
    Chainstate& cs = m_node.chainman->ActiveChainstate();
    auto st = kernel::ComputeUTXOStats(kernel::CoinStatsHashType::NONE, cs.CoinsDB(), m_node.chainman->m_blockman);
    if (!st) return std::nullopt;
    DbStats r;
    r.coins = st->coins_count;
    r.total = st->total_amount;
    r.best = st->hashBlock;
    r.height = st->nHeight;
    return r;
}
uint64_t SimNode::BlockFilesUsage()
{
    LOCK(::cs_main);
    return m_node.chainman->m_blockman.CalculateCurrentUsage();
}

// =========================================================================================================
// RefLedger: own rules
// =========================================================================================================
RefParams RefParams::FromNodeOpts(const NodeOpts& o)
{
    RefParams p;
    if (o.h_bip34 >= 0) p.h_bip34 = o.h_bip34;
    if (o.h_dersig >= 0) p.h_dersig = o.h_dersig;
    if (o.h_cltv >= 0) p.h_cltv = o.h_cltv;
    if (o.h_csv >= 0) p.h_csv = o.h_csv;
    if (o.h_segwit >= 0) p.h_segwit = o.h_segwit;
    return p;
}

namespace {
constexpr uint32_t SEQ_FINAL = 0xffffffff;
constexpr uint32_t SEQ_DISABLE = uint32_t{1} << 31;
constexpr uint32_t SEQ_TYPE_TIME = uint32_t{1} << 22;
constexpr uint32_t SEQ_MASK = 0x0000ffff;
constexpr int64_t LOCKTIME_THRESH = 500000000;

inline int64_t VarIntSize(uint64_t n) { return n < 253 ? 1 : n <= 0xffff ? 3 : n <= 0xffffffffULL ? 5 : 9; }

bool IsCoinbaseTx(const CTransaction& tx)
{
    return tx.vin.size() == 1 && tx.vin[0].prevout.hash.IsNull() && tx.vin[0].prevout.n == 0xffffffff;
}
bool IsNullPrevout(const COutPoint& o) { return o.hash.IsNull() && o.n == 0xffffffff; }

// One script opcode: returns false on a truncated push.
bool NextOp(const CScript& s, size_t& pc, unsigned& opcode, const unsigned char** data, size_t* len)
{
    if (pc >= s.size()) return false;
    opcode = s[pc++];
    size_t n = 0;
    if (opcode <= 0x4e) {
        if (opcode < 0x4c) {
            n = opcode;
        } else if (opcode == 0x4c) {
            if (s.size() - pc < 1) return false;
            n = s[pc];
            pc += 1;
        } else if (opcode == 0x4d) {
            if (s.size() - pc < 2) return false;
            n = s[pc] | (size_t{s[pc + 1]} << 8);
            pc += 2;
        } else {
            if (s.size() - pc < 4) return false;
            n = s[pc] | (size_t{s[pc + 1]} << 8) | (size_t{s[pc + 2]} << 16) | (size_t{s[pc + 3]} << 24);
            pc += 4;
        }
        if (s.size() - pc < n) return false;
        if (data) *data = s.data() + pc;
        if (len) *len = n;
        pc += n;
    } else {
        if (data) *data = nullptr;
        if (len) *len = 0;
    }
    return true;
}

uint256 Sha256d2(const uint256& a, const uint256& b)
{
    uint256 r;
    CHash256().Write(a).Write(b).Finalize(r);
    return r;
}

const Fault* FindReason(const std::vector<Fault>& f, const std::string& reason)
{
    for (const auto& x : f) {
        if (x.reason == reason) return &x;
    }
    return nullptr;
}
} // namespace

bool RefLedger::IsUnspendable(const CScript& s) { return (s.size() > 0 && s[0] == 0x6a) || s.size() > 10000; }
bool RefLedger::IsP2SH(const CScript& s) { return s.size() == 23 && s[0] == 0xa9 && s[1] == 0x14 && s[22] == 0x87; }
bool RefLedger::IsWitnessProgram(const CScript& s, int& version, std::vector<unsigned char>& program)
{
    if (s.size() < 4 || s.size() > 42) return false;
    if (s[0] != 0x00 && (s[0] < 0x51 || s[0] > 0x60)) return false;
    if (size_t{s[1]} + 2 != s.size()) return false;
    version = s[0] == 0 ? 0 : s[0] - 0x50;
    program.assign(s.begin() + 2, s.end());
    return true;
}
bool RefLedger::IsPushOnly(const CScript& s)
{
    size_t pc = 0;
    while (pc < s.size()) {
        unsigned op;
        if (!NextOp(s, pc, op, nullptr, nullptr)) return false;
        if (op > 0x60) return false;
    }
    return true;
}
unsigned RefLedger::ScriptSigOps(const CScript& s, bool accurate)
{
    unsigned n = 0;
    size_t pc = 0;
    unsigned last = 0xff;
    while (pc < s.size()) {
        unsigned op;
        if (!NextOp(s, pc, op, nullptr, nullptr)) break;
        if (op == 0xac || op == 0xad) {
            ++n;
        } else if (op == 0xae || op == 0xaf) {
            if (accurate && last >= 0x51 && last <= 0x60) n += last - 0x50;
            else n += 20;
        }
        last = op;
    }
    return n;
}
unsigned RefLedger::LegacySigOps(const CTransaction& tx)
{
    unsigned n = 0;
    for (const auto& in : tx.vin) n += ScriptSigOps(in.scriptSig, false);
    for (const auto& out : tx.vout) n += ScriptSigOps(out.scriptPubKey, false);
    return n;
}
namespace {
// last data push of a push-only scriptSig (P2SH redeem script); false when not push-only / truncated
bool LastPush(const CScript& sig, std::vector<unsigned char>& out)
{
    size_t pc = 0;
    out.clear();
    while (pc < sig.size()) {
        unsigned op;
        const unsigned char* d = nullptr;
        size_t n = 0;
        if (!NextOp(sig, pc, op, &d, &n)) return false;
        if (op > 0x60) return false;
        if (op <= 0x4e) out.assign(d, d + n);
        else out.clear(); // OP_1NEGATE, OP_1..OP_16, OP_RESERVED push no byte vector the counter looks at
    }
    return true;
}
unsigned WitnessOps(int version, const std::vector<unsigned char>& program, const CScriptWitness& wit)
{
    if (version == 0) {
        if (program.size() == 20) return 1;
        if (program.size() == 32 && !wit.stack.empty()) {
            CScript sub(wit.stack.back().begin(), wit.stack.back().end());
            return RefLedger::ScriptSigOps(sub, true);
        }
    }
    return 0;
}
} // namespace
int64_t RefLedger::SigOpCost(const CTransaction& tx, const std::vector<const RefCoin*>& spent)
{
    int64_t cost = int64_t{LegacySigOps(tx)} * 4;
    if (IsCoinbaseTx(tx)) return cost;
    for (size_t i = 0; i < tx.vin.size(); ++i) {
        const RefCoin* c = spent[i];
        if (!c) continue;
        int ver;
        std::vector<unsigned char> prog;
        if (IsP2SH(c->spk)) {
            std::vector<unsigned char> redeem;
            if (LastPush(tx.vin[i].scriptSig, redeem)) {
                CScript sub(redeem.begin(), redeem.end());
                cost += int64_t{ScriptSigOps(sub, true)} * 4;
                if (IsWitnessProgram(sub, ver, prog)) cost += WitnessOps(ver, prog, tx.vin[i].scriptWitness);
            }
        } else if (IsWitnessProgram(c->spk, ver, prog)) {
            cost += WitnessOps(ver, prog, tx.vin[i].scriptWitness);
        }
    }
    return cost;
}

int64_t RefLedger::TxBaseSize(const CTransaction& tx)
{
    int64_t n = 4 + VarIntSize(tx.vin.size());
    for (const auto& in : tx.vin) n += 32 + 4 + VarIntSize(in.scriptSig.size()) + (int64_t)in.scriptSig.size() + 4;
    n += VarIntSize(tx.vout.size());
    for (const auto& out : tx.vout) n += 8 + VarIntSize(out.scriptPubKey.size()) + (int64_t)out.scriptPubKey.size();
    return n + 4;
}
int64_t RefLedger::TxTotalSize(const CTransaction& tx)
{
    int64_t n = TxBaseSize(tx);
    bool any = false;
    for (const auto& in : tx.vin) any = any || !in.scriptWitness.stack.empty();
    if (!any) return n;
    n += 2;
    for (const auto& in : tx.vin) {
        n += VarIntSize(in.scriptWitness.stack.size());
        for (const auto& item : in.scriptWitness.stack) n += VarIntSize(item.size()) + (int64_t)item.size();
    }
    return n;
}
int64_t RefLedger::BlockBaseSize(const CBlock& b)
{
    int64_t n = 80 + VarIntSize(b.vtx.size());
    for (const auto& tx : b.vtx) n += TxBaseSize(*tx);
    return n;
}
int64_t RefLedger::BlockWeight(const CBlock& b)
{
    int64_t total = 80 + VarIntSize(b.vtx.size());
    for (const auto& tx : b.vtx) total += TxTotalSize(*tx);
    return BlockBaseSize(b) * 3 + total;
}
uint256 RefLedger::MerkleRoot(std::vector<uint256> h, bool* mutated)
{
    bool mut = false;
    if (h.empty()) {
        if (mutated) *mutated = false;
        return uint256{};
    }
    while (h.size() > 1) {
        for (size_t i = 0; i + 1 < h.size(); i += 2) {
            if (h[i] == h[i + 1]) mut = true;
        }
        if (h.size() & 1) h.push_back(h.back());
        std::vector<uint256> next;
        next.reserve(h.size() / 2);
        for (size_t i = 0; i < h.size(); i += 2) next.push_back(Sha256d2(h[i], h[i + 1]));
        h.swap(next);
    }
    if (mutated) *mutated = mut;
    return h[0];
}
std::vector<unsigned char> RefLedger::Bip34Prefix(int height)
{
    // script-number push of the height, written from the BIP: 0 -> OP_0, 1..16 -> OP_1..OP_16, else minimal
    // little-endian magnitude with a sign byte when the top bit is set, behind a direct push opcode
    std::vector<unsigned char> r;
    if (height == 0) {
        r.push_back(0x00);
        return r;
    }
    if (height >= 1 && height <= 16) {
        r.push_back(0x50 + height);
        return r;
    }
    std::vector<unsigned char> num;
    uint32_t v = (uint32_t)height;
    while (v) {
        num.push_back(v & 0xff);
        v >>= 8;
    }
    if (num.back() & 0x80) num.push_back(0);
    r.push_back((unsigned char)num.size());
    r.insert(r.end(), num.begin(), num.end());
    return r;
}

CAmount RefLedger::Subsidy(int h) const
{
    const int k = h / m_p.halving_interval;
    if (k >= 64) return 0;
    return (int64_t{50} * 100000000) >> k;
}
CAmount RefLedger::SubsidySum(int h) const
{
    CAmount s = 0;
    for (int i = 1; i <= h; ++i) s += Subsidy(i);
    return s;
}

const RefBlock* RefLedger::Ancestor(const RefBlock* b, int height) const
{
    if (height < 0 || height > b->height) return nullptr;
    while (b && b->height > height) b = b->parent;
    return b;
}

bool RefLedger::IsFinal(const CTransaction& tx, int height, const RefBlock* parent, int64_t block_time) const
{
    if (tx.nLockTime == 0) return true;
    const int64_t lt = tx.nLockTime;
    // BIP113: once CSV is active for the block, the cutoff is the median time past of the previous block
    const int64_t cutoff = CsvActiveFor(height) ? parent->mtp : block_time;
    if (lt < LOCKTIME_THRESH ? lt < height : lt < cutoff) return true;
    for (const auto& in : tx.vin) {
        if (in.nSequence != SEQ_FINAL) return false;
    }
    return true;
}

bool RefLedger::Bip68Ok(const CTransaction& tx, int height, const RefBlock* parent, const std::vector<int>& coin_heights) const
{
    if (!CsvActiveFor(height)) return true;
    if (tx.version < 2) return true;
    // the tx may be included at the first height/time at which every input's relative lock has elapsed
    for (size_t i = 0; i < tx.vin.size(); ++i) {
        const uint32_t seq = tx.vin[i].nSequence;
        if (seq & SEQ_DISABLE) continue;
        const int ch = coin_heights[i];
        const int64_t v = seq & SEQ_MASK;
        if (seq & SEQ_TYPE_TIME) {
            // measured from the MTP of the block before the one that confirmed the coin; compared with the MTP of
            // the block before the spending block
            const RefBlock* ref = Ancestor(parent, std::max(ch - 1, 0));
            const int64_t coin_time = ref ? ref->mtp : 0;
            if (!(parent->mtp >= coin_time + v * 512)) return false;
        } else {
            if (!(height >= ch + v)) return false;
        }
    }
    return true;
}

RefLedger::RefLedger(const RefParams& p) : m_p(p)
{
    // regtest genesis
    const CBlock& g = ::Params().GenesisBlock();
    auto rb = std::make_unique<RefBlock>();
    rb->block = std::make_shared<const CBlock>(g);
    rb->hash = g.GetHash();
    rb->height = 0;
    rb->work = U256::WorkFromBits(g.nBits);
    rb->chainwork = rb->work;
    rb->mtp = g.nTime;
    rb->evaluated = true;
    rb->hdr_known = true;
    rb->have_data = true;
    rb->meta.tag = "genesis";
    rb->weight = BlockWeight(g);
    m_genesis = rb.get();
    m_by_hash[rb->hash] = rb.get();
    m_blocks.push_back(std::move(rb));
}
RefLedger::~RefLedger() = default;

RefBlock* RefLedger::Find(const uint256& hash)
{
    auto it = m_by_hash.find(hash);
    return it == m_by_hash.end() ? nullptr : it->second;
}

bool RefLedger::ChainValid(const RefBlock* b) const
{
    for (; b; b = b->parent) {
        if (!b->SelfValid()) return false;
    }
    return true;
}
const RefBlock* RefLedger::FirstInvalid(const RefBlock* b) const
{
    const RefBlock* r = nullptr;
    for (; b; b = b->parent) {
        if (!b->SelfValid()) r = b;
    }
    return r;
}

void RefLedger::ApplyBlock(RefUtxo& u, const RefBlock* b) const
{
    if (b->height == 0) return; // genesis coinbase is not spendable
    for (const auto& tx : b->block->vtx) {
        const bool cb = IsCoinbaseTx(*tx);
        if (!cb) {
            for (const auto& in : tx->vin) u.erase(in.prevout);
        }
        const Txid txid = tx->GetHash();
        for (size_t o = 0; o < tx->vout.size(); ++o) {
            if (IsUnspendable(tx->vout[o].scriptPubKey)) continue;
            RefCoin c;
            c.value = tx->vout[o].nValue;
            c.spk = tx->vout[o].scriptPubKey;
            c.height = b->height;
            c.coinbase = cb;
            u[COutPoint(txid, o)] = std::move(c);
        }
    }
}

const RefUtxo& RefLedger::Utxo(const RefBlock* b)
{
    ++m_clock;
    for (auto& m : m_memo) {
        if (m.b == b) {
            m.used = m_clock;
            return *m.utxo;
        }
    }
    // nearest memoised ancestor, else replay from genesis
    std::vector<const RefBlock*> path;
    const RefBlock* cur = b;
    const RefUtxo* base = nullptr;
    while (cur) {
        bool hit = false;
        for (auto& m : m_memo) {
            if (m.b == cur) {
                base = m.utxo.get();
                m.used = m_clock;
                hit = true;
                break;
            }
        }
        if (hit) break;
        path.push_back(cur);
        cur = cur->parent;
    }
    auto u = base ? std::make_unique<RefUtxo>(*base) : std::make_unique<RefUtxo>();
    for (auto it = path.rbegin(); it != path.rend(); ++it) ApplyBlock(*u, *it);
    if (m_memo.size() >= m_memo_cap) {
        size_t victim = 0;
        for (size_t i = 1; i < m_memo.size(); ++i) {
            if (m_memo[i].used < m_memo[victim].used) victim = i;
        }
        m_memo.erase(m_memo.begin() + victim);
    }
    m_memo.push_back(Memo{b, std::move(u), m_clock});
    return *m_memo.back().utxo;
}

uint256 RefLedger::HashUtxo(const RefUtxo& u)
{
    HashWriter hw;
    for (const auto& [op, c] : u) {
        hw << op << c.value << c.spk << c.height << c.coinbase;
    }
    return hw.GetSHA256();
}

void RefLedger::HeaderFaults(const RefBlock* b, std::vector<Fault>& out) const
{
    const CBlock& blk = *b->block;
    if (blk.nBits != m_p.pow_limit_bits) out.push_back({"bad-diffbits", Stage::HEADER, BlockValidationResult::BLOCK_INVALID_HEADER});
    if ((int64_t)blk.nTime <= b->parent->mtp) out.push_back({"time-too-old", Stage::HEADER, BlockValidationResult::BLOCK_INVALID_HEADER});
    const int h = b->height;
    if ((blk.nVersion < 2 && h >= m_p.h_bip34) || (blk.nVersion < 3 && h >= m_p.h_dersig) || (blk.nVersion < 4 && h >= m_p.h_cltv)) {
        char buf[40];
        std::snprintf(buf, sizeof buf, "bad-version(0x%08x)", (unsigned)blk.nVersion);
        out.push_back({buf, Stage::HEADER, BlockValidationResult::BLOCK_INVALID_HEADER});
    }
}

void RefLedger::ContextFreeFaults(const RefBlock* b, std::vector<Fault>& out) const
{
    const CBlock& blk = *b->block;
    const auto CONS = BlockValidationResult::BLOCK_CONSENSUS;
    // proof of work: hash (as a number) must not exceed the target encoded by nBits, target within the limit
    {
        bool neg = false, ovf = false;
        U256 target = U256::FromCompact(blk.nBits, &neg, &ovf);
        U256 limit = U256::FromCompact(m_p.pow_limit_bits);
        if (neg || ovf || target.IsZero() || target > limit || U256::FromHash(b->hash) > target) {
            out.push_back({"high-hash", Stage::CHECKBLOCK, BlockValidationResult::BLOCK_INVALID_HEADER});
        }
    }
    // merkle root binds the tx list
    {
        std::vector<uint256> leaves;
        for (const auto& tx : blk.vtx) leaves.push_back(tx->GetHash().ToUint256());
        bool mut = false;
        uint256 root = MerkleRoot(leaves, &mut);
        if (root != blk.hashMerkleRoot) out.push_back({"bad-txnmrklroot", Stage::CHECKBLOCK, BlockValidationResult::BLOCK_MUTATED});
        else if (mut) out.push_back({"bad-txns-duplicate", Stage::CHECKBLOCK, BlockValidationResult::BLOCK_MUTATED});
    }
    if (blk.vtx.empty() || (int64_t)blk.vtx.size() * 4 > m_p.max_block_weight || BlockBaseSize(blk) * 4 > m_p.max_block_weight) {
        out.push_back({"bad-blk-length", Stage::CHECKBLOCK, CONS});
    }
    if (blk.vtx.empty() || !IsCoinbaseTx(*blk.vtx[0])) {
        out.push_back({"bad-cb-missing", Stage::CHECKBLOCK, CONS});
    }
    for (size_t i = 1; i < blk.vtx.size(); ++i) {
        if (IsCoinbaseTx(*blk.vtx[i])) {
            out.push_back({"bad-cb-multiple", Stage::CHECKBLOCK, CONS});
            break;
        }
    }
    unsigned legacy = 0;
    for (const auto& txr : blk.vtx) {
        const CTransaction& tx = *txr;
        legacy += LegacySigOps(tx);
        // per-transaction context-free rules; the first violated one is the tx's reason
        const char* why = nullptr;
        if (tx.vin.empty()) why = "bad-txns-vin-empty";
        else if (tx.vout.empty()) why = "bad-txns-vout-empty";
        else if (TxBaseSize(tx) * 4 > m_p.max_block_weight) why = "bad-txns-oversize";
        if (!why) {
            __int128 sum = 0;
            for (const auto& o : tx.vout) {
                if (o.nValue < 0) { why = "bad-txns-vout-negative"; break; }
                if (o.nValue > m_p.max_money) { why = "bad-txns-vout-toolarge"; break; }
                sum += o.nValue;
                if (sum > m_p.max_money) { why = "bad-txns-txouttotal-toolarge"; break; }
            }
        }
        if (!why) {
            std::set<COutPoint> seen;
            for (const auto& in : tx.vin) {
                if (!seen.insert(in.prevout).second) { why = "bad-txns-inputs-duplicate"; break; }
            }
        }
        if (!why) {
            if (IsCoinbaseTx(tx)) {
                if (tx.vin[0].scriptSig.size() < 2 || tx.vin[0].scriptSig.size() > 100) why = "bad-cb-length";
            } else {
                for (const auto& in : tx.vin) {
                    if (IsNullPrevout(in.prevout)) { why = "bad-txns-prevout-null"; break; }
                }
            }
        }
        if (why) out.push_back({why, Stage::CHECKBLOCK, CONS});
    }
    if ((int64_t)legacy * 4 > m_p.max_sigops_cost) out.push_back({"bad-blk-sigops", Stage::CHECKBLOCK, CONS});
}

void RefLedger::Evaluate(RefBlock* b)
{
    const CBlock& blk = *b->block;
    const auto CONS = BlockValidationResult::BLOCK_CONSENSUS;
    const auto MUT = BlockValidationResult::BLOCK_MUTATED;
    b->faults.clear();
    b->weight = BlockWeight(blk);
    ContextFreeFaults(b, b->faults);
    HeaderFaults(b, b->faults);
    const int h = b->height;
    const bool structure_ok = !blk.vtx.empty() && IsCoinbaseTx(*blk.vtx[0]) && !blk.vtx[0]->vin.empty();

    // ---- contextual rules that need only the header chain
    for (const auto& tx : blk.vtx) {
        if (!IsFinal(*tx, h, b->parent, blk.nTime)) {
            b->faults.push_back({"bad-txns-nonfinal", Stage::CONTEXTUAL, CONS});
            break;
        }
    }
    if (structure_ok && Bip34ActiveFor(h)) {
        const auto want = Bip34Prefix(h);
        const CScript& sig = blk.vtx[0]->vin[0].scriptSig;
        if (sig.size() < want.size() || !std::equal(want.begin(), want.end(), sig.begin())) {
            b->faults.push_back({"bad-cb-height", Stage::CONTEXTUAL, CONS});
        }
    }
    {
        // witness commitment: last coinbase output of the form OP_RETURN 0x24 aa21a9ed <32 bytes> ...
        int commitpos = -1;
        if (structure_ok) {
            const auto& vout = blk.vtx[0]->vout;
            for (size_t o = 0; o < vout.size(); ++o) {
                const CScript& s = vout[o].scriptPubKey;
                if (s.size() >= 38 && s[0] == 0x6a && s[1] == 0x24 && s[2] == 0xaa && s[3] == 0x21 && s[4] == 0xa9 && s[5] == 0xed) commitpos = (int)o;
            }
        }
        bool committed = false;
        if (SegwitActiveFor(h) && commitpos >= 0) {
            committed = true;
            const auto& stack = blk.vtx[0]->vin[0].scriptWitness.stack;
            if (stack.size() != 1 || stack[0].size() != 32) {
                b->faults.push_back({"bad-witness-nonce-size", Stage::MUTATED_CTX, MUT});
            } else {
                std::vector<uint256> leaves;
                leaves.push_back(uint256{});
                for (size_t i = 1; i < blk.vtx.size(); ++i) leaves.push_back(blk.vtx[i]->GetWitnessHash().ToUint256());
                uint256 root = MerkleRoot(leaves, nullptr);
                uint256 commit;
                CHash256().Write(root).Write(stack[0]).Finalize(commit);
                const CScript& s = blk.vtx[0]->vout[commitpos].scriptPubKey;
                if (!std::equal(commit.begin(), commit.end(), s.begin() + 6)) {
                    b->faults.push_back({"bad-witness-merkle-match", Stage::MUTATED_CTX, MUT});
                }
            }
        }
        if (!committed) {
            for (const auto& tx : blk.vtx) {
                bool w = false;
                for (const auto& in : tx->vin) w = w || !in.scriptWitness.stack.empty();
                if (w) {
                    b->faults.push_back({"unexpected-witness", Stage::MUTATED_CTX, MUT});
                    break;
                }
            }
        }
    }
    if (b->weight > m_p.max_block_weight) b->faults.push_back({"bad-blk-weight", Stage::CONTEXTUAL, CONS});

    // ---- rules that need the UTXO set of the parent
    b->evaluated = false;
    b->ctx_free_only = true;
    if (!ChainValid(b->parent)) return;
    b->ctx_free_only = false;
    b->evaluated = true;
    if (!structure_ok) return;
    // a block that is already context-free invalid is never connected; the UTXO rules below are still evaluated
    // when possible so that multi-fault blocks are recognised as such.
    const RefUtxo& base = Utxo(b->parent);
    // BIP30: no output of the block may already exist unspent
    {
        bool bip30 = false;
        for (const auto& tx : blk.vtx) {
            const Txid txid = tx->GetHash();
            for (size_t o = 0; o < tx->vout.size() && !bip30; ++o) {
                if (base.count(COutPoint(txid, o))) bip30 = true;
            }
        }
        if (bip30) {
            // the node reports this before looking at any input (DESIGN §3-E1 table): nothing after it is evaluated
            b->faults.push_back({"bad-txns-BIP30", Stage::CONNECT, CONS});
            return;
        }
    }
    // overlay: spent set + created map on top of base
    std::set<COutPoint> spent;
    RefUtxo created;
    auto lookup = [&](const COutPoint& o) -> const RefCoin* {
        auto c = created.find(o);
        if (c != created.end()) return &c->second;
        if (spent.count(o)) return nullptr;
        auto it = base.find(o);
        return it == base.end() ? nullptr : &it->second;
    };
    __int128 fees = 0;
    int64_t sigops = 0;
    bool stop = false;
    bool fees_known = true;
    for (size_t i = 0; i < blk.vtx.size() && !stop; ++i) {
        const CTransaction& tx = *blk.vtx[i];
        const bool cb = IsCoinbaseTx(tx);
        std::vector<const RefCoin*> coins(tx.vin.size(), nullptr);
        if (!cb) {
            bool missing = false;
            for (size_t j = 0; j < tx.vin.size(); ++j) {
                coins[j] = lookup(tx.vin[j].prevout);
                if (!coins[j]) missing = true;
            }
            if (missing) {
                b->faults.push_back({"bad-txns-inputs-missingorspent", Stage::CONNECT, CONS});
                fees_known = false;
                stop = true;
                break;
            }
            __int128 in = 0;
            const char* why = nullptr;
            std::vector<int> heights(tx.vin.size());
            for (size_t j = 0; j < tx.vin.size() && !why; ++j) {
                const RefCoin* c = coins[j];
                heights[j] = c->height;
                if (c->coinbase && h - c->height < m_p.coinbase_maturity) why = "bad-txns-premature-spend-of-coinbase";
                in += c->value;
                if (!why && (c->value < 0 || c->value > m_p.max_money || in > m_p.max_money)) why = "bad-txns-inputvalues-outofrange";
            }
            __int128 out = 0;
            for (const auto& o : tx.vout) out += o.nValue;
            if (!why && in < out) why = "bad-txns-in-belowout";
            if (why) {
                b->faults.push_back({why, Stage::CONNECT, CONS});
                fees_known = false;
                stop = true;
                break;
            }
            fees += in - out;
            if (fees < 0 || fees > m_p.max_money) {
                b->faults.push_back({"bad-txns-accumulated-fee-outofrange", Stage::CONNECT, CONS});
                fees_known = false;
                stop = true;
                break;
            }
            if (!Bip68Ok(tx, h, b->parent, heights)) {
                b->faults.push_back({"bad-txns-nonfinal", Stage::CONNECT, CONS});
                stop = true;
                break;
            }
        }
        sigops += SigOpCost(tx, coins);
        if (sigops > m_p.max_sigops_cost) {
            b->faults.push_back({"bad-blk-sigops", Stage::CONNECT, CONS});
            stop = true;
            break;
        }
        if (!cb && b->meta.bad_script_txs.count(i)) {
            b->faults.push_back({"block-script-verify-flag-failed", Stage::CONNECT, CONS});
            // the node keeps going only in the parallel case; either way nothing after this is tagged
            stop = true;
            break;
        }
        // apply
        if (!cb) {
            for (const auto& in : tx.vin) {
                auto c = created.find(in.prevout);
                if (c != created.end()) created.erase(c);
                else spent.insert(in.prevout);
            }
        }
        const Txid txid = tx.GetHash();
        for (size_t o = 0; o < tx.vout.size(); ++o) {
            if (IsUnspendable(tx.vout[o].scriptPubKey)) continue;
            RefCoin c;
            c.value = tx.vout[o].nValue;
            c.spk = tx.vout[o].scriptPubKey;
            c.height = h;
            c.coinbase = cb;
            created[COutPoint(txid, o)] = std::move(c);
        }
    }
    b->sigop_cost = sigops;
    if (fees_known && !stop) {
        b->fees = (CAmount)fees;
        __int128 cbout = 0;
        for (const auto& o : blk.vtx[0]->vout) cbout += o.nValue;
        if (cbout > (__int128)Subsidy(h) + fees) b->faults.push_back({"bad-cb-amount", Stage::CONNECT, CONS});
    }
    // A CHECKBLOCK-stage legacy sigop fault implies the CONNECT-stage total is over the limit as well: one rule, keep the earlier one.
    if (FindReason(b->faults, "bad-blk-sigops") && b->faults.size() > 1) {
        size_t n = 0;
        for (const auto& f : b->faults) n += f.reason == "bad-blk-sigops";
        if (n == 2) {
            for (auto it = b->faults.begin(); it != b->faults.end(); ++it) {
                if (it->reason == "bad-blk-sigops" && it->stage == Stage::CONNECT) {
                    b->faults.erase(it);
                    break;
                }
            }
        }
    }
}

RefBlock* RefLedger::Add(const std::shared_ptr<const CBlock>& block, const BlockMeta& meta)
{
    const uint256 hash = block->GetHash();
    if (RefBlock* known = Find(hash)) return known;
    RefBlock* parent = Find(block->hashPrevBlock);
    if (!parent) return nullptr;
    auto rb = std::make_unique<RefBlock>();
    rb->hash = hash;
    rb->parent = parent;
    rb->height = parent->height + 1;
    rb->block = block;
    rb->meta = meta;
    rb->work = U256::WorkFromBits(block->nBits);
    rb->chainwork = parent->chainwork + rb->work;
    rb->seq = m_blocks.size();
    {
        std::vector<int64_t> times;
        times.push_back(block->nTime);
        const RefBlock* p = parent;
        for (int i = 1; i < 11 && p; ++i, p = p->parent) times.push_back(p->block->nTime);
        std::sort(times.begin(), times.end());
        rb->mtp = times[times.size() / 2];
    }
    RefBlock* r = rb.get();
    parent->children.push_back(r);
    m_by_hash[hash] = r;
    m_blocks.push_back(std::move(rb));
    for (const auto& tx : block->vtx) {
        const Txid txid = tx->GetHash();
        for (size_t o = 0; o < tx->vout.size(); ++o) m_all_outpoints.insert(COutPoint(txid, o));
    }
    Evaluate(r);
    return r;
}

// ---- mirror
void RefLedger::MarkFailed(RefBlock* b)
{
    b->failed = true;
    std::vector<RefBlock*> stack(b->children.begin(), b->children.end());
    while (!stack.empty()) {
        RefBlock* d = stack.back();
        stack.pop_back();
        if (d->hdr_known) d->failed = true;
        for (RefBlock* c : d->children) stack.push_back(c);
    }
}
void RefLedger::ClearFailed(RefBlock* b)
{
    for (RefBlock* a = b; a; a = a->parent) {
        a->failed = false;
        a->user_invalid = false;
    }
    std::vector<RefBlock*> stack(b->children.begin(), b->children.end());
    while (!stack.empty()) {
        RefBlock* d = stack.back();
        stack.pop_back();
        d->failed = false;
        d->user_invalid = false;
        for (RefBlock* c : d->children) stack.push_back(c);
    }
}
bool RefLedger::AncestryHasData(const RefBlock* b) const
{
    for (; b; b = b->parent) {
        if (!b->hdr_known || !b->have_data) return false;
    }
    return true;
}
bool RefLedger::AncestryFailed(const RefBlock* b) const
{
    for (; b; b = b->parent) {
        if (b->failed) return true;
    }
    return false;
}
std::vector<RefBlock*> RefLedger::EligibleTips() const
{
    std::vector<RefBlock*> r;
    std::vector<char> ok(m_blocks.size(), 0);
    for (size_t i = 0; i < m_blocks.size(); ++i) {
        RefBlock* b = m_blocks[i].get();
        const bool pok = b->parent ? ok[b->parent->seq] : true;
        ok[i] = pok && b->hdr_known && b->have_data && !b->failed;
        if (ok[i]) r.push_back(b);
    }
    return r;
}
bool RefLedger::IsDescendantOrSelf(const RefBlock* b, const RefBlock* anc) const
{
    for (; b; b = b->parent) {
        if (b == anc) return true;
    }
    return false;
}

// =========================================================================================================
// Generator side: keys, transactions, blocks
// =========================================================================================================
KeyRing::KeyRing(vh::Rng& rng, size_t nkeys)
{
    while (m_keys.size() < nkeys) {
        auto b = rng.bytes(32);
        CKey k;
        k.Set(b.begin(), b.end(), /*fCompressedIn=*/true);
        if (!k.IsValid()) continue;
        m_keys.push_back(k);
    }
    for (const CKey& k : m_keys) {
        const CPubKey pk = k.GetPubKey();
        m_provider.keys[pk.GetID()] = k;
        m_provider.pubkeys[pk.GetID()] = pk;
        // scripts the signer must be able to look up
        const CScript wpkh = GetScriptForDestination(WitnessV0KeyHash(pk));
        m_provider.scripts[CScriptID(wpkh)] = wpkh; // P2SH-P2WPKH redeem script
        const CScript ws = CScript() << ToByteVector(pk) << OP_CHECKSIG;
        m_provider.scripts[CScriptID(ws)] = ws; // P2WSH witness script
        TaprootBuilder tb;
        tb.Finalize(XOnlyPubKey(pk));
        m_provider.tr_trees[tb.GetOutput()] = tb;
    }
}

CScript KeyRing::Spk(OutType t, size_t i) const
{
    const CPubKey pk = Key(i).GetPubKey();
    switch (t) {
    case OutType::P2PK: return CScript() << ToByteVector(pk) << OP_CHECKSIG;
    case OutType::P2PKH: return GetScriptForDestination(PKHash(pk));
    case OutType::P2WPKH: return GetScriptForDestination(WitnessV0KeyHash(pk));
    case OutType::P2WSH: {
        const CScript ws = CScript() << ToByteVector(pk) << OP_CHECKSIG;
        return GetScriptForDestination(WitnessV0ScriptHash(ws));
    }
    case OutType::P2TR: {
        TaprootBuilder tb;
        tb.Finalize(XOnlyPubKey(pk));
        return GetScriptForDestination(tb.GetOutput());
    }
    case OutType::MULTISIG: return GetScriptForMultisig(1, {pk, Key(i + 1).GetPubKey()});
    case OutType::ANYONE: return CScript() << OP_TRUE;
    case OutType::P2SH_P2WPKH: return GetScriptForDestination(ScriptHash(GetScriptForDestination(WitnessV0KeyHash(pk))));
    case OutType::OP_RETURN_: return CScript() << OP_RETURN << std::vector<unsigned char>{(unsigned char)i, 0x56, 0x48};
    }
    return CScript() << OP_TRUE;
}

void KeyRing::AddScript(const CScript& s) { m_provider.scripts[CScriptID(s)] = s; }

bool KeyRing::Sign(CMutableTransaction& mtx, const std::vector<CTxOut>& spent, std::string* err) const
{
    std::map<COutPoint, Coin> coins;
    for (size_t i = 0; i < mtx.vin.size() && i < spent.size(); ++i) {
        coins[mtx.vin[i].prevout] = Coin(spent[i], /*nHeightIn=*/1, /*fCoinBaseIn=*/false);
    }
    std::map<int, bilingual_str> errors;
    SignTransaction(mtx, &m_provider, coins, SignOptions{}, errors);
    bool ok = true;
    for (const auto& [i, e] : errors) {
        // outputs that need no signature (OP_TRUE and other bare test scripts) are reported as unsignable: fine
        std::vector<std::vector<unsigned char>> sol;
        const TxoutType tt = Solver(spent[i].scriptPubKey, sol);
        if (tt == TxoutType::NONSTANDARD || tt == TxoutType::NULL_DATA || tt == TxoutType::ANCHOR) continue;
        ok = false;
        if (err) *err += "input " + std::to_string(i) + ": " + e.original + "; ";
    }
    return ok;
}

CMutableTransaction MakeTx(const KeyRing& keys, const std::vector<Spendable>& inputs, const std::vector<CTxOut>& outputs,
                           uint32_t locktime, const std::vector<uint32_t>& sequences, int32_t version, bool sign)
{
    CMutableTransaction mtx;
    mtx.version = version;
    mtx.nLockTime = locktime;
    std::vector<CTxOut> spent;
    for (size_t i = 0; i < inputs.size(); ++i) {
        CTxIn in(inputs[i].op);
        in.nSequence = i < sequences.size() ? sequences[i] : 0xffffffff;
        mtx.vin.push_back(in);
        spent.push_back(inputs[i].out);
    }
    mtx.vout = outputs;
    if (sign) {
        std::string err;
        if (!keys.Sign(mtx, spent, &err)) throw std::runtime_error("MakeTx: cannot sign: " + err);
    }
    return mtx;
}

bool BreakSignature(CMutableTransaction& mtx, size_t n)
{
    if (n >= mtx.vin.size()) return false;
    CTxIn& in = mtx.vin[n];
    for (auto& item : in.scriptWitness.stack) {
        if (item.size() >= 64 && item.size() <= 73) {
            item[item.size() / 2] ^= 0x01;
            return true;
        }
    }
    // scriptSig: first data push of signature size
    CScript& s = in.scriptSig;
    size_t pc = 0;
    while (pc < s.size()) {
        unsigned op;
        const unsigned char* d = nullptr;
        size_t len = 0;
        if (!NextOp(s, pc, op, &d, &len)) return false;
        if (op <= 0x4e && len >= 64 && len <= 73) {
            const size_t off = (d - s.data()) + len / 2;
            s[off] ^= 0x01;
            return true;
        }
    }
    return false;
}

void BlockBuilder::Solve(CBlock& block)
{
    bool neg, ovf;
    U256 target = U256::FromCompact(block.nBits, &neg, &ovf);
    if (neg || ovf || target.IsZero()) return;
    for (uint64_t i = 0; i < (uint64_t{1} << 32); ++i) {
        if (!(U256::FromHash(block.GetHash()) > target)) return;
        ++block.nNonce;
    }
}
void BlockBuilder::UnSolve(CBlock& block)
{
    bool neg, ovf;
    U256 target = U256::FromCompact(block.nBits, &neg, &ovf);
    for (uint64_t i = 0; i < (uint64_t{1} << 32); ++i) {
        if (U256::FromHash(block.GetHash()) > target) return;
        ++block.nNonce;
    }
}

CAmount BlockBuilder::FeesOf(const RefBlock* parent, const std::vector<CTransactionRef>& txs)
{
    if (!m_led.ChainValid(parent)) return -1;
    const RefUtxo& base = m_led.Utxo(parent);
    std::map<COutPoint, CAmount> created;
    std::set<COutPoint> spent;
    __int128 fees = 0;
    for (const auto& tx : txs) {
        __int128 in = 0, out = 0;
        for (const auto& i : tx->vin) {
            auto c = created.find(i.prevout);
            if (c != created.end()) {
                in += c->second;
                created.erase(c);
                continue;
            }
            auto it = base.find(i.prevout);
            if (it == base.end() || spent.count(i.prevout)) return -1;
            spent.insert(i.prevout);
            in += it->second.value;
        }
        const Txid txid = tx->GetHash();
        for (size_t o = 0; o < tx->vout.size(); ++o) {
            out += tx->vout[o].nValue;
            created[COutPoint(txid, o)] = tx->vout[o].nValue;
        }
        fees += in - out;
    }
    if (fees < 0 || fees > m_led.Params().max_money) return -1;
    return (CAmount)fees;
}

static void SetCommitment(CBlock& block, bool add_if_missing)
{
    // (re)compute the witness commitment with the repository's helper for the witness merkle root; the model
    // recomputes it with its own merkle code
    CMutableTransaction cb(*block.vtx[0]);
    int pos = -1;
    for (size_t o = 0; o < cb.vout.size(); ++o) {
        const CScript& s = cb.vout[o].scriptPubKey;
        if (s.size() >= 38 && s[0] == OP_RETURN && s[1] == 0x24 && s[2] == 0xaa && s[3] == 0x21 && s[4] == 0xa9 && s[5] == 0xed) pos = (int)o;
    }
    if (pos < 0 && !add_if_missing) return;
    if (cb.vin[0].scriptWitness.stack.size() != 1 || cb.vin[0].scriptWitness.stack[0].size() != 32) {
        cb.vin[0].scriptWitness.stack.assign(1, std::vector<unsigned char>(32, 0));
    }
    if (pos < 0) {
        cb.vout.emplace_back(0, CScript());
        pos = (int)cb.vout.size() - 1;
    }
    block.vtx[0] = MakeTransactionRef(cb); // the coinbase's own wtxid does not enter the witness root
    uint256 root = BlockWitnessMerkleRoot(block);
    uint256 commit;
    CHash256().Write(root).Write(cb.vin[0].scriptWitness.stack[0]).Finalize(commit);
    CScript spk;
    spk.resize(38);
    spk[0] = OP_RETURN;
    spk[1] = 0x24;
    spk[2] = 0xaa;
    spk[3] = 0x21;
    spk[4] = 0xa9;
    spk[5] = 0xed;
    std::copy(commit.begin(), commit.end(), spk.begin() + 6);
    cb.vout[pos].scriptPubKey = spk;
    cb.vout[pos].nValue = 0;
    block.vtx[0] = MakeTransactionRef(cb);
}

void BlockBuilder::Finalize(CBlock& block, const RefBlock* parent, bool fix_commitment, bool solve) const
{
    (void)parent;
    if (fix_commitment && !block.vtx.empty()) SetCommitment(block, /*add_if_missing=*/false);
    block.hashMerkleRoot = BlockMerkleRoot(block);
    if (solve) Solve(block);
}

std::shared_ptr<CBlock> BlockBuilder::Build(const RefBlock* parent, const std::vector<CTransactionRef>& txs, const BlockSpec& spec, CAmount fees_hint)
{
    auto blk = std::make_shared<CBlock>();
    const int height = parent->height + 1;
    blk->nVersion = spec.version;
    blk->hashPrevBlock = parent->hash;
    blk->nTime = spec.time ? *spec.time : (uint32_t)std::max<int64_t>(parent->mtp + 1, (int64_t)parent->block->nTime + 60);
    blk->nBits = spec.bits ? *spec.bits : m_led.Params().pow_limit_bits;
    blk->nNonce = 0;

    CMutableTransaction cb;
    cb.version = 2;
    cb.vin.resize(1);
    cb.vin[0].prevout.SetNull();
    cb.vin[0].nSequence = 0xffffffff;
    if (spec.cb.raw_script_sig) {
        cb.vin[0].scriptSig = *spec.cb.raw_script_sig;
    } else {
        std::vector<unsigned char> extra = spec.cb.extranonce;
        if (extra.empty()) {
            uint64_t s = spec.salt * 0x9E3779B97F4A7C15ULL + 0x1234567;
            for (int i = 0; i < 8; ++i) extra.push_back((unsigned char)(s >> (8 * i)));
        }
        cb.vin[0].scriptSig = CScript() << (int64_t)(spec.cb.bip34_height ? *spec.cb.bip34_height : height) << extra;
    }
    CAmount fees = fees_hint >= 0 ? fees_hint : FeesOf(parent, txs);
    if (fees < 0) fees = 0;
    const CAmount value = spec.cb.value ? *spec.cb.value : m_led.Subsidy(height) + fees;
    const CScript spk = spec.cb.spk.empty() ? (CScript() << OP_TRUE) : spec.cb.spk;
    if (spec.cb.raw_outputs) {
        cb.vout = *spec.cb.raw_outputs;
    } else {
        const size_t parts = std::max<size_t>(1, spec.cb.split);
        for (size_t i = 0; i < parts; ++i) {
            CAmount v = value / (CAmount)parts;
            if (i == 0) v += value - v * (CAmount)parts;
            cb.vout.emplace_back(v, spk);
        }
        for (const auto& o : spec.cb.extra_outputs) cb.vout.push_back(o);
    }
    blk->vtx.push_back(MakeTransactionRef(cb));
    bool any_witness = false;
    for (const auto& tx : txs) {
        blk->vtx.push_back(tx);
        any_witness = any_witness || tx->HasWitness();
    }
    if (spec.commit_witness && (any_witness || spec.force_commitment)) {
        SetCommitment(*blk, /*add_if_missing=*/true);
        if (spec.cb.no_witness_nonce) {
            CMutableTransaction c2(*blk->vtx[0]);
            c2.vin[0].scriptWitness.stack.clear();
            blk->vtx[0] = MakeTransactionRef(c2);
        }
    }
    blk->hashMerkleRoot = BlockMerkleRoot(*blk);
    if (spec.bad_merkle) {
        unsigned char* p = blk->hashMerkleRoot.begin();
        p[5] ^= 0x10;
    }
    if (spec.solve) Solve(*blk);
    return blk;
}

// =========================================================================================================
// Delivery + monitors
// =========================================================================================================
namespace {
bool ReasonMatches(const std::string& expected, const std::string& observed)
{
    if (expected == observed) return true;
    // script failures carry the interpreter's error text in parentheses
    if (expected == "block-script-verify-flag-failed") return observed.rfind("block-script-verify-flag-failed", 0) == 0 || observed.rfind("mandatory-script-verify-flag-failed", 0) == 0;
    return false;
}
struct Expect {
    enum Kind { REJECT, NOOP, STORED } kind{STORED};
    std::vector<Fault> any_of; //!< REJECT: acceptable (result, reason) pairs; exactly one => pinned
    bool mark_failed{false};
    std::string Str() const
    {
        if (kind == NOOP) return "no-op";
        if (kind == STORED) return "stored";
        std::string s = "reject ";
        for (size_t i = 0; i < any_of.size(); ++i) s += (i ? " | " : "") + ResultName(any_of[i].result) + ":" + any_of[i].reason;
        return s;
    }
};
bool VerdictAllowed(const Expect& e, const Verdict& v)
{
    if (v.valid) return false;
    for (const auto& f : e.any_of) {
        if (f.result == v.result && ReasonMatches(f.reason, v.reason)) return true;
    }
    return false;
}
std::vector<Fault> StageFaults(const RefBlock* b, Stage a, Stage b2 = Stage::CHECKBLOCK, bool two = false)
{
    std::vector<Fault> r;
    for (const auto& f : b->faults) {
        if (f.stage == a || (two && f.stage == b2)) r.push_back(f);
    }
    return r;
}
// header acceptance as the model expects it; nullopt = accepted (or already known and fine)
std::optional<Expect> HeaderExpect(RefLedger& led, RefBlock* b, int64_t now)
{
    Expect e;
    e.kind = Expect::REJECT;
    if (b->hdr_known) {
        if (b->failed) {
            e.any_of.push_back({"duplicate-invalid", Stage::HEADER, BlockValidationResult::BLOCK_CACHED_INVALID});
            return e;
        }
        return std::nullopt;
    }
    for (const auto& f : b->faults) {
        if (f.reason == "high-hash") {
            e.any_of.push_back(f);
            return e;
        }
    }
    if (!b->parent || !b->parent->hdr_known) {
        e.any_of.push_back({"prev-blk-not-found", Stage::HEADER, BlockValidationResult::BLOCK_MISSING_PREV});
        return e;
    }
    if (b->parent->failed) {
        e.any_of.push_back({"bad-prevblk", Stage::HEADER, BlockValidationResult::BLOCK_INVALID_PREV});
        return e;
    }
    e.any_of = StageFaults(b, Stage::HEADER);
    if ((int64_t)b->block->nTime > now + led.Params().max_future_s) {
        e.any_of.push_back({"time-too-new", Stage::HEADER, BlockValidationResult::BLOCK_TIME_FUTURE});
    }
    if (!e.any_of.empty()) return e;
    return std::nullopt;
}

void ProcessChecked(RefLedger& led, const ChainEvent& ev, Violations& out)
{
    RefBlock* rb = led.Find(ev.hash);
    if (!rb) return;
    const Verdict& v = ev.verdict;
    if (v.valid) {
        if (!led.ChainValid(rb)) {
            const RefBlock* bad = led.FirstInvalid(rb);
            std::string why;
            if (bad) {
                for (const auto& f : bad->faults) why += f.reason + " ";
            }
            out.push_back({"accepted-invalid-block", "the node validated (BlockChecked VALID) a block the model holds invalid",
                           vh::J().str("block", ev.hash.ToString()).str("tag", rb->meta.tag).i("height", rb->height).str("first_invalid", bad ? bad->hash.ToString() : "").str("invalid_tag", bad ? bad->meta.tag : "").str("model_faults", why).done()});
        }
        return;
    }
    switch (v.result) {
    case BlockValidationResult::BLOCK_CONSENSUS:
    case BlockValidationResult::BLOCK_MUTATED:
    case BlockValidationResult::BLOCK_INVALID_HEADER: {
        if (!rb->evaluated) return; // ancestor invalid per model: reported where the ancestor was accepted
        if (rb->faults.empty()) {
            out.push_back({"rejected-valid-block", "the node rejected a block the model holds valid",
                           vh::J().str("block", ev.hash.ToString()).str("tag", rb->meta.tag).i("height", rb->height).str("result", v.ResultName()).str("reason", v.reason).str("debug", v.debug).done()});
            return;
        }
        bool ok = false;
        std::string want;
        for (const auto& f : rb->faults) {
            want += ResultName(f.result) + ":" + f.reason + " ";
            if (f.result == v.result && ReasonMatches(f.reason, v.reason)) ok = true;
        }
        if (!ok) {
            out.push_back({"reject-reason-unexpected", "the node rejected an invalid block with a category/reason the model does not expect",
                           vh::J().str("block", ev.hash.ToString()).str("tag", rb->meta.tag).i("height", rb->height).str("observed", v.ResultName() + ":" + v.reason).str("model", want).done()});
        }
        return;
    }
    default:
        return;
    }
}
} // namespace

Violations AbsorbEvents(SimNode& node, RefLedger& led, std::vector<ChainEvent>* events_out)
{
    Violations out;
    node.Sync();
    std::vector<ChainEvent> evs = node.Verdicts().TakeEvents();
    for (const auto& ev : evs) {
        if (ev.kind != ChainEvent::CHECKED) continue;
        ProcessChecked(led, ev, out);
        if (!ev.verdict.valid && ev.verdict.result == BlockValidationResult::BLOCK_CONSENSUS) {
            // a consensus failure found while connecting marks the block (and its indexed descendants) failed
            RefBlock* rb = led.Find(ev.hash);
            if (rb && rb->hdr_known && rb->have_data) led.MarkFailed(rb);
        }
    }
    if (events_out) events_out->insert(events_out->end(), evs.begin(), evs.end());
    return out;
}

DeliverResult Deliver(SimNode& node, RefLedger& led, RefBlock* b, const DeliverOpts& o)
{
    DeliverResult r;
    const int64_t now = node.Time();
    r.tip_before = node.TipHash();
    auto add = [&](const char* key, const std::string& msg, const Expect& e, const SubmitResult& got, const char* phase) {
        r.violations.push_back({key, msg,
                                vh::J().str("block", b->hash.ToString()).str("tag", b->meta.tag).i("height", b->height).str("phase", phase).str("expected", e.Str())
                                    .b("ret", got.ret).str("observed", got.verdict ? got.verdict->ResultName() + ":" + got.verdict->reason : "none")
                                    .str("debug", got.verdict ? got.verdict->debug : "").done()});
    };
    // a pending early verdict of this block must not be processed twice
    bool early_reject_seen = false;

    // ---- header first
    if (o.headers_first || o.header_only) {
        auto he = HeaderExpect(led, b, now);
        r.hdr = node.SubmitHeaders(std::vector<CBlockHeader>{CBlockHeader(*b->block)});
        if (he) {
            if (r.hdr.ret || !r.hdr.verdict || !VerdictAllowed(*he, *r.hdr.verdict)) add("verdict-mismatch", "header delivery: the node's answer differs from the model's expectation", *he, r.hdr, "header");
        } else {
            if (!r.hdr.ret) {
                Expect acc;
                acc.kind = Expect::STORED;
                add("verdict-mismatch", "header delivery: the node refused a header the model accepts", acc, r.hdr, "header");
            } else {
                led.NoteHeader(b);
            }
        }
        r.expect = "header:" + (he ? he->Str() : std::string("accept"));
    }

    if (!o.header_only) {
        Expect e;
        // 1. context-free faults (checked before anything is stored or indexed)
        std::vector<Fault> cf = StageFaults(b, Stage::CHECKBLOCK);
        bool header_now_known = b->hdr_known;
        bool reject_contextual = false;
        if (!cf.empty()) {
            e.kind = Expect::REJECT;
            e.any_of = cf;
        } else if (auto he = HeaderExpect(led, b, now)) {
            e = *he;
        } else {
            header_now_known = true;
            const RefBlock* tip = led.Find(r.tip_before);
            if (b->have_data) {
                e.kind = Expect::NOOP;
            } else if (!o.force_processing && tip && (b->chainwork < tip->chainwork || b->height > tip->height + 288)) {
                e.kind = Expect::NOOP;
            } else {
                std::vector<Fault> cx = StageFaults(b, Stage::CONTEXTUAL, Stage::MUTATED_CTX, true);
                if (!cx.empty()) {
                    e.kind = Expect::REJECT;
                    e.any_of = cx;
                    reject_contextual = true;
                } else {
                    e.kind = Expect::STORED;
                }
            }
        }
        r.blk = node.SubmitBlock(b->block, o.force_processing, true);
        r.expect += (r.expect.empty() ? "" : " ; ") + std::string("block:") + e.Str();
        if (header_now_known) led.NoteHeader(b);
        switch (e.kind) {
        case Expect::REJECT: {
            early_reject_seen = r.blk.n_checked > 0;
            if (r.blk.ret || !r.blk.verdict || !VerdictAllowed(e, *r.blk.verdict)) {
                add("verdict-mismatch", "block delivery: expected an early rejection with the model's category/reason", e, r.blk, "block");
            }
            // a contextual consensus failure marks the index entry failed (mutation findings do not)
            if (reject_contextual) {
                bool all_ctx = true, none_ctx = true;
                for (const auto& f : e.any_of) {
                    all_ctx = all_ctx && f.stage == Stage::CONTEXTUAL;
                    none_ctx = none_ctx && f.stage != Stage::CONTEXTUAL;
                }
                const bool observed_consensus = r.blk.verdict && !r.blk.verdict->valid && r.blk.verdict->result == BlockValidationResult::BLOCK_CONSENSUS;
                if (all_ctx || (!none_ctx && observed_consensus)) led.MarkFailed(b);
            }
            break;
        }
        case Expect::NOOP:
            if (!r.blk.ret) add("verdict-mismatch", "block delivery: expected a silent no-op (already stored / unrequested low-work)", e, r.blk, "block");
            break;
        case Expect::STORED:
            led.NoteStored(b);
            if (!r.blk.ret) {
                // a refusal at this point means the node found an early fault the model does not see
                early_reject_seen = r.blk.n_checked > 0;
                add("verdict-mismatch", "block delivery: the node refused a block the model expects to be stored", e, r.blk, "block");
                b->have_data = false;
            }
            break;
        }
    }

    // ---- events: connect-time verdicts (of this or other blocks)
    node.Sync();
    std::vector<ChainEvent> evs = node.Verdicts().TakeEvents();
    bool skipped = false;
    for (const auto& ev : evs) {
        if (ev.kind != ChainEvent::CHECKED) continue;
        if (early_reject_seen && !skipped && ev.hash == b->hash && !ev.verdict.valid) {
            skipped = true; // the early verdict handled above
            continue;
        }
        ProcessChecked(led, ev, r.violations);
        if (!ev.verdict.valid && ev.verdict.result == BlockValidationResult::BLOCK_CONSENSUS) {
            RefBlock* rb = led.Find(ev.hash);
            if (rb && rb->hdr_known && rb->have_data) led.MarkFailed(rb);
        }
    }
    r.events = std::move(evs);
    r.tip_after = node.TipHash();
    r.index_after = node.Index(b->hash);
    // index entry of the delivered block vs mirror
    if (r.index_after.exists != b->hdr_known || r.index_after.have_data != b->have_data || r.index_after.failed != b->failed) {
        r.violations.push_back({"index-mismatch", "index entry of the delivered block differs from the model's expectation",
                                vh::J().str("block", b->hash.ToString()).str("tag", b->meta.tag).i("height", b->height).str("node", r.index_after.Str())
                                    .b("model_hdr", b->hdr_known).b("model_data", b->have_data).b("model_failed", b->failed).str("expected", r.expect).done()});
    }
    return r;
}

Violations CheckTip(SimNode& node, RefLedger& led)
{
    Violations out;
    const uint256 tip = node.TipHash();
    RefBlock* rb = led.Find(tip);
    if (!rb) {
        out.push_back({"tip-unknown", "active tip is not a block the generator produced", vh::J().str("tip", tip.ToString()).done()});
        return out;
    }
    if (!led.ChainValid(rb)) {
        const RefBlock* bad = led.FirstInvalid(rb);
        std::string why;
        if (bad) {
            for (const auto& f : bad->faults) why += f.reason + " ";
        }
        out.push_back({"tip-chain-invalid", "the active chain contains a block the model holds invalid",
                       vh::J().str("tip", tip.ToString()).i("height", rb->height).str("invalid_block", bad ? bad->hash.ToString() : "").str("invalid_tag", bad ? bad->meta.tag : "").i("invalid_height", bad ? bad->height : -1).str("model_faults", why).done()});
    }
    std::vector<RefBlock*> elig = led.EligibleTips();
    const RefBlock* best = nullptr;
    bool tip_in = false;
    for (RefBlock* e : elig) {
        if (!best || e->chainwork > best->chainwork) best = e;
        if (e == rb) tip_in = true;
    }
    if (!tip_in) {
        std::string path;
        for (const RefBlock* a = rb; a && path.size() < 600; a = a->parent) {
            if (!a->hdr_known || !a->have_data || a->failed) path += a->hash.ToString().substr(0, 12) + "@" + std::to_string(a->height) + (a->hdr_known ? "" : " no-hdr") + (a->have_data ? "" : " no-data") + (a->failed ? " failed" : "") + "; ";
        }
        out.push_back({"tip-ineligible", "the active tip has a block without data or marked invalid in its ancestry (per the model's record of deliveries/invalidations)",
                       vh::J().str("tip", tip.ToString()).i("height", rb->height).str("offending", path).done()});
    }
    if (best && rb->chainwork < best->chainwork) {
        out.push_back({"tip-not-best", "an eligible block (full data ancestry, nothing known invalid) has more work than the active tip",
                       vh::J().str("tip", tip.ToString()).i("tip_height", rb->height).str("tip_work", rb->chainwork.Hex()).str("better", best->hash.ToString()).i("better_height", best->height)
                           .str("better_work", best->chainwork.Hex()).str("better_tag", best->meta.tag).b("better_model_valid", led.ChainValid(best)).done()});
    }
    return out;
}

static IndexInfo IndexInfoLocked(ChainstateManager& cm, const uint256& hash) EXCLUSIVE_LOCKS_REQUIRED(::cs_main)
{
    IndexInfo r;
    const CBlockIndex* pi = cm.m_blockman.LookupBlockIndex(hash);
    if (!pi) return r;
    r.exists = true;
    r.have_data = pi->nStatus & BLOCK_HAVE_DATA;
    r.have_undo = pi->nStatus & BLOCK_HAVE_UNDO;
    r.failed = pi->nStatus & BLOCK_FAILED_VALID;
    r.in_active_chain = cm.ActiveChain().Contains(*pi);
    r.height = pi->nHeight;
    r.validity = pi->nStatus & BLOCK_VALID_MASK;
    r.work_hex = pi->nChainWork.GetHex();
    return r;
}

Violations CheckIndex(SimNode& node, RefLedger& led)
{
    Violations out;
    LOCK(::cs_main);
    ChainstateManager& cm = node.Chainman();
    for (const auto& up : led.Blocks()) {
        const RefBlock* b = up.get();
        IndexInfo ii = IndexInfoLocked(cm, b->hash);
        if (ii.exists != b->hdr_known || ii.have_data != b->have_data || ii.failed != b->failed) {
            out.push_back({"index-mismatch", "block index flags differ from the model's record of deliveries/invalidations",
                           vh::J().str("block", b->hash.ToString()).str("tag", b->meta.tag).i("height", b->height).str("node", ii.Str()).b("model_hdr", b->hdr_known).b("model_data", b->have_data).b("model_failed", b->failed).done()});
            if (out.size() >= 3) break;
        }
        if (ii.exists && ii.work_hex != b->chainwork.Hex()) {
            out.push_back({"chainwork-mismatch", "nChainWork differs from the model's own 256-bit sum",
                           vh::J().str("block", b->hash.ToString()).i("height", b->height).str("node", ii.work_hex).str("model", b->chainwork.Hex()).done()});
            if (out.size() >= 3) break;
        }
        if (ii.exists && ii.height != b->height) {
            out.push_back({"index-mismatch", "height differs", vh::J().str("block", b->hash.ToString()).i("node", ii.height).i("model", b->height).done()});
        }
    }
    return out;
}

static bool CoinEq(const Coin& c, const RefCoin& m)
{
    return c.out.nValue == m.value && c.out.scriptPubKey == m.spk && (int)c.nHeight == m.height && c.IsCoinBase() == m.coinbase;
}

Violations CheckUtxoProbe(SimNode& node, RefLedger& led, size_t* probed, uint256* node_hash)
{
    Violations out;
    LOCK(::cs_main);
    ChainstateManager& cm = node.Chainman();
    const CCoinsViewCache& view = cm.ActiveChainstate().CoinsTip();
    const CBlockIndex* tipi = cm.ActiveChain().Tip();
    RefBlock* rb = tipi ? led.Find(tipi->GetBlockHash()) : nullptr;
    const bool compare = rb && led.ChainValid(rb); // otherwise reported by CheckTip
    const RefUtxo* u = compare ? &led.Utxo(rb) : nullptr;
    HashWriter hw;
    size_t n = 0;
    for (const COutPoint& o : led.AllOutpoints()) {
        ++n;
        std::optional<Coin> c = view.PeekCoin(o);
        if (c && node_hash) hw << o << c->out.nValue << c->out.scriptPubKey << (int)c->nHeight << c->IsCoinBase();
        if (!compare || out.size() >= 4) continue;
        auto it = u->find(o);
        const RefCoin* m = it == u->end() ? nullptr : &it->second;
        const bool same = (c.has_value() == (m != nullptr)) && (!c || CoinEq(*c, *m));
        if (!same) {
            const char* kind = !c ? "lost" : !m ? "resurrected-or-unknown" : "differs";
            out.push_back({std::string("utxo-mismatch"), "node UTXO entry differs from the model's replay-from-genesis UTXO set",
                           vh::J().str("kind", kind).str("outpoint", OutPointStr(o)).raw("node", CoinJson(c)).raw("model", RefCoinJson(m)).str("tip", rb->hash.ToString()).i("height", rb->height).done()});
        }
    }
    if (probed) *probed = n;
    if (node_hash) *node_hash = hw.GetSHA256();
    return out;
}

uint256 NodeUtxoProbeHash(SimNode& node, RefLedger& led)
{
    LOCK(::cs_main);
    const CCoinsViewCache& view = node.Chainman().ActiveChainstate().CoinsTip();
    HashWriter hw;
    for (const COutPoint& o : led.AllOutpoints()) {
        std::optional<Coin> c = view.PeekCoin(o);
        if (!c) continue;
        hw << o << c->out.nValue << c->out.scriptPubKey << (int)c->nHeight << c->IsCoinBase();
    }
    return hw.GetSHA256();
}

Violations CheckUtxoFull(SimNode& node, RefLedger& led, bool wipe_cache)
{
    Violations out;
    node.Flush(wipe_cache ? FlushStateMode::FORCE_FLUSH : FlushStateMode::FORCE_SYNC);
    LOCK(::cs_main);
    RefBlock* rb = led.Find(node.TipHash());
    if (!rb || !led.ChainValid(rb)) return out;
    const RefUtxo& u = led.Utxo(rb);
    std::map<COutPoint, Coin> db;
    const uint256 best = node.ForEachDbCoin([&](const COutPoint& o, const Coin& c) { db[o] = c; });
    if (best != rb->hash) {
        out.push_back({"utxo-db-bestblock", "coins DB best block after a flush is not the active tip", vh::J().str("db", best.ToString()).str("tip", rb->hash.ToString()).done()});
        return out;
    }
    __int128 total = 0;
    for (const auto& [o, c] : db) {
        total += c.out.nValue;
        auto it = u.find(o);
        if (it == u.end() || !CoinEq(c, it->second)) {
            out.push_back({"utxo-db-mismatch", "coins DB holds a coin the model's UTXO set does not (or a different one)",
                           vh::J().str("outpoint", OutPointStr(o)).raw("node", CoinJson(c)).raw("model", RefCoinJson(it == u.end() ? nullptr : &it->second)).i("height", rb->height).done()});
            if (out.size() >= 4) return out;
        }
    }
    __int128 mtotal = 0;
    for (const auto& [o, m] : u) {
        mtotal += m.value;
        if (!db.count(o)) {
            out.push_back({"utxo-db-mismatch", "the model's UTXO set holds a coin the coins DB does not",
                           vh::J().str("outpoint", OutPointStr(o)).raw("node", "null").raw("model", RefCoinJson(&m)).i("height", rb->height).done()});
            if (out.size() >= 4) return out;
        }
    }
    const CAmount cap = led.SubsidySum(rb->height);
    if (total > cap) {
        out.push_back({"supply-exceeded", "total value of the UTXO set exceeds the sum of subsidies up to the tip",
                       vh::J().i("height", rb->height).str("utxo_total", std::to_string((int64_t)total)).i("subsidy_sum", cap).done()});
    }
    if (total != mtotal) {
        out.push_back({"utxo-total-mismatch", "total value differs from the model", vh::J().str("node", std::to_string((int64_t)total)).str("model", std::to_string((int64_t)mtotal)).done()});
    }
    auto st = node.ComputeDbStats();
    if (st) {
        if (!st->total || *st->total != (CAmount)mtotal || st->coins != u.size() || st->best != rb->hash) {
            out.push_back({"utxo-stats-mismatch", "ComputeUTXOStats disagrees with the model (count / total amount / best block)",
                           vh::J().u("coins", st->coins).u("model_coins", u.size()).str("total", st->total ? std::to_string(*st->total) : "overflow").str("model_total", std::to_string((int64_t)mtotal)).done()});
        }
    }
    return out;
}

Violations RevisitMonitor::Observe(const uint256& tip, const uint256& utxo_hash)
{
    Violations out;
    auto [it, fresh] = m_seen.emplace(tip, utxo_hash);
    if (!fresh) {
        ++m_revisits;
        if (it->second != utxo_hash) {
            out.push_back({"revisit-mismatch", "the same tip was reached again through a different history with a different UTXO set",
                           vh::J().str("tip", tip.ToString()).str("first", it->second.ToString()).str("now", utxo_hash.ToString()).done()});
        }
    }
    return out;
}

} // namespace sim
