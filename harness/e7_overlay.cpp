// VH_FLAVOURS: asan tsan
// E7 `conc` — C14: parallel validation = serial validation, race-free.
//   c14_overlay : CoinsViewOverlay over a CCoinsViewCache over an in-memory CCoinsViewDB; worker pool of 0..16 threads,
//                 seeded schedule perturbation at the VERIF_POINTs, CPU over-subscription; every coin seen through the
//                 overlay is compared with base->PeekCoin computed beforehand; base/DB unchanged after Reset; base == model
//                 after Flush.
//   c14_blocks  : one pre-built block history (valid blocks + variants with one invalid script / one missing input) fed to
//                 fresh nodes under different (script-check threads, prevout-fetch threads, cache state) configurations;
//                 verdict, reject reason category and UTXO digests are logged per configuration and compared.
#include <common/vh.h>
#include <e7_conc.h>

#include <chainparams.h>
#include <coins.h>
#include <consensus/merkle.h>
#include <consensus/validation.h>
#include <crypto/sha256.h>
#include <kernel/coinstats.h>
#include <key.h>
#include <node/blockstorage.h>
#include <node/chainstate.h>
#include <node/kernel_notifications.h>
#include <hash.h>
#include <util/signalinterrupt.h>
#include <scheduler.h>
#include <pow.h>
#include <primitives/block.h>
#include <primitives/transaction.h>
#include <script/interpreter.h>
#include <script/script.h>
#include <test/util/setup_common.h>
#include <txdb.h>
#include <util/threadpool.h>
#include <validation.h>
#include <validationinterface.h>

#include <atomic>
#include <chrono>
#include <map>
#include <optional>
#include <set>
#include <thread>
#include <unordered_map>

namespace {

using CoinMap = std::map<COutPoint, Coin>; // unspent coins only

bool SameCoin(const Coin& a, const Coin& b)
{
    if (a.IsSpent() || b.IsSpent()) return a.IsSpent() && b.IsSpent();
    return a.out.nValue == b.out.nValue && a.out.scriptPubKey == b.out.scriptPubKey && a.nHeight == b.nHeight && a.fCoinBase == b.fCoinBase;
}
bool SameOpt(const std::optional<Coin>& a, const std::optional<Coin>& b)
{
    const bool ha = a && !a->IsSpent(), hb = b && !b->IsSpent();
    if (ha != hb) return false;
    return !ha || SameCoin(*a, *b);
}
std::string CoinStr(const std::optional<Coin>& c)
{
    if (!c || c->IsSpent()) return "none";
    return std::to_string(c->out.nValue) + ":" + vh::Hex(c->out.scriptPubKey) + ":" + std::to_string(c->nHeight) + (c->fCoinBase ? "cb" : "");
}
std::string OutStr(const COutPoint& o) { return o.hash.ToString().substr(0, 16) + ":" + std::to_string(o.n); }

// ---- stall watchdog: only reports where the harness was; the verdict "hang" is the driver's (timeout, re-run) --------
std::atomic<uint64_t> g_progress{0};
std::atomic<const char*> g_phase{"init"};
std::atomic<bool> g_wd_stop{false};
std::atomic<uint64_t> g_wd_case{0}; // own copy: vh::cur_case() is a plain variable of the main thread
void Progress(const char* phase)
{
    g_phase.store(phase, std::memory_order_relaxed);
    g_progress.fetch_add(1, std::memory_order_relaxed);
}
struct Watchdog {
    std::thread th;
    explicit Watchdog(int stall_s)
    {
        th = std::thread([stall_s] {
            uint64_t last = g_progress.load();
            int idle = 0;
            while (!g_wd_stop.load()) {
                std::this_thread::sleep_for(std::chrono::seconds(1));
                const uint64_t now = g_progress.load();
                if (now != last) {
                    last = now;
                    idle = 0;
                    continue;
                }
                if (++idle == stall_s) {
                    std::fprintf(stderr, "vh: WATCHDOG no progress for %d s in case %llu phase %s (possible deadlock in the code under test)\n",
                                 stall_s, (unsigned long long)g_wd_case.load(), g_phase.load());
                    std::fflush(stderr);
                }
            }
        });
    }
    ~Watchdog()
    {
        g_wd_stop.store(true);
        th.join();
    }
};

// =====================================================================================================================
//  (b) overlay level
// =====================================================================================================================

struct IdMap {
    std::map<COutPoint, uint32_t> m;
};
// Read-only while workers run (built before StartFetching, cleared after the overlay is quiescent).
const IdMap* g_ids = nullptr;

//! The base cache of production, with one observation added: which outpoint the calling thread is peeking. The override
//! touches thread-local state only and forwards to the real implementation.
class SpyCache : public CCoinsViewCache
{
public:
    using CCoinsViewCache::CCoinsViewCache;
    std::optional<Coin> PeekCoin(const COutPoint& outpoint) const override
    {
        if (const IdMap* ids = g_ids) {
            auto it = ids->m.find(outpoint);
            e7::t_aux = it == ids->m.end() ? 0 : it->second;
        }
        return CCoinsViewCache::PeekCoin(outpoint);
    }
    //! Canonical dump of the cache map incl. flags (access to the protected map: test-only observation).
    std::string Dump() const
    {
        std::vector<std::string> v;
        v.reserve(cacheCoins.size());
        for (const auto& [o, e] : cacheCoins) {
            v.push_back(o.hash.ToString() + ":" + std::to_string(o.n) + "=" + CoinStr(e.coin) + (e.IsDirty() ? "D" : "") + (e.IsFresh() ? "F" : ""));
        }
        std::sort(v.begin(), v.end());
        std::string r;
        for (auto& s : v) r += s + "\n";
        return r;
    }
};

std::string DumpDB(const CCoinsViewDB& db)
{
    std::string r;
    auto cur = db.Cursor();
    for (; cur->Valid(); cur->Next()) {
        COutPoint k;
        Coin c;
        if (cur->GetKey(k) && cur->GetValue(c)) r += k.hash.ToString() + ":" + std::to_string(k.n) + "=" + CoinStr(c) + "\n";
    }
    return r;
}

CScript RandScript(vh::Rng& rng)
{
    const size_t n = rng.chance(1, 4) ? rng.range(29, 80) : rng.range(1, 28);
    auto b = rng.bytes(n);
    if (b[0] == OP_RETURN) b[0] = OP_TRUE;
    return CScript(b.begin(), b.end());
}
Coin RandCoin(vh::Rng& rng)
{
    return Coin(CTxOut(rng.range(0, 2100000000000000LL), RandScript(rng)), static_cast<int>(rng.range(1, 900000)), rng.chance(1, 8));
}
Txid RandTxid(vh::Rng& rng)
{
    uint256 h;
    rng.fill(h.begin(), 32);
    return Txid::FromUint256(h);
}

std::map<int, std::shared_ptr<ThreadPool>> g_pools;

struct OverlayStats {
    uint64_t reads{0}, main_first{0}, wait_points{0}, fetched{0};
};

int RunOverlayCase(const vh::Args& args, uint64_t c, e7::Affinity& aff)
{
    vh::Rng rng(args.seed, c);
    static const int THREADS[] = {0, 1, 2, 3, 4, 8, 16};
    static const int CPUS[] = {1, 2, 16};
    static const uint32_t PROBS[] = {0, 30, 150, 400};
    const int nthreads = THREADS[rng.below(7)];
    const int ncpu_req = CPUS[rng.below(3)];
    const uint32_t prob = PROBS[rng.below(4)];
    Progress("populate");

    // Long-lived pools, one per size, as in production (the node keeps one pool for its lifetime).
    auto& pool = g_pools[nthreads];
    if (!pool) {
        pool = std::make_shared<ThreadPool>("vhfetch");
        if (nthreads > 0) pool->Start(nthreads);
    }

    const int ncpu = aff.Pin(ncpu_req, rng); // after the pool exists: applies to every thread of the process
    CCoinsViewDB db{DBParams{.path = "", .cache_bytes = 1 << 20, .memory_only = true}, CoinsViewOptions{}};
    SpyCache base{&db};

    // ---- population -------------------------------------------------------------------------------------------
    // model of the two layers: dbm = what is in the DB; cm = entries of the base cache (nullopt = spent entry)
    CoinMap dbm;
    std::map<COutPoint, std::optional<Coin>> cm;
    std::vector<COutPoint> universe, absent_pool, spent_pool;
    const int N = rng.chance(1, 4) ? rng.range(300, 900) : rng.range(20, 250);
    int pop[6] = {0, 0, 0, 0, 0, 0};
    {
        CCoinsViewCache loader{&db};
        std::vector<std::pair<COutPoint, int>> plan;
        Txid cur = RandTxid(rng);
        uint32_t n = 0;
        for (int i = 0; i < N; ++i) {
            if (rng.chance(1, 3)) {
                cur = RandTxid(rng);
                n = 0;
            }
            COutPoint o(cur, n++);
            const int cls = rng.weighted({30, 20, 20, 10, 10, 10});
            ++pop[cls];
            plan.emplace_back(o, cls);
            universe.push_back(o);
            // 0 db only, 1 db + clean in cache, 2 cache only (dirty fresh), 3 db + spent in cache, 4 db old value + dirty new value in cache, 5 absent
            if (cls == 0 || cls == 1 || cls == 3 || cls == 4) {
                Coin coin = RandCoin(rng);
                dbm[o] = coin;
                loader.AddCoin(o, std::move(coin), false);
            }
        }
        loader.SetBestBlock(uint256::ONE);
        loader.Flush();
        for (auto& [o, cls] : plan) {
            switch (cls) {
            case 1:
                cm[o] = *base.GetCoin(o);
                break;
            case 2: {
                Coin coin = RandCoin(rng);
                cm[o] = coin;
                base.AddCoin(o, std::move(coin), false);
                break;
            }
            case 3:
                base.SpendCoin(o);
                cm[o] = std::nullopt;
                spent_pool.push_back(o);
                break;
            case 4: {
                Coin coin = RandCoin(rng);
                cm[o] = coin;
                base.AddCoin(o, std::move(coin), true);
                break;
            }
            case 5: absent_pool.push_back(o); break;
            default: break;
            }
        }
        base.SetBestBlock(uint256::ONE);
    }
    // union view model of the base
    CoinMap bm = dbm;
    for (auto& [o, oc] : cm) {
        if (oc) bm[o] = *oc;
        else bm.erase(o);
    }

    CoinsViewOverlay ov{&base, pool};
    const int nblocks = rng.range(1, 4);
    uint64_t bad = 0;
    auto viol = [&](const char* key, const std::string& msg, const vh::J& d) {
        if (bad++ < 3) vh::log().violation(key, msg, d);
    };
    std::vector<std::string> blockrecs;
    OverlayStats tot;
    bool nt = false;
    int n_reset = 0, n_flush = 0;

    for (int bi = 0; bi < nblocks; ++bi) {
        Progress("build-block");
        // ---- block generation -----------------------------------------------------------------------------------
        CBlock block;
        {
            CMutableTransaction cb;
            cb.vin.emplace_back();
            cb.vout.emplace_back(50, RandScript(rng));
            block.vtx.push_back(MakeTransactionRef(cb));
        }
        std::vector<COutPoint> avail;
        for (auto& [o, coin] : bm) avail.push_back(o);
        rng.shuffle(avail);
        size_t avail_pos = 0;
        std::vector<COutPoint> used;            // inputs used so far in this block (for duplicates)
        std::vector<COutPoint> inblock_unspent; // outputs of earlier txs of this block not yet spent in it
        std::vector<std::pair<Txid, uint32_t>> earlier; // (txid, nout) of earlier txs in this block
        // A "clean" block spends only existing coins (base or created earlier in the block), each once: the shape of a valid
        // block, whose inputs are all consumed in order so that it can be flushed. Other blocks carry 1-3 defects at
        // random positions (or, rarely, defects everywhere).
        const int shape = static_cast<int>(rng.weighted({50, 40, 10})); // 0 clean, 1 few defects, 2 noisy
        const int ntx = rng.chance(1, 6) ? rng.range(20, 60) : rng.range(1, 15);
        std::vector<int> nins(ntx);
        size_t planned = 0;
        for (auto& n : nins) {
            n = rng.chance(1, 10) ? rng.range(8, 40) : rng.range(1, 6);
            planned += n;
        }
        std::set<size_t> defect_pos;
        if (shape == 1) {
            for (int d = rng.range(1, 3); d > 0; --d) defect_pos.insert(rng.below(planned));
        }
        int n_dup = 0, n_inblock = 0, n_absent = 0, n_spentc = 0, n_defects = 0;
        size_t pos = 0;
        for (int t = 0; t < ntx; ++t) {
            CMutableTransaction tx;
            tx.nLockTime = static_cast<uint32_t>(rng.next());
            for (int i = 0; i < nins[t]; ++i, ++pos) {
                const bool defect = shape == 2 ? rng.chance(1, 4) : defect_pos.count(pos) > 0;
                COutPoint o;
                bool have = false;
                if (!defect) {
                    if (!inblock_unspent.empty() && rng.chance(1, 6)) {
                        const size_t k = rng.below(inblock_unspent.size());
                        o = inblock_unspent[k];
                        inblock_unspent.erase(inblock_unspent.begin() + k);
                        ++n_inblock;
                        have = true;
                    } else if (avail_pos < avail.size()) {
                        o = avail[avail_pos++];
                        have = true;
                    }
                } else {
                    ++n_defects;
                    const size_t k = rng.weighted({35, 20, 20, 25});
                    if (k == 0) {
                        o = (!absent_pool.empty() && rng.coin()) ? rng.pick(absent_pool) : COutPoint(RandTxid(rng), rng.below(3));
                        ++n_absent;
                        have = true;
                    } else if (k == 1 && !spent_pool.empty()) {
                        o = rng.pick(spent_pool);
                        ++n_spentc;
                        have = true;
                    } else if (k == 2 && !earlier.empty()) {
                        auto& e = rng.pick(earlier);
                        o = COutPoint(e.first, e.second + rng.below(2)); // output index that does not exist
                        ++n_inblock;
                        have = true;
                    } else if (k == 3 && !used.empty()) {
                        o = rng.pick(used);
                        ++n_dup;
                        have = true;
                    }
                    if (!have) {
                        o = COutPoint(RandTxid(rng), 0);
                        ++n_absent;
                        have = true;
                    }
                }
                if (!have) continue; // clean block and nothing left to spend
                used.push_back(o);
                tx.vin.emplace_back(o);
            }
            if (tx.vin.empty()) break;
            const int nout = rng.range(1, 4);
            for (int i = 0; i < nout; ++i) tx.vout.emplace_back(rng.range(0, 100000000), RandScript(rng));
            auto ref = MakeTransactionRef(tx);
            earlier.emplace_back(ref->GetHash(), nout);
            for (int i = 0; i < nout; ++i) inblock_unspent.emplace_back(ref->GetHash(), i);
            block.vtx.push_back(ref);
        }
        // ---- what a direct lookup returns, computed beforehand -------------------------------------------------------
        IdMap ids;
        std::vector<COutPoint> all_pts;
        auto add_pt = [&](const COutPoint& o) {
            if (ids.m.emplace(o, static_cast<uint32_t>(ids.m.size() + 1)).second) all_pts.push_back(o);
        };
        for (auto& o : universe) add_pt(o);
        for (auto& tx : block.vtx) {
            if (!tx->IsCoinBase()) {
                for (auto& in : tx->vin) add_pt(in.prevout);
            }
            for (uint32_t i = 0; i < tx->vout.size(); ++i) add_pt(COutPoint(tx->GetHash(), i));
        }
        std::map<COutPoint, std::optional<Coin>> pre;
        for (auto& o : all_pts) {
            auto pc = base.PeekCoin(o);
            auto it = bm.find(o);
            std::optional<Coin> want = it == bm.end() ? std::nullopt : std::optional<Coin>{it->second};
            if (!SameOpt(pc, want)) {
                viol("base-peek-differs-from-population", "base->PeekCoin differs from what the harness put into cache/DB",
                     vh::J().str("outpoint", OutStr(o)).str("got", CoinStr(pc)).str("want", CoinStr(want)));
            }
            pre[o] = std::move(pc);
        }
        const std::string base_dump = base.Dump();
        const std::string db_dump = DumpDB(db);
        const unsigned base_size = base.GetCacheSize();
        const size_t base_mem = base.DynamicMemoryUsage();
        const size_t base_dirty = base.GetDirtyCount();

        // ---- run ---------------------------------------------------------------------------------------------------
        // view model through the overlay = pre + local modifications
        std::map<COutPoint, std::optional<Coin>> local;
        auto look = [&](const COutPoint& o) -> std::optional<Coin> {
            if (auto it = local.find(o); it != local.end()) return it->second;
            if (auto it = pre.find(o); it != pre.end()) return it->second;
            return std::nullopt;
        };
        // 0 in order, complete; 1 stop at first missing input (what ConnectBlock does); 2 stop early at a random point;
        // 3 out of order (some transactions' inputs visited in shuffled order); 4 BIP30-style probes of outputs first
        const int mode = static_cast<int>(rng.weighted({30, 25, 20, 15, 10}));
        size_t total_inputs = 0;
        for (auto& tx : block.vtx) total_inputs += tx->IsCoinBase() ? 0 : tx->vin.size();
        const size_t stop_at = mode == 2 ? rng.below(total_inputs + 1) : SIZE_MAX;
        const bool probe_outputs = mode == 4 || rng.chance(1, 6);
        g_ids = &ids;
        e7::Begin(args.seed * 1000003 + c * 16 + bi, prob);
        Progress("overlay-run");
        bool stopped = false, flushed = false;
        size_t reads = 0;
        std::string stop_reason = "end";
        {
            const auto guard{ov.StartFetching(block)};
            auto read = [&](const COutPoint& o) -> bool {
                auto idit = ids.m.find(o);
                e7::t_aux = idit == ids.m.end() ? 0 : idit->second;
                const auto want = look(o);
                std::optional<Coin> got;
                const int how = static_cast<int>(rng.below(3));
                bool have_only = false, have = false;
                if (how == 0) {
                    const Coin& cref = ov.AccessCoin(o);
                    if (!cref.IsSpent()) got = cref;
                } else if (how == 1) {
                    got = ov.GetCoin(o);
                } else {
                    have_only = true;
                    have = ov.HaveCoin(o);
                }
                ++reads;
                const bool want_have = want && !want->IsSpent();
                if (have_only ? have != want_have : !SameOpt(got, want)) {
                    viol("overlay-coin-differs-from-direct-lookup", "coin seen through the overlay differs from base->PeekCoin computed beforehand (+ own in-block changes)",
                         vh::J().str("outpoint", OutStr(o)).str("got", have_only ? (have ? "have" : "none") : CoinStr(got)).str("want", CoinStr(want)).i("threads", nthreads).i("mode", mode).i("block", bi));
                }
                return want_have;
            };
            if (mode == 4) {
                for (auto& tx : block.vtx) {
                    for (uint32_t i = 0; i < tx->vout.size(); ++i) read(COutPoint(tx->GetHash(), i));
                }
            }
            size_t seen_inputs = 0;
            for (size_t ti = 1; ti < block.vtx.size() && !stopped; ++ti) {
                const CTransaction& tx = *block.vtx[ti];
                if (probe_outputs && mode != 4) {
                    for (uint32_t i = 0; i < tx.vout.size(); ++i) read(COutPoint(tx.GetHash(), i));
                }
                std::vector<size_t> order(tx.vin.size());
                for (size_t i = 0; i < order.size(); ++i) order[i] = i;
                if (mode == 3 && rng.chance(1, 3)) rng.shuffle(order);
                bool missing = false;
                for (size_t i : order) {
                    if (seen_inputs++ >= stop_at) {
                        stopped = true;
                        stop_reason = "early";
                        break;
                    }
                    if (!read(tx.vin[i].prevout)) missing = true;
                }
                if (stopped) break;
                if (missing && mode == 1) {
                    stopped = true;
                    stop_reason = "missing-input";
                    break;
                }
                // UpdateCoins
                for (size_t i : order) {
                    const COutPoint& o = tx.vin[i].prevout;
                    const auto want = look(o);
                    Coin moved;
                    const bool r = ov.SpendCoin(o, &moved);
                    const bool want_have = want && !want->IsSpent();
                    if ((want_have && !r) || !SameOpt(want_have ? want : std::nullopt, moved.IsSpent() ? std::nullopt : std::optional<Coin>{moved})) {
                        viol("overlay-spend-differs", "SpendCoin through the overlay returned a different coin than the direct lookup",
                             vh::J().str("outpoint", OutStr(o)).str("got", CoinStr(moved)).str("want", CoinStr(want)).b("ret", r));
                    }
                    local[o] = std::nullopt;
                }
                for (uint32_t i = 0; i < tx.vout.size(); ++i) {
                    COutPoint o(tx.GetHash(), i);
                    const auto ex = look(o);
                    Coin coin(tx.vout[i], 1000 + bi, false);
                    local[o] = coin;
                    ov.AddCoin(o, std::move(coin), /*possible_overwrite=*/ex && !ex->IsSpent());
                }
            }
            if (!stopped && ov.AllInputsConsumed() && rng.chance(3, 4)) {
                Progress("overlay-flush");
                uint256 h;
                rng.fill(h.begin(), 32);
                ov.SetBestBlock(h);
                ov.Flush(/*reallocate_cache=*/rng.coin());
                flushed = true;
            }
            Progress("overlay-reset");
        } // ResetGuard: Reset() -> StopFetching()
        g_ids = nullptr;
        Progress("overlay-check");
        const auto evs = e7::Collect();
        // how often the main thread reached the wait before the worker had published that input
        OverlayStats s;
        {
            std::map<uint32_t, std::vector<uint64_t>> fetched_seq;
            for (auto& e : evs) {
                if (e.tag == e7::T_OV_FETCHED) {
                    fetched_seq[e.aux].push_back(e.seq);
                    ++s.fetched;
                }
            }
            std::map<uint32_t, size_t> occ;
            for (auto& e : evs) {
                if (e.tag != e7::T_OV_MAIN_WAIT) continue;
                ++s.wait_points;
                const size_t j = occ[e.aux]++;
                size_t before = 0;
                for (uint64_t q : fetched_seq[e.aux]) before += q < e.seq;
                if (before <= j) ++s.main_first;
            }
            s.reads = reads;
        }
        const uint64_t fp = e7::Fingerprint(evs);
        tot.reads += s.reads;
        tot.main_first += s.main_first;
        tot.wait_points += s.wait_points;
        tot.fetched += s.fetched;

        if (flushed) {
            ++n_flush;
            for (auto& [o, oc] : local) {
                if (oc && !oc->IsSpent()) bm[o] = *oc;
                else bm.erase(o);
            }
            for (auto& o : all_pts) {
                auto it = bm.find(o);
                std::optional<Coin> want = it == bm.end() ? std::nullopt : std::optional<Coin>{it->second};
                const auto got = base.PeekCoin(o);
                if (!SameOpt(got, want)) {
                    viol("base-differs-from-model-after-flush", "after Flush the base view differs from the model",
                         vh::J().str("outpoint", OutStr(o)).str("got", CoinStr(got)).str("want", CoinStr(want)).i("threads", nthreads).i("block", bi));
                    break;
                }
            }
            base.SanityCheck();
            spent_pool.clear();
            vh::log().obs("flush_then_base_equals_model");
        } else {
            ++n_reset;
            vh::J d;
            d.i("threads", nthreads).i("mode", mode).i("block", bi).str("stop", stop_reason);
            if (base.GetCacheSize() != base_size) viol("base-cache-size-changed", "base GetCacheSize() changed although the overlay was Reset without Flush", d.u("before", base_size).u("after", base.GetCacheSize()));
            else if (base.GetDirtyCount() != base_dirty) viol("base-dirty-count-changed", "base dirty count changed although the overlay was Reset without Flush", d.u("before", base_dirty).u("after", base.GetDirtyCount()));
            else if (base.DynamicMemoryUsage() != base_mem) viol("base-memory-usage-changed", "base DynamicMemoryUsage() changed although the overlay was Reset without Flush", d.u("before", base_mem).u("after", base.DynamicMemoryUsage()));
            else if (base.Dump() != base_dump) viol("base-cache-content-changed", "base cache entries/flags changed although the overlay was Reset without Flush", d);
            for (auto& o : all_pts) {
                if (!SameOpt(base.PeekCoin(o), pre[o])) {
                    viol("base-view-changed", "base->PeekCoin changed although the overlay was Reset without Flush", d.str("outpoint", OutStr(o)));
                    break;
                }
            }
            vh::log().obs("reset_without_flush");
            if (stop_reason == "missing-input") vh::log().obs("invalid_at_pos");
            if (stop_reason == "early") vh::log().obs("stopped_early");
        }
        if (DumpDB(db) != db_dump) viol("db-content-changed", "coins DB content changed during overlay use", vh::J().i("threads", nthreads).i("block", bi));

        const size_t nthr_seen = e7::ThreadsSeen(evs);
        if (nthreads >= 2 && s.main_first >= 1) nt = true;
        if (mode == 3) vh::log().obs("out_of_order");
        if (probe_outputs) vh::log().obs("output_probes");
        if (n_dup) vh::log().obs("blocks_with_duplicate_prevouts");
        if (n_inblock) vh::log().obs("blocks_with_inblock_spends");
        blockrecs.push_back(vh::J().u("ntx", block.vtx.size() - 1).u("inputs", total_inputs).i("mode", mode).str("end", flushed ? "flush" : stop_reason).u("reads", s.reads)
                                .u("wait_points", s.wait_points).u("main_first", s.main_first).u("fetched", s.fetched).u("threads_seen", nthr_seen)
                                .i("shape", shape).i("defects", n_defects).i("dup", n_dup).i("inblock", n_inblock).i("absent", n_absent).i("spent_in_cache", n_spentc)
                                .str("fp", vh::Hex(reinterpret_cast<const unsigned char*>(&fp), 8)).done());

        // sometimes push the base cache down to the DB between blocks so that later blocks see other cache states
        if (bi + 1 < nblocks && rng.chance(1, 3)) {
            if (rng.coin()) base.Flush();
            else base.Sync();
            spent_pool.clear();
        }
    }
    Progress("teardown");
    aff.Restore();
    vh::log().obs("overlay_cases");
    vh::log().obs("overlay_reads", tot.reads);
    vh::log().obs("main_wait_points", tot.wait_points);
    vh::log().obs("main_arrived_before_worker_published", tot.main_first);
    vh::log().obs("worker_fetches", tot.fetched);
    vh::log().obs("perturbations", e7::g_perturbations.exchange(0));
    vh::log().obs(std::string("threads_") + std::to_string(nthreads));
    vh::log().obs(std::string("cpus_") + std::to_string(ncpu_req));
    vh::log().rec(vh::J().u("case", c).str("kind", "overlay").i("threads", nthreads).i("cpus", ncpu).u("prob", prob).i("coins", N)
                      .raw("pop", "[" + std::to_string(pop[0]) + "," + std::to_string(pop[1]) + "," + std::to_string(pop[2]) + "," + std::to_string(pop[3]) + "," + std::to_string(pop[4]) + "," + std::to_string(pop[5]) + "]")
                      .raw("blocks", vh::JArr(blockrecs)).i("resets", n_reset).i("flushes", n_flush).b("nt", nt).b("ok", bad == 0));
    return 0;
}


// =====================================================================================================================
//  (a) block level
// =====================================================================================================================

enum Kind { K_WPKH = 0, K_WSH_TRUE = 1, K_PKH = 2 };

struct Spendable {
    COutPoint o;
    CTxOut out;
    int kind;
    int height;
    bool cb;
};

struct Keys {
    CKey key;
    CPubKey pub;
    CScript spk[3];
    CScript wsh_script;
    CScript pkh_code;
};

Keys MakeKeys(vh::Rng& rng)
{
    Keys k;
    do {
        auto b = rng.bytes(32);
        k.key.Set(b.begin(), b.end(), true);
    } while (!k.key.IsValid());
    k.pub = k.key.GetPubKey();
    const CKeyID id = k.pub.GetID();
    k.pkh_code = CScript() << OP_DUP << OP_HASH160 << ToByteVector(id) << OP_EQUALVERIFY << OP_CHECKSIG;
    k.spk[K_WPKH] = CScript() << OP_0 << ToByteVector(id);
    k.wsh_script = CScript() << OP_TRUE;
    unsigned char h[32];
    CSHA256().Write(k.wsh_script.data(), k.wsh_script.size()).Finalize(h);
    k.spk[K_WSH_TRUE] = CScript() << OP_0 << std::vector<unsigned char>(h, h + 32);
    k.spk[K_PKH] = k.pkh_code;
    return k;
}

void SignInput(CMutableTransaction& mtx, size_t i, const Spendable& sp, const Keys& k)
{
    if (sp.kind == K_WSH_TRUE) {
        mtx.vin[i].scriptWitness.stack = {std::vector<unsigned char>(k.wsh_script.begin(), k.wsh_script.end())};
        return;
    }
    const uint256 hash = SignatureHash(k.pkh_code, mtx, i, SIGHASH_ALL, sp.out.nValue, sp.kind == K_WPKH ? SigVersion::WITNESS_V0 : SigVersion::BASE);
    std::vector<unsigned char> sig;
    if (!k.key.Sign(hash, sig)) throw std::runtime_error("sign failed");
    sig.push_back(static_cast<unsigned char>(SIGHASH_ALL));
    if (sp.kind == K_WPKH) {
        mtx.vin[i].scriptWitness.stack = {sig, ToByteVector(k.pub)};
    } else {
        mtx.vin[i].scriptSig = CScript() << sig << ToByteVector(k.pub);
    }
}

CAmount Subsidy(int height) { return (CAmount{50} * COIN) >> (height / 150); }

//! Assemble a regtest block by hand (coinbase with BIP34 height and witness commitment, merkle root, proof of work).
std::shared_ptr<const CBlock> MakeBlock(const uint256& prev, int height, uint32_t time, const std::vector<CTransactionRef>& txs,
                                        const std::vector<CTxOut>& cb_outs, uint32_t salt)
{
    CBlock b;
    b.nVersion = 0x20000000;
    b.hashPrevBlock = prev;
    b.nTime = time;
    b.nBits = 0x207fffff;
    CMutableTransaction cb;
    cb.vin.emplace_back();
    cb.vin[0].prevout.SetNull();
    cb.vin[0].scriptSig = CScript() << height << std::vector<unsigned char>{static_cast<unsigned char>(salt), static_cast<unsigned char>(salt >> 8), static_cast<unsigned char>(salt >> 16)};
    cb.vin[0].nSequence = CTxIn::MAX_SEQUENCE_NONFINAL;
    cb.nLockTime = static_cast<uint32_t>(height - 1);
    cb.vout = cb_outs;
    cb.vin[0].scriptWitness.stack = {std::vector<unsigned char>(32, 0)};
    b.vtx.push_back(MakeTransactionRef(cb));
    for (auto& t : txs) b.vtx.push_back(t);
    // witness commitment
    uint256 wroot = BlockWitnessMerkleRoot(b);
    const std::vector<unsigned char> nonce(32, 0);
    CHash256().Write(wroot).Write(nonce).Finalize(wroot);
    CTxOut commit;
    commit.nValue = 0;
    commit.scriptPubKey.resize(38);
    const unsigned char hdr[6] = {OP_RETURN, 0x24, 0xaa, 0x21, 0xa9, 0xed};
    std::memcpy(&commit.scriptPubKey[0], hdr, 6);
    std::memcpy(&commit.scriptPubKey[6], wroot.begin(), 32);
    cb.vout.push_back(commit);
    b.vtx[0] = MakeTransactionRef(cb);
    b.hashMerkleRoot = BlockMerkleRoot(b);
    const auto& cons = Params().GetConsensus();
    while (!CheckProofOfWork(b.GetHash(), b.nBits, cons)) ++b.nNonce;
    return std::make_shared<const CBlock>(std::move(b));
}

struct Step {
    std::shared_ptr<const CBlock> block;
    bool valid;
    std::string cls;      // "valid" | "script" | "missing" | "setup"
    size_t inputs{0};
    size_t pos{0};        // position of the defect among the block's inputs
    std::vector<COutPoint> touched;
    std::string model_digest; // digest of `touched` in the model ledger after this step
    bool test{false};
};

void DigestCoin(CSHA256& h, const COutPoint& o, const std::optional<Coin>& c)
{
    h.Write(o.hash.ToUint256().begin(), 32);
    unsigned char n[4] = {static_cast<unsigned char>(o.n), static_cast<unsigned char>(o.n >> 8), static_cast<unsigned char>(o.n >> 16), static_cast<unsigned char>(o.n >> 24)};
    h.Write(n, 4);
    if (!c || c->IsSpent()) {
        const unsigned char z = 0;
        h.Write(&z, 1);
        return;
    }
    const std::string s = "1/" + std::to_string(c->out.nValue) + "/" + std::to_string(c->nHeight) + "/" + (c->fCoinBase ? "c" : "n") + "/" + vh::Hex(c->out.scriptPubKey);
    h.Write(reinterpret_cast<const unsigned char*>(s.data()), s.size());
}
template <typename F>
std::string DigestOf(const std::vector<COutPoint>& pts, F&& lookup)
{
    CSHA256 h;
    for (auto& o : pts) DigestCoin(h, o, lookup(o));
    unsigned char out[32];
    h.Finalize(out);
    return vh::Hex(out, 12);
}

struct History {
    Keys keys;
    std::vector<Step> steps;
    CoinMap ledger;                    // model UTXO set after the last valid block
    std::vector<COutPoint> all_points; // every outpoint ever created or referenced
    std::string final_digest;
    size_t n_test_valid{0}, n_script{0}, n_missing{0};
};

History BuildHistory(vh::Rng& rng, int n_test_blocks, int max_inputs)
{
    History H;
    H.keys = MakeKeys(rng);
    const Keys& K = H.keys;
    const CBlock& genesis = Params().GenesisBlock();
    uint256 prev = genesis.GetHash();
    uint32_t time = genesis.nTime;
    int height = 0;
    std::vector<Spendable> pool;            // spendable by the next test block
    std::vector<Spendable> immature;        // fat coinbase outputs (all mature when the test blocks start)
    std::vector<COutPoint> spent_earlier;   // outpoints spent by earlier valid blocks
    std::set<COutPoint> all_set;
    auto note = [&](const COutPoint& o) {
        if (all_set.insert(o).second) H.all_points.push_back(o);
    };
    auto apply_block = [&](const CBlock& b, int h) {
        for (auto& tx : b.vtx) {
            if (!tx->IsCoinBase()) {
                for (auto& in : tx->vin) H.ledger.erase(in.prevout);
            }
            for (uint32_t i = 0; i < tx->vout.size(); ++i) {
                if (tx->vout[i].scriptPubKey.IsUnspendable()) continue;
                H.ledger[COutPoint(tx->GetHash(), i)] = Coin(tx->vout[i], h, tx->IsCoinBase());
            }
        }
    };
    auto ledger_lookup = [&](const COutPoint& o) -> std::optional<Coin> {
        auto it = H.ledger.find(o);
        return it == H.ledger.end() ? std::nullopt : std::optional<Coin>{it->second};
    };
    const int FAT = 6;
    // total inputs the test blocks may need
    const int per_cb = std::max(60, std::min(2400, (n_test_blocks * max_inputs * 3 / 4) / FAT + 50));
    for (height = 1; height <= FAT + 99; ++height) {
        std::vector<CTxOut> outs;
        if (height <= FAT) {
            const CAmount v = Subsidy(height) / per_cb;
            for (int i = 0; i < per_cb; ++i) outs.emplace_back(v, K.spk[rng.weighted({45, 35, 20})]);
        } else {
            outs.emplace_back(Subsidy(height), K.spk[K_WSH_TRUE]);
        }
        auto b = MakeBlock(prev, height, ++time, {}, outs, 0);
        apply_block(*b, height);
        if (height <= FAT) {
            for (uint32_t i = 0; i < outs.size(); ++i) {
                int kind = outs[i].scriptPubKey == K.spk[K_WPKH] ? K_WPKH : outs[i].scriptPubKey == K.spk[K_WSH_TRUE] ? K_WSH_TRUE : K_PKH;
                pool.push_back(Spendable{COutPoint(b->vtx[0]->GetHash(), i), outs[i], kind, height, true});
            }
        }
        prev = b->GetHash();
        Step st;
        st.block = b;
        st.valid = true;
        st.cls = "setup";
        H.steps.push_back(std::move(st));
    }
    for (auto& [o, c] : H.ledger) note(o);
    rng.shuffle(pool);

    for (int tb = 0; tb < n_test_blocks; ++tb, ++height) {
        // ---- the valid block ---------------------------------------------------------------------------------------------
        const size_t target = std::min<size_t>(pool.size(), rng.chance(1, 3) ? rng.range(std::max(50, max_inputs / 2), max_inputs) : rng.range(50, std::max(51, max_inputs / 3)));
        std::vector<CMutableTransaction> mtxs;
        std::vector<std::vector<Spendable>> spent_by; // per tx, the coins its inputs spend
        std::vector<Spendable> created;               // outputs created in this block, not yet spent in it
        size_t n_in = 0;
        while (n_in < target && !pool.empty()) {
            CMutableTransaction mtx;
            mtx.version = 2;
            std::vector<Spendable> ins;
            const int k = static_cast<int>(std::min<size_t>(rng.chance(1, 8) ? rng.range(10, 20) : rng.range(1, 6), target - n_in));
            CAmount total = 0;
            for (int i = 0; i < k; ++i) {
                Spendable sp;
                if (!created.empty() && rng.chance(1, 8)) {
                    const size_t j = rng.below(created.size());
                    sp = created[j];
                    created.erase(created.begin() + j);
                } else if (!pool.empty()) {
                    sp = pool.back();
                    pool.pop_back();
                } else {
                    break;
                }
                ins.push_back(sp);
                mtx.vin.emplace_back(sp.o);
                total += sp.out.nValue;
            }
            if (ins.empty()) break;
            const int nout = rng.range(1, 3);
            const CAmount fee = std::min<CAmount>(total / 10, 1000);
            for (int i = 0; i < nout; ++i) mtx.vout.emplace_back((total - fee) / nout, K.spk[rng.weighted({45, 35, 20})]);
            for (size_t i = 0; i < ins.size(); ++i) SignInput(mtx, i, ins[i], K);
            n_in += ins.size();
            const Txid txid = mtx.GetHash();
            for (uint32_t i = 0; i < mtx.vout.size(); ++i) {
                int kind = mtx.vout[i].scriptPubKey == K.spk[K_WPKH] ? K_WPKH : mtx.vout[i].scriptPubKey == K.spk[K_WSH_TRUE] ? K_WSH_TRUE : K_PKH;
                created.push_back(Spendable{COutPoint(txid, i), mtx.vout[i], kind, height, false});
            }
            mtxs.push_back(std::move(mtx));
            spent_by.push_back(std::move(ins));
        }
        std::vector<CTxOut> cb_outs{CTxOut(Subsidy(height), K.spk[K_WSH_TRUE])};
        ++time;

        // ---- invalid variants (each carries exactly one defect) ---------------------------------------------------------
        const int nvar = rng.range(1, 2);
        for (int v = 0; v < nvar && n_in > 0; ++v) {
            std::vector<CMutableTransaction> vt = mtxs;
            size_t p = rng.below(n_in), ti = 0, ii = 0;
            {
                size_t acc = 0;
                for (ti = 0; ti < vt.size(); ++ti) {
                    if (p < acc + vt[ti].vin.size()) {
                        ii = p - acc;
                        break;
                    }
                    acc += vt[ti].vin.size();
                }
            }
            const Txid old_txid = vt[ti].GetHash();
            std::string cls;
            const int what = static_cast<int>(rng.weighted({50, 30, 20}));
            CTxIn& in = vt[ti].vin[ii];
            std::vector<COutPoint> extra;
            if (what == 0) {
                cls = "script";
                const Spendable& sp = spent_by[ti][ii];
                if (sp.kind == K_WSH_TRUE) {
                    in.scriptWitness.stack = {std::vector<unsigned char>{OP_0}}; // not the committed script
                } else if (sp.kind == K_WPKH) {
                    auto& sig = in.scriptWitness.stack[0];
                    sig[sig.size() - 2 - rng.below(8)] ^= static_cast<unsigned char>(1 << rng.below(8));
                } else {
                    std::vector<unsigned char> raw(in.scriptSig.begin(), in.scriptSig.end());
                    raw[raw.size() / 3] ^= 0x10; // inside the signature push
                    in.scriptSig = CScript(raw.begin(), raw.end());
                }
            } else if (what == 1 || ti == 0) {
                cls = "missing";
                if (!spent_earlier.empty() && rng.coin()) in.prevout = rng.pick(spent_earlier);
                else in.prevout = COutPoint(RandTxid(rng), rng.below(4));
                extra.push_back(in.prevout);
            } else {
                cls = "missing"; // second spend of an outpoint already spent by an earlier transaction of this block
                const size_t tj = rng.below(ti);
                in.prevout = vt[tj].vin[rng.below(vt[tj].vin.size())].prevout;
            }
            // transactions depending on a transaction whose txid changed are left out, so that the defect stays single
            std::set<Txid> gone;
            if (vt[ti].GetHash() != old_txid) gone.insert(old_txid);
            std::vector<CTransactionRef> refs;
            size_t vin_count = 0;
            for (size_t t = 0; t < vt.size(); ++t) {
                bool drop = false;
                for (auto& i2 : vt[t].vin) drop |= gone.count(i2.prevout.hash) > 0;
                if (drop) {
                    gone.insert(mtxs[t].GetHash());
                    continue;
                }
                vin_count += vt[t].vin.size();
                refs.push_back(MakeTransactionRef(vt[t]));
            }
            Step st;
            st.block = MakeBlock(prev, height, time, refs, cb_outs, 1 + v);
            st.valid = false;
            st.cls = cls;
            st.inputs = vin_count;
            st.pos = p;
            st.test = true;
            for (auto& tx : st.block->vtx) {
                if (!tx->IsCoinBase()) {
                    for (auto& i2 : tx->vin) st.touched.push_back(i2.prevout);
                }
                for (uint32_t i = 0; i < tx->vout.size(); ++i) st.touched.push_back(COutPoint(tx->GetHash(), i));
            }
            for (auto& o : st.touched) note(o);
            st.model_digest = DigestOf(st.touched, ledger_lookup); // ledger unchanged by an invalid block
            (cls == "script" ? H.n_script : H.n_missing)++;
            H.steps.push_back(std::move(st));
        }

        // ---- now the valid block ---------------------------------------------------------------------------------------------
        std::vector<CTransactionRef> refs;
        for (auto& m : mtxs) refs.push_back(MakeTransactionRef(m));
        Step st;
        st.block = MakeBlock(prev, height, time, refs, cb_outs, 0);
        st.valid = true;
        st.cls = "valid";
        st.inputs = n_in;
        st.test = true;
        for (auto& tx : st.block->vtx) {
            if (!tx->IsCoinBase()) {
                for (auto& i2 : tx->vin) {
                    st.touched.push_back(i2.prevout);
                    spent_earlier.push_back(i2.prevout);
                }
            }
            for (uint32_t i = 0; i < tx->vout.size(); ++i) st.touched.push_back(COutPoint(tx->GetHash(), i));
        }
        for (auto& o : st.touched) note(o);
        apply_block(*st.block, height);
        st.model_digest = DigestOf(st.touched, ledger_lookup);
        prev = st.block->GetHash();
        H.steps.push_back(std::move(st));
        ++H.n_test_valid;
        for (auto& c : created) pool.push_back(c);
        rng.shuffle(pool);
    }
    std::sort(H.all_points.begin(), H.all_points.end());
    H.final_digest = DigestOf(H.all_points, ledger_lookup);
    return H;
}

struct Config {
    int script_threads;
    int fetch_threads;
    int cache_mode; // 0 everything cached (never flushed), 1 nothing cached (flush + wipe before every test block), 2 mixed
    int cpus;
    uint32_t prob;
};

class VerdictRecorder : public CValidationInterface
{
public:
    std::mutex mu;
    std::map<uint256, BlockValidationState> states;

protected:
    void BlockChecked(const std::shared_ptr<const CBlock>& block, const BlockValidationState& state) override
    {
        std::lock_guard<std::mutex> l(mu);
        states[block->GetHash()] = state;
    }
};

std::string Category(const std::string& reason)
{
    auto p = reason.find(" (");
    return p == std::string::npos ? reason : reason.substr(0, p);
}

struct ConfigResult {
    std::vector<std::string> steps; // json per test step
    std::string final_digest, utxo_hash, tip;
    uint64_t coins{0};
    std::set<uint64_t> fps;
    uint64_t nontrivial_blocks{0};
};

ConfigResult RunConfig(const History& H, const Config& cfg, uint64_t seed, e7::Affinity& aff, vh::Rng& crng)
{
    ConfigResult R;
    Progress("node-setup");
    const int cpus = aff.Pin(cfg.cpus, crng);
    (void)cpus;
    TestOpts opts;
    opts.extra_args = {"-nodebuglogfile", "-nodebug"};
    opts.min_validation_cache = true; // the fixture's own (discarded) ChainstateManager: no 32 MiB caches to initialise
    auto setup = std::make_unique<ChainTestingSetup>(ChainType::REGTEST, opts);
    ChainTestingSetup* s = setup.get();
    s->m_node.chainman.reset();
    s->m_make_chainman = [s, cfg] {
        ChainstateManager::Options chainman_opts{
            .chainparams = Params(),
            .datadir = s->m_args.GetDataDirNet(),
            .check_block_index = 1,
            .notifications = *s->m_node.notifications,
            .signals = s->m_node.validation_signals.get(),
            .worker_threads_num = cfg.script_threads,
            .prevoutfetch_threads_num = cfg.fetch_threads,
        };
        // small signature / script-execution caches: block connection does not store into them, and initialising the
        // default 32 MiB for every node dominates the run time under ThreadSanitizer
        chainman_opts.script_execution_cache_bytes = 1 << 18;
        chainman_opts.signature_cache_bytes = 1 << 18;
        const node::BlockManager::Options blockman_opts{
            .chainparams = chainman_opts.chainparams,
            .blocks_dir = s->m_args.GetBlocksDirPath(),
            .notifications = chainman_opts.notifications,
            .block_tree_db_params = DBParams{
                .path = s->m_args.GetDataDirNet() / "blocks" / "index",
                .cache_bytes = s->m_kernel_cache_sizes.block_tree_db,
                .memory_only = true,
            },
        };
        s->m_node.chainman = std::make_unique<ChainstateManager>(*s->m_node.shutdown_signal, chainman_opts, blockman_opts);
    };
    s->m_make_chainman();
    s->LoadVerifyActivateChainstate();
    ChainstateManager& cm = *s->m_node.chainman;
    VerdictRecorder rec;
    s->m_node.validation_signals->RegisterValidationInterface(&rec);

    auto tip_lookup = [&](const COutPoint& o) { return cm.ActiveChainstate().CoinsTip().PeekCoin(o); };
    size_t stepno = 0;
    for (const Step& st : H.steps) {
        ++stepno;
        if (st.test) {
            if (cfg.cache_mode != 0) {
                Progress("flush");
                cm.ActiveChainstate().ForceFlushStateToDisk(/*wipe_cache=*/true);
                if (cfg.cache_mode == 2) {
                    LOCK(cs_main);
                    vh::Rng pick(seed, 7000 + stepno); // same choice for every configuration
                    for (auto& tx : st.block->vtx) {
                        if (tx->IsCoinBase()) continue;
                        for (auto& in : tx->vin) {
                            if (pick.coin()) (void)cm.ActiveChainstate().CoinsTip().GetCoin(in.prevout);
                        }
                    }
                }
            }
            e7::Begin(seed ^ (stepno * 0x9e3779b97f4a7c15ULL), cfg.prob);
        }
        Progress(st.test ? "connect-test-block" : "connect-setup-block");
        bool new_block = false;
        const bool accepted = cm.ProcessNewBlock(st.block, /*force_processing=*/true, /*min_pow_checked=*/true, &new_block);
        if (!st.test) {
            if (WITH_LOCK(cs_main, return cm.ActiveChain().Tip()->GetBlockHash()) != st.block->GetHash()) {
                throw std::runtime_error("harness: setup block " + std::to_string(stepno) + " was not connected");
            }
            continue;
        }
        Progress("after-connect");
        const auto evs = e7::Collect();
        uint64_t waits = 0, fetched = 0, main_first = 0, batches = 0;
        for (auto& e : evs) {
            if (e.tag == e7::T_OV_FETCHED) ++fetched;
            else if (e.tag == e7::T_CQ_TAKEN) ++batches;
            else if (e.tag == e7::T_OV_MAIN_WAIT) {
                // inputs 0..waits-1 were consumed, hence published, before this point: if no more than `waits` inputs were
                // published so far, input number `waits` was not, and the main thread really arrived first
                if (fetched <= waits) ++main_first;
                ++waits;
            }
        }
        const uint64_t fp = e7::Fingerprint(evs);
        const size_t thr = e7::ThreadsSeen(evs);
        BlockValidationState state;
        bool have_state = false;
        {
            std::lock_guard<std::mutex> l(rec.mu);
            auto it = rec.states.find(st.block->GetHash());
            if (it != rec.states.end()) {
                state = it->second;
                have_state = true;
            }
        }
        std::string tip, digest;
        {
            LOCK(cs_main);
            tip = cm.ActiveChain().Tip()->GetBlockHash().ToString();
            digest = DigestOf(st.touched, tip_lookup);
        }
        const bool connected = tip == st.block->GetHash().ToString();
        const bool multi = cfg.script_threads >= 2 || cfg.fetch_threads >= 2;
        if (multi && main_first >= 1) ++R.nontrivial_blocks;
        R.fps.insert(fp);
        R.steps.push_back(vh::J().u("step", stepno).str("cls", st.cls).u("inputs", st.inputs).u("pos", st.pos).b("accepted", accepted).b("checked", have_state)
                              .b("state_valid", have_state && state.IsValid()).b("connected", connected)
                              .i("result", have_state ? static_cast<int>(state.GetResult()) : -1)
                              .str("reason", have_state ? Category(state.GetRejectReason()) : "").str("debug", have_state ? state.GetDebugMessage().substr(0, 120) : "")
                              .str("digest", digest).str("model_digest", st.model_digest)
                              .u("wait_points", waits).u("main_first", main_first).u("fetched", fetched).u("cq_batches", batches).u("threads_seen", thr)
                              .str("fp", vh::Hex(reinterpret_cast<const unsigned char*>(&fp), 8)).done());
    }
    Progress("final-digest");
    {
        LOCK(cs_main);
        R.final_digest = DigestOf(H.all_points, tip_lookup);
        R.tip = cm.ActiveChain().Tip()->GetBlockHash().ToString();
    }
    cm.ActiveChainstate().ForceFlushStateToDisk(/*wipe_cache=*/false);
    CCoinsViewDB& coinsdb = WITH_LOCK(cs_main, return std::ref(cm.ActiveChainstate().CoinsDB()));
    if (auto stats = kernel::ComputeUTXOStats(kernel::CoinStatsHashType::HASH_SERIALIZED, coinsdb, cm.m_blockman)) {
        R.utxo_hash = stats->hashSerialized.ToString();
        R.coins = stats->nTransactionOutputs;
    }
    s->m_node.validation_signals->UnregisterValidationInterface(&rec);
    Progress("node-teardown");
    setup.reset();
    aff.Restore();
    return R;
}

} // namespace

// One case = one history connected under `nconf` configurations (the first is always the serial one: 0 script-check
// workers, 0 prevout-fetch workers, everything cached, no perturbation).
VH_CMD(c14_blocks)
{
    e7::Affinity aff;
    e7::Install();
    Watchdog wd(static_cast<int>(args.geti("stall_s", 90)));
    const int n_test_blocks = static_cast<int>(args.geti("blocks", 4));
    const int max_inputs = static_cast<int>(args.geti("max_inputs", 600));
    const int nconf = static_cast<int>(args.geti("configs", 6));
    const bool full_grid = args.geti("grid", 0) != 0;
    static const int WT[] = {0, 1, 2, 3, 7, 15};
    static const int PF[] = {0, 1, 2, 4, 8, 16};
    static const int CPUS[] = {1, 2, 16};
    static const uint32_t PROBS[] = {0, 50, 200, 500};
    for (uint64_t c = args.from; c < args.to; ++c) {
        vh::set_case(c);
        g_wd_case.store(c);
        vh::Rng rng(args.seed, c);
        Progress("build-history");
        SelectParams(ChainType::REGTEST);
        const History H = [&] {
            ECC_Context ecc; // signing needs the secp256k1 context; the nodes below create their own
            return BuildHistory(rng, n_test_blocks, max_inputs);
        }();
        std::vector<Config> cfgs;
        cfgs.push_back(Config{0, 0, 0, 16, 0});
        if (full_grid) {
            int k = 0;
            for (int w : WT) {
                for (int p : PF) {
                    if (w == 0 && p == 0) continue;
                    cfgs.push_back(Config{w, p, static_cast<int>((k++ + c) % 3), CPUS[rng.below(3)], PROBS[rng.below(4)]});
                }
            }
        } else {
            // latin-square style: every thread value of both axes appears once per case, offsets move with the case index
            for (int i = 0; i + 1 < nconf; ++i) {
                const int w = WT[(i + 1 + c) % 6], p = PF[(i * 5 + 2 + c / 6 + c) % 6];
                cfgs.push_back(Config{w, p, static_cast<int>((i + c) % 3), CPUS[rng.below(3)], PROBS[1 + rng.below(3)]});
            }
        }
        std::vector<std::string> crecs;
        std::set<uint64_t> fps;
        uint64_t nontrivial_blocks = 0;
        for (size_t ci = 0; ci < cfgs.size(); ++ci) {
            const Config& cfg = cfgs[ci];
            vh::Rng crng(args.seed, c * 1000 + 500 + ci);
            ConfigResult R = RunConfig(H, cfg, args.seed * 7919 + c, aff, crng);
            fps.insert(R.fps.begin(), R.fps.end());
            nontrivial_blocks += R.nontrivial_blocks;
            crecs.push_back(vh::J().i("script_threads", cfg.script_threads).i("fetch_threads", cfg.fetch_threads).i("cache_mode", cfg.cache_mode).i("cpus", cfg.cpus).u("prob", cfg.prob)
                                .raw("steps", vh::JArr(R.steps)).str("final_digest", R.final_digest).str("utxo_hash", R.utxo_hash).u("coins", R.coins).str("tip", R.tip).done());
            vh::log().obs("block_configs_run");
            vh::log().obs(std::string("cfg_script_threads_") + std::to_string(cfg.script_threads));
            vh::log().obs(std::string("cfg_fetch_threads_") + std::to_string(cfg.fetch_threads));
            vh::log().obs(std::string("cfg_cache_mode_") + std::to_string(cfg.cache_mode));
        }
        vh::log().obs("perturbations", e7::g_perturbations.exchange(0));
        vh::log().rec(vh::J().u("case", c).str("kind", "blocks").u("test_valid", H.n_test_valid).u("var_script", H.n_script).u("var_missing", H.n_missing)
                          .str("model_final_digest", H.final_digest).u("model_coins", H.ledger.size()).raw("configs", vh::JArr(crecs)).u("nontrivial_blocks", nontrivial_blocks).u("fingerprints", fps.size()));
    }
    e7::Uninstall();
    return 0;
}

VH_CMD(c14_overlay)
{
    e7::Affinity aff;
    e7::Install();
    Watchdog wd(static_cast<int>(args.geti("stall_s", 60)));
    for (uint64_t c = args.from; c < args.to; ++c) {
        vh::set_case(c);
        g_wd_case.store(c);
        RunOverlayCase(args, c, aff);
    }
    g_pools.clear();
    e7::Uninstall();
    return 0;
}
