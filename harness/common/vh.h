// Common harness support: sub-command registry, own seeded PRNG (independent of the code under
// test), JSONL event log. No repository headers are included here on purpose.
#pragma once

#include <cstdint>
#include <cstdio>
#include <cstring>
#include <map>
#include <string>
#include <string_view>
#include <vector>

namespace vh {

struct Args {
    uint64_t seed{1};
    uint64_t from{0};
    uint64_t to{1};
    std::string out;
    std::map<std::string, std::string> params;
    int64_t geti(const std::string& k, int64_t def) const;
    std::string gets(const std::string& k, const std::string& def) const;
};

using CmdFn = int (*)(const Args&);
struct Reg {
    Reg(const char* name, CmdFn fn);
};
#define VH_CMD(name)                                   \
    static int vh_cmd_##name(const vh::Args&);         \
    static vh::Reg vh_reg_##name(#name, vh_cmd_##name); \
    static int vh_cmd_##name([[maybe_unused]] const vh::Args& args)

// xoshiro256** seeded by splitmix64 from (seed, stream). Every case derives its own generator
// from (VERIF shard seed, case index) so a single case can be replayed alone.
class Rng
{
    uint64_t s[4];

public:
    Rng(uint64_t seed, uint64_t stream);
    uint64_t next();
    // uniform in [0, n) ; n > 0
    uint64_t below(uint64_t n);
    // uniform in [lo, hi] inclusive
    int64_t range(int64_t lo, int64_t hi);
    bool chance(uint32_t num, uint32_t den) { return below(den) < num; }
    bool coin() { return next() >> 63; }
    std::vector<unsigned char> bytes(size_t n);
    void fill(unsigned char* p, size_t n);
    template <typename C>
    auto& pick(C& c) { return c[below(c.size())]; }
    template <typename C>
    void shuffle(C& c)
    {
        for (size_t i = c.size(); i > 1; --i) std::swap(c[i - 1], c[below(i)]);
    }
    // weighted choice: returns index
    size_t weighted(const std::vector<uint32_t>& w);
};

std::string Hex(const unsigned char* p, size_t n);
template <typename C>
std::string Hex(const C& c) { return Hex(reinterpret_cast<const unsigned char*>(c.data()), c.size()); }
std::vector<unsigned char> UnHex(std::string_view s);
std::string JsonEscape(std::string_view s);

// Minimal JSON object builder (flat or nested through raw()).
class J
{
    std::string s{"{"};
    bool first{true};
    void key(std::string_view k);

public:
    J& i(std::string_view k, int64_t v);
    J& u(std::string_view k, uint64_t v);
    J& b(std::string_view k, bool v);
    J& str(std::string_view k, std::string_view v);
    J& hex(std::string_view k, const unsigned char* p, size_t n);
    template <typename C>
    J& hex(std::string_view k, const C& c) { return hex(k, reinterpret_cast<const unsigned char*>(c.data()), c.size()); }
    J& raw(std::string_view k, std::string_view json);
    J& null(std::string_view k);
    std::string done() const { return s + "}"; }
};
// JSON array of raw items
std::string JArr(const std::vector<std::string>& items);
std::string JStr(std::string_view s); // quoted+escaped

class Log
{
    FILE* f{nullptr};
    std::map<std::string, int64_t> m_obs;
    uint64_t m_violations{0};

public:
    void open(const std::string& path);
    void close(); // writes the obs block
    void rec(const J& j);
    void line(const std::string& json);
    // An online monitor saw the property refuted. key: stable class of the failure (for known-findings
    // matching), msg: human text, details: the witness.
    void violation(std::string_view key, std::string_view msg, const J& details);
    void obs(const std::string& name, int64_t n = 1) { m_obs[name] += n; }
    void obs_max(const std::string& name, int64_t v)
    {
        auto& x = m_obs["max:" + name];
        if (v > x) x = v;
    }
    uint64_t violations() const { return m_violations; }
};
Log& log();

// Current case index (set by engines for violation records / crash context)
void set_case(uint64_t c);
uint64_t cur_case();

} // namespace vh
